"""Implementation runner, generator and trace oracle shared by C14 / C15 / C18-devs.

Protocol: see lean/Driver/Devs.lean.  Times are ints in units of 1/1024.
"""
from __future__ import annotations

from . import core

UNIT = 1024
PRIOS = (1, 5, 10)


def _mesa():
    core.import_mesa()
    from mesa import Model
    from mesa.experimental.devs import ABMSimulator, DEVSimulator, Priority

    return Model, ABMSimulator, DEVSimulator, Priority


def parse_cmds(rest):
    cmds = []
    for part in " ".join(rest).split(";"):
        w = part.split()
        if w:
            cmds.append((w[0], *map(int, w[1:])))
    return cmds


class Impl:
    """drives the real simulator with one scenario; records observations and a trace"""

    def __init__(self, kind, float_ticks=False):
        Model, ABMSimulator, DEVSimulator, Priority = _mesa()
        self.kind = kind
        self.float_ticks = float_ticks
        self.PR = {1: Priority.HIGH, 5: Priority.DEFAULT, 10: Priority.LOW}
        outer = self

        class M(Model):
            def step(self):
                outer.log.append(("S", outer.now()))
                outer.trace.append(("exec", "S", outer.now()))
                for c in outer.step_prog:
                    outer.cmd(c, nested=True)

        self.M = M
        self.model = M(seed=0)
        self.sim = ABMSimulator() if kind == "abm" else DEVSimulator()
        self.progs, self.step_prog = {}, []
        self.events, self.keep, self.log, self.trace = [], {}, [], []

    # time conversion -----------------------------------------------------------------
    def t(self, x):
        if self.kind == "abm" and x % UNIT == 0 and not self.float_ticks:
            return x // UNIT
        return x / UNIT

    def now(self):
        v = self.sim.time * UNIT
        assert v == int(v)
        return int(v)

    # commands ------------------------------------------------------------------------
    def make(self, a, tag):
        def fn():
            self.log.append((tag, self.now()))
            self.trace.append(("exec", tag, self.now()))
            for c in self.progs.get(a, []):
                self.cmd(c, nested=True)

        return fn

    def cmd(self, c, nested=False):
        k = c[0]
        if k in ("abs", "rel"):
            _, x, p, a = c
            tag = len(self.events)
            fn = self.make(a, tag)
            try:
                if k == "abs":
                    ev = self.sim.schedule_event_absolute(fn, self.t(x), priority=self.PR[p])
                else:
                    ev = self.sim.schedule_event_relative(fn, self.t(x), priority=self.PR[p])
            except ValueError as e:
                kind = "Past" if "past" in str(e) else "Unit"
                self.trace.append(("reject", k, x, self.now(), kind))
                return "err " + kind
            self.keep[tag] = fn
            self.events.append(ev)
            when = x if k == "abs" else self.now() + x
            self.trace.append(("sched", tag, when, p, self.now(), k))
            return f"ok tag={tag}"
        if k == "cancel":
            if c[1] < len(self.events):
                self.sim.cancel_event(self.events[c[1]])
                self.trace.append(("cancel", c[1]))
            return "ok"
        if k == "drop":
            if c[1] in self.keep:
                del self.keep[c[1]]
                self.trace.append(("drop", c[1]))
            return "ok"
        raise ValueError(c)

    def fmt_run(self):
        s = " ".join(f"{i}@{t}" for i, t in self.log)
        self.log = []
        return f"ok now={self.now()} steps={self.model.steps} log={s}"

    def tag_of(self, ev):
        fn = ev.fn() if ev.fn is not None else None
        if fn is not None and fn == self.model.step:
            return "S"
        return str(self.events.index(ev))

    def line(self, w):
        k = w[0]
        if k == "prog":
            self.progs[int(w[1])] = parse_cmds(w[2:])
            return "ok"
        if k == "stepprog":
            self.step_prog = parse_cmds(w[1:])
            return "ok"
        if k == "setup":
            self.sim.setup(self.model)
            self.trace.append(("setup",))
            return "ok"
        if k == "reset":
            # the visualisation's reset flow: same simulator object, fresh model, setup again
            self.sim.reset()
            self.model = self.M(seed=0)
            self.events, self.keep, self.log = [], {}, []
            self.trace.append(("reset",))
            return "ok"
        if k in ("abs", "rel", "cancel", "drop"):
            return self.cmd((k, *map(int, w[1:])))
        if k == "until":
            self.trace.append(("run", "until", int(w[1])))
            self.sim.run_until(self.t(int(w[1])))
            self.trace.append(("ran", self.now(), self.model.steps))
            return self.fmt_run()
        if k == "for":
            self.trace.append(("run", "until", self.now() + int(w[1])))
            self.sim.run_for(self.t(int(w[1])))
            self.trace.append(("ran", self.now(), self.model.steps))
            return self.fmt_run()
        if k == "next":
            self.trace.append(("run", "next"))
            self.sim.run_next_event()
            self.trace.append(("ran", self.now(), self.model.steps))
            return self.fmt_run()
        if k == "peek":
            try:
                evs = self.sim.event_list.peak_ahead(int(w[1]))
            except IndexError:
                evs = []
            tags = [self.tag_of(e) for e in evs]
            self.trace.append(("peek", int(w[1]), tags))
            return "ok peek=" + " ".join(tags)
        raise ValueError(w)


def run_impl(sc):
    w0 = sc.lines[0].split()
    assert w0[0] == "scenario"
    impl = Impl(w0[1], float_ticks=bool(sc.meta.get("float_ticks")))
    obs = ["ok"]
    for line in sc.lines[1:]:
        obs.append(impl.line(line.split()))
    sc.meta["trace"] = impl.trace
    return obs


# --------------------------------------------------------------------------------------
# generator: only well-founded programs (an action schedules actions of strictly smaller
# index, or — for step bodies — with strictly positive delay); horizons never decrease


def gen_cmds(R, a_max, allow_sched, times, rel_times):
    cmds = []
    for _ in range(R.choice([0, 0, 1, 1, 2, 3])):
        k = R.random()
        if allow_sched and a_max > 0 and k < 0.4:
            cmds.append(("rel", R.choice(rel_times), R.choice(PRIOS), R.randrange(a_max)))
        elif allow_sched and a_max > 0 and k < 0.65:
            cmds.append(("abs", R.choice(times), R.choice(PRIOS), R.randrange(a_max)))
        elif k < 0.85:
            cmds.append(("cancel", R.randrange(0, 10)))
        else:
            cmds.append(("drop", R.randrange(0, 10)))
    return cmds


def fmt_cmds(cmds):
    return " ; ".join(" ".join(map(str, c)) for c in cmds)


def gen_scenario(R, kind=None, n_ops=None, run_weight=1.0):
    kind = kind or R.choice(["devs", "abm"])
    if kind == "abm":
        times = [0, 1024, 2048, 3072, 4096, 5120, 512, 1536]
        rel_times = [0, 1024, 2048, -1024, 512, 0, 1024]
        horizons = [0, 1024, 1024, 2048, 3072, 1024, 512]
    else:
        times = [0, 512, 1024, 1536, 2048, 3072, 4096, 100, 1025]
        rel_times = [0, 512, 1024, 2048, -512, 1, 0]
        horizons = [0, 512, 1024, 1536, 100]
    base = 0
    if kind == "devs" and R.random() < 0.25:
        # large clock values (2^31 time units): all arithmetic stays exact in binary64, but any tolerance-based
        # comparison (isclose, rounding to n digits) in the code would show
        base = 2 ** 41
        times = [base + t for t in times] + [base + 1, base + 1023]
        horizons = horizons + [1, 1023]
    nact = R.randrange(1, 6)
    meta = {"float_ticks": R.random() < 0.3}
    lines = [f"scenario {kind}"]
    for a in range(nact):
        lines.append(f"prog {a} " + fmt_cmds(gen_cmds(R, a, True, times, rel_times)))
    if kind == "abm" and R.random() < 0.6:
        # the step body may schedule anything (it is itself re-armed one tick later: positive delay)
        lines.append("stepprog " + fmt_cmds(gen_cmds(R, nact, True, times, rel_times)))
    lines.append("setup")
    # horizons must not lie before the clock (quantifier of C14): the generator executes the prefix
    # on the implementation to know the clock (`next` moves it to an event time)
    impl = Impl(kind, float_ticks=meta["float_ticks"])
    for l in lines[1:]:
        impl.line(l.split())
    for _ in range(n_ops if n_ops is not None else R.randrange(3, 16)):
        k = R.random()
        rw = 0.4 * run_weight
        if k < 0.33:
            l = f"abs {R.choice(times)} {R.choice(PRIOS)} {R.randrange(nact)}"
        elif k < 0.48:
            l = f"rel {R.choice(rel_times)} {R.choice(PRIOS)} {R.randrange(nact)}"
        elif k < 0.56:
            l = f"cancel {R.randrange(0, 10)}"
        elif k < 0.60:
            l = f"drop {R.randrange(0, 10)}"
        elif k < 0.60 + rw * 0.45:
            l = f"until {max(impl.now(), base) + R.choice(horizons)}"
        elif k < 0.60 + rw * 0.65:
            l = f"for {R.choice(horizons)}"
        elif k < 0.60 + rw * 0.9:
            l = "next"
        else:
            l = f"peek {R.randrange(1, 6)}"
        if base == 0 and R.random() < 0.04:
            for l2 in ("reset", "setup"):
                impl.line(l2.split())
                lines.append(l2)
        impl.line(l.split())
        lines.append(l)
    return core.Scenario(lines, meta)


# --------------------------------------------------------------------------------------
# trace oracle: the property's clauses evaluated on what the implementation did


def oracle(sc, obs, abm_clauses=True):
    tr = sc.meta.get("trace") or []
    kind = sc.lines[0].split()[1]
    bad = []
    pending = {}  # tag -> (time, prio, order)
    step_pending = None  # (time, 1, order)
    order = 0
    executed, dead = set(), set()
    drops = 0
    last_clock = None
    run = None
    for ev in tr:
        k = ev[0]
        if k == "reset":
            pending, step_pending, executed, dead = {}, None, set(), set()
            drops, last_clock, run = 0, None, None
        elif k == "setup":
            if kind == "abm":
                step_pending = (UNIT, 1, order)
                order += 1
        elif k == "sched":
            _, tag, when, p, now, how = ev
            if when < now:
                bad.append(f"sched-past: event {tag} accepted for {when} < now {now}")
            if kind == "abm" and when % UNIT:
                bad.append(f"sched-unit: event {tag} accepted at non-integer tick {when}")
            pending[tag] = (when, p, order)
            order += 1
        elif k == "reject":
            _, how, x, now, why = ev
            when = x if how == "abs" else now + x
            valid = when >= now and (kind != "abm" or when % UNIT == 0)
            if valid:
                bad.append(f"reject-valid: valid {how} {x} at now {now} rejected ({why})")
        elif k == "cancel":
            pending.pop(ev[1], None)
            dead.add(ev[1])
        elif k == "drop":
            if ev[1] in pending:
                drops += 1  # the event stays in the list (visible to peak_ahead) until popped
            pending.pop(ev[1], None)
            dead.add(ev[1])
        elif k == "run":
            run = ev
            if ev[1] == "until" and last_clock is not None and ev[2] < last_clock:
                return []  # horizon before the clock: outside the property's quantifier, nothing is claimed
        elif k == "exec":
            _, tag, clock = ev
            if last_clock is not None and clock < last_clock:
                bad.append(f"clock-back: clock {clock} after {last_clock}")
            last_clock = clock
            live = dict(pending)
            if tag == "S":
                if step_pending is None:
                    bad.append("step-unscheduled: step executed without a pending step event")
                    continue
                key = step_pending
                step_pending = None
                if kind == "abm":
                    # re-armed before it executes
                    step_pending = (clock + UNIT, 1, order)
                    order += 1
            else:
                if tag in executed:
                    bad.append(f"twice: event {tag} executed twice")
                if tag in dead:
                    bad.append(f"dead-ran: cancelled/collected event {tag} executed")
                if tag not in pending:
                    continue
                key = pending.pop(tag)
                live.pop(tag)
                executed.add(tag)
            if key[0] != clock:
                bad.append(f"clock-ne-time: event {tag} scheduled for {key[0]} ran at clock {clock}")
            others = list(live.values()) + ([step_pending] if (tag != "S" and step_pending) else [])
            if tag == "S" and kind == "abm":
                others = list(live.values())
            for o in others:
                if o < key:
                    bad.append(f"order: event {tag} {key} ran while {o} was pending")
                    break
            if run and run[1] == "until" and clock > run[2]:
                bad.append(f"beyond: event {tag} at {clock} ran in run_until({run[2]})")
        elif k == "ran":
            _, now, steps = ev
            if run[1] == "until":
                T = run[2]
                if now != T:
                    bad.append(f"until-clock: clock {now} after run_until({T})")
                left = [v for v in pending.values() if v[0] <= T]
                if step_pending and step_pending[0] <= T:
                    left.append(step_pending)
                if left:
                    bad.append(f"until-left: live events {sorted(left)[:3]} not executed by run_until({T})")
                if abm_clauses and kind == "abm" and T % UNIT == 0 and steps != T // UNIT:
                    bad.append(f"abm-steps: steps {steps} != clock {T // UNIT}")
            if last_clock is not None and now < last_clock:
                bad.append(f"clock-back: clock {now} after {last_clock}")
            last_clock = now
            run = None
        elif k == "peek":
            _, n, tags = ev
            allp = [(v, str(t)) for t, v in pending.items()]
            # dropped-but-not-cancelled events stay visible in the list: not modelled by `pending`
            if not drops:
                if step_pending:
                    allp.append((step_pending, "S"))
                want = [t for _, t in sorted(allp)][:n]
                if tags != want:
                    bad.append(f"peek: peak_ahead({n}) = {tags}, execution order is {want}")
    return bad


# --------------------------------------------------------------------------------------
# C18 part: rejected scheduling calls (past / wrong unit) leave the simulator unchanged

C18_LEAN_MODULES = ["MesaModel.Props.C14"]
C18_THEOREMS = ["Mesa.Devs.C14_schedule_rejects_exactly"]
C18_DRIVER = "drv_devs"


def generate_rejecting(rng, tier, count):
    n = 0
    while n < count:
        sc = gen_scenario(rng, run_weight=0.8)
        # bias towards rejected calls: rewrite some accepted top-level schedules into past / wrong-unit ones
        kind = sc.lines[0].split()[1]
        out = []
        for l in sc.lines:
            w = l.split()
            if w[0] == "abs" and rng.random() < 0.35:
                l = f"abs {rng.choice([-1024, -1, 0, 100, 513] if kind == 'abm' else [-1024, -1, 0])} {w[2]} {w[3]}"
            elif w[0] == "rel" and rng.random() < 0.35:
                l = f"rel {rng.choice([-2048, -1, 1, 512] if kind == 'abm' else [-2048, -1])} {w[2]} {w[3]}"
            out.append(l)
        sc.lines = out
        # horizons were computed for the unmodified scenario; keep only `for`/`next`/peek run ops to stay in the quantifier
        sc.lines = [("for " + str(int(l.split()[1]) % 3072) if l.startswith("until ") else l) for l in sc.lines]
        n += 1
        yield sc
