"""C08 — legacy grids: pos, cell contents, empties and empty_mask never disagree."""
from . import core, legacy_common as L

PROP = "C08"
DRIVER = "drv_legacy"
WATCHDOG = 900  # seconds per scenario: the chained exhaustive scenarios have > 10^4 lines; the shared machine is often overloaded
LEAN_MODULES = ["MesaModel.Props.C08", "MesaModel.Props.C18Legacy", "MesaModel.Props.C18LegacyExact"]
THEOREMS = [
    "Mesa.Legacy.C08_views_agree_all_histories",
    "Mesa.Legacy.C08_step_keeps_agreement",
    "Mesa.Legacy.C08_pos_is_the_one_cell",
    "Mesa.Legacy.C08_single_cell_at_most_one",
    "Mesa.Legacy.C08_empties_exact_built_or_not",
    "Mesa.Legacy.C08_emptiness_views",
    "Mesa.Legacy.C08_agents_view",
    "Mesa.Legacy.C08_agents_whatever_truth_value",
    "Mesa.Legacy.C08_getitem_wraps_or_rejects",
    "Mesa.Legacy.C08_move_wraps_or_rejects",
    "Mesa.Legacy.C08_move_single_rejects_occupied",
    "Mesa.Legacy.C08_moveToEmpty_lands_on_empty",
    "Mesa.Legacy.C08_moveToEmpty_full_grid",
    "Mesa.Legacy.C08_moveToOneOf_lands_on_offered",
    "Mesa.Legacy.C08_closest_minimises_distance",
    "Mesa.Legacy.C08_distance_is_torus_metric",
    "Mesa.Legacy.C08_remove_takes_out_or_changes_nothing",
    "Mesa.Legacy.C08_remove_foreign_agent",
    "Mesa.Legacy.C08_place_appends",
    "Mesa.Legacy.C08_move_contents",
    "Mesa.Legacy.C08_swap_exchanges",
    "Mesa.Legacy.C08_isCellEmpty_any_integers",
    "Mesa.Legacy.C08_slices_select_in_range_indices",
    "Mesa.Legacy.C08_indexing_shows_cells",
    "Mesa.Legacy.C08_coord_iter_shows_every_cell_once",
    "Mesa.Legacy.C08_select_only_empty_is_empties_all_histories",
    "Mesa.Legacy.C08_select_cells_exact",
    "Mesa.Legacy.C08_select_extreme_value",
    "Mesa.Legacy.C08_select_extremes_narrow",
    "Mesa.Legacy.C08_select_rejects_exactly",
    "Mesa.Legacy.C08_select_empty_cells_in_range",
    "Mesa.Legacy.C08_moveToOneOf_random_draws",
    "Mesa.Legacy.C08_closest_scan_is_min_filter",
    "Mesa.Legacy.C08_closest_draws_and_tie_list",
    "Mesa.Legacy.C08_moveToEmpty_draws",
    "Mesa.Legacy.C08_network_views_agree_all_histories",
    "Mesa.Legacy.C08_network_step_keeps_agreement",
    "Mesa.Legacy.C08_network_pos_is_the_one_node",
    "Mesa.Legacy.C08_network_emptiness_and_contents_views",
    "Mesa.Legacy.C08_network_move_lands_or_rejects",
    "Mesa.Legacy.C08_network_place_remove",
    "Mesa.Legacy.C18_legacy_move_reject_unchanged",
    "Mesa.Legacy.C18_legacy_place_reject_unchanged",
    "Mesa.Legacy.C18_legacy_remove_reject_unchanged",
    "Mesa.Legacy.C18_legacy_swap_reject_unchanged",
    "Mesa.Legacy.C18_legacy_moveToOneOf_reject_unchanged",
    "Mesa.Legacy.C18_legacy_moveToEmpty_reject_unchanged",
    "Mesa.Legacy.C18_legacy_step_reject_unchanged",
    "Mesa.Legacy.C18_legacy_rejected_calls_deletable",
    "Mesa.Legacy.C18_legacy_reads_same_after_deletion",
    "Mesa.Legacy.C18_legacy_rejects_exactly",
    "Mesa.Legacy.C18_legacy_moveToOneOf_rejects_exactly",
    "Mesa.Legacy.C18_legacy_place_any_integers",
    "Mesa.Legacy.C18_legacy_place_outside_deletable",
    "Mesa.Legacy.C08_place_negative_coordinates_break_agreement",
    "Mesa.Legacy.C18_legacy_rejected_calls_deletable_any_future",
    "Mesa.Legacy.C18_legacy_new_reads_same_after_deletion",
    "Mesa.Legacy.C18_legacy_net_step_reject_unchanged",
    "Mesa.Legacy.C18_legacy_net_rejects_exactly",
    "Mesa.Legacy.C18_legacy_net_rejected_calls_deletable",
]
COUNTS = {"quick": 1600, "thorough": 60000}
TRUSTED = [
    "CPython list/set/dict semantics (a cell is a list of agent ids, `_empties` a set kept as a sorted list, `agent.pos` a map)",
    "numpy boolean array indexing of `_empty_mask` (modelled as a function cell -> Bool)",
    "numpy in select_cells: logical_and of boolean arrays, masked-array max/min over the selected cells (a fully masked array selects nothing), "
    "np.where lists True cells in (x, y) order; PropertyLayer.data[x, y] indexes like a Python list per axis (modelled; compared on every run)",
    "cutoff_empties = 7.953 * num_cells ** 0.384 (float formula; its floor is read from the running grid and sent in the scenario header)",
    "random.Random.shuffle / choice / randrange of CPython 3.12 draw through _randbelow as modelled (Fisher-Yates from the top, choice = seq[_randbelow(len)])",
    "networkx node bookkeeping: G.nodes[v] raises KeyError exactly for a node that is not in the graph; iteration over G is in insertion order (the protocol builds range(n))",
    "place_agent with coordinates in the aliasing band -size..-1 is modelled for the call itself only (tie: last mutating call of an outside-quantifier scenario); beyond the band it raises IndexError (modelled, in the quantifier of the widened histories)",
    "CPython list indexing / slicing semantics (modelled: pyIndex, sliceIndices = PySlice_AdjustIndices + range; compared exhaustively on small lists on every run)",
]
ASSUMPTIONS = ["place_agent is called for an unplaced agent at in-grid coordinates (the property's quantifier) or beyond the grid's index range (rejected; widened histories HistOkR)",
               "hex variants: the mutating calls are inherited unchanged from SingleGrid / MultiGrid (checked by running all four classes)"]
RULE = ("random histories on all four grid classes: sizes 1x1..5x5 (62%), tiny grids that fill up (20%), 6x6..8x8 where move_to_empty samples "
        "(18%); torus on/off; with/without property layers; 1-7 agents; 5-40 (thorough: 60) ops from {place, remove, move (in-grid, near and far "
        "out-of-grid targets), swap, move_to_empty (scripted draws), move_agent_to_one_of (random/closest/invalid, duplicates, out-of-grid "
        "offers, empty list with all handle_empty modes), empties, exists_empty_cells, is_cell_empty, empty_mask, agents, iteration, coord_iter, select_cells (0-2 masks from get_neighborhood_mask / explicit arrays, only_empty, conditions and extreme values on two int layers incl. missing layers and invalid modes, both return forms), PropertyLayer.set_cell, indexing "
        "(grid[x, y], and 5% of the reads: is_cell_empty / grid[x] with ints in and beyond -n..n-1, grid[ix, iy] with slices whose bounds exceed the "
        "size and steps in {None, 1, 2, 3, -1, -2, 0}, grid[(x1, y1), ...], torus_adj, out_of_bounds)}; exhaustive index/slice enumeration on "
        "three small grids every within-quantifier history of length <= 3 of place / remove / move / swap with two agents on a 2x1 SingleGrid and MultiGrid (torus on/off; "
        "length <= 2 again after empties was built), and every within-quantifier NetworkGrid history of length <= 3 (two agents) / <= 4 (one agent) over two nodes and a missing one "
        "first on every run (builtin_corpus); "
        "30% of histories read empties only in their second half; 15% of histories are from the rejecting-call stream (generate_rejecting: most agents placed first, then half of the calls are chosen to be rejected: out-of-grid / occupied targets, unplaced agents, full grid, invalid selection, exhausted generator); a full dump (pos, contents, mask, is_cell_empty) follows every mutating call; 4% of the histories additionally place already-placed agents (outside the quantifier: model-vs-code tie only, no oracle). "
        "12% of all scenarios are NetworkGrid-as-a-space histories (random simple graphs with 1-7 nodes, 1-6 agents, place / move / remove with 12% "
        "(rejecting stream 45%) of the targets missing nodes, unplaced agents moved / removed, moves onto the own node, is_cell_empty / "
        "get_cell_list_contents / iter_cell_list_contents (also with missing nodes) / get_all_cell_contents / agents / get_neighbors, a dump after every "
        "mutating call). non-trivial = at least 3 successful mutating calls and at least one read of empties / exists / move_to_empty "
        "(NetworkGrid: at least 3 successful mutating calls, one of them a move)")


NET_SHARE = 0.12  # NetworkGrid-as-a-space histories


def generate(rng, tier, count):
    for _ in range(count):
        if rng.random() < NET_SHARE:
            yield L.gen_c08_net(rng, tier, rejecting=rng.random() < 0.3)
        else:
            yield L.gen_c08(rng, tier, rejecting=rng.random() < 0.15)


def generate_rejecting(rng, tier, count):
    for _ in range(count):
        if rng.random() < NET_SHARE:
            yield L.gen_c08_net(rng, tier, rejecting=True)
        else:
            yield L.gen_c08(rng, tier, rejecting=True)


def builtin_corpus():
    return L.exhaustive_index_c08() + L.foreign_agent_scenarios() + L.exhaustive_c08_net() + L.exhaustive_c08_grid() + L.exhaustive_select_c08()


run_impl = L.run_impl
oracle = L.guarded(L.oracle_c08)
gen_tables = L.gen_tables

MUT = ("place", "remove", "move", "swap", "mte", "mto")
NMUT = ("nplace", "nremove", "nmove")


def nontrivial(sc, obs):
    if sc.lines[0].split()[1] == "net":
        n = sum(1 for l, o in zip(sc.lines, obs) if l.split()[0] in NMUT and o == "ok")
        return n >= 3 and any(l.split()[0] == "nmove" and o == "ok" for l, o in zip(sc.lines, obs))
    n = sum(1 for l, o in zip(sc.lines, obs) if l.split()[0] in MUT and o == "ok")
    return n >= 3 and any(l.split()[0] in ("empties", "exists", "mte") for l in sc.lines)


def tags(sc, obs):
    w = sc.lines[0].split()
    if w[1] == "net":
        if sc.meta.get("oq"):
            yield "stream:outside-quantifier(tie only)"
        yield "kind:network"
        n = int(w[2])
        for l, o in zip(sc.lines[1:], obs[1:]):
            t = l.split()
            if t[0] == "ndump":
                continue
            yield "op:" + t[0]
            if o.startswith("err"):
                yield f"reject:{t[0]}:{o.split()[1]}"
            if t[0] in ("nplace", "nmove") and int(t[2]) >= n:
                yield "branch:net-target-node-missing"
        return
    if sc.meta.get("oq"):
        yield "stream:outside-quantifier(tie only)"
    yield "kind:" + w[2]
    yield "torus:" + w[5]
    yield "layers:" + w[6]
    built = False
    for l, o in zip(sc.lines[1:], obs[1:]):
        k = l.split()[0]
        if k == "dump":
            continue
        yield "op:" + k
        if o.startswith("err"):
            yield f"reject:{k}:{o.split()[1]}"
        if k in ("empties", "exists", "mte") and not built:
            built = True
            yield "branch:empties-first-built-" + ("before-any-mutation" if not any(x.split()[0] in MUT for x in sc.lines[1:sc.lines.index(l)]) else "mid-history")
        if k == "place" and not (0 <= int(l.split()[2]) < int(w[3]) and 0 <= int(l.split()[3]) < int(w[4])):
            yield "branch:place-" + ("beyond-grid" if o == "err Index" else "aliased-negative-coordinates(tie only)")
        if k in MUT and built and o == "ok":
            yield "branch:mutation-after-empties-built"
        if k in MUT and not built and o == "ok":
            yield "branch:mutation-before-empties-built"
    if not built:
        yield "branch:empties-never-built"
    tr = sc.meta.get("trace") or []
    H = L._hdr(sc)
    for i, e in enumerate(tr):
        if e["op"][0] == "mto" and e["res"] == "ok":
            head, script = L.split_script(e["op"])
            ps, pa = L.pairs(head[5:]), L.trace_before(tr, i)["pos"][int(head[1])]
            if not ps:
                yield "branch:mto-empty-list-" + head[3]
            elif head[2] == "random":
                yield "branch:mto-random"
            elif pa is not None:
                ties = L.closest_ties(H, ps, pa)
                cells = {(q[0] % H["w"], q[1] % H["h"]) if H["torus"] else tuple(q) for q in ties}
                yield "branch:mto-closest-" + ("unique" if len(ties) == 1 else "tie-one-cell-offered-twice" if len(cells) == 1 else
                                               "tie-2-cells" if len(cells) == 2 else "tie-3+-cells")
        if e["op"][0] == "mte" and len(L.split_script(e["op"])[0]) == 3:
            yield "branch:mte-empties-set-reordered"
        if e["op"][0] == "mte" and e["res"] == "ok":
            _, script = L.split_script(e["op"])
            B = L.trace_before(tr, i)
            if sum(1 for v in B["cells"].values() if not v) > int(w[7]) and len(script) >= 2:
                first = (script[0] % H["w"], script[1] % H["h"])
                yield "branch:mte-sampling-" + ("first-attempt" if not B["cells"][L.ck(first)] else "retry-after-occupied-cell")
        if e["op"][0] == "sel":
            rl, oe, masks, conds, exts = L.parse_sel(e["op"])
            yield "branch:sel-return-" + ("list" if rl else "mask")
            if oe:
                yield "branch:sel-only-empty" + ("-stacked-cell-present" if any(len(v) > 1 for v in L.trace_before(tr, i)["cells"].values()) else "")
            for m in masks:
                yield "branch:sel-mask-" + ("neighbourhood" if m[0] == "N" else "explicit")
            if conds:
                yield "branch:sel-conditions"
            if exts:
                yield f"branch:sel-extreme-values-{len(exts)}"
                if e["res"] in ("ok", "ok " + "0" * (int(w[3]) * int(w[4]))):
                    yield "branch:sel-extreme-of-nothing"
                elif e["res"].startswith("ok") and (len(e["val"]) > 1 if rl else sum(e["val"]) > 1):
                    yield "branch:sel-extreme-tie"
        if e["op"][0] == "lset" and e["res"] == "ok" and (int(e["op"][2]) < 0 or int(e["op"][3]) < 0):
            yield "branch:lset-negative-index-alias"
        if e["op"][0] == "mte" and e["res"] == "ok":
            n = sum(1 for v in L.trace_before(tr, i)["cells"].values() if not v)
            yield "branch:mte-" + ("sampling" if n > int(w[7]) else "choice")


if __name__ == "__main__":
    import sys
    core.main(sys.modules[__name__])
