"""C12 — DataCollector records exactly what the model showed at each collect."""
from . import collect_common as CC
from . import core

PROP = "C12"
DRIVER = "drv_collect"
LEAN_MODULES = ["MesaModel.Props.C12", "MesaModel.Props.C18Collect"]
THEOREMS = [
    "Mesa.Collect.C12_model_vars_are_snapshots",
    "Mesa.Collect.C12_stored_values_immune",
    "Mesa.Collect.C12_collect_records_registered_agents",
    "Mesa.Collect.C12_agent_records_by_step",
    "Mesa.Collect.C12_agent_frame_is_records",
    "Mesa.Collect.C12_model_frame_is_model_vars",
    "Mesa.Collect.C12_agenttype_records_by_step",
    "Mesa.Collect.C12_agenttype_rows_are_class_members",
    "Mesa.Collect.C12_table_rows_aligned",
    "Mesa.Collect.C12_partial_collect_visible",
    "Mesa.Collect.C12_raising_model_reporter_leaves",
    "Mesa.Collect.C12_raising_agent_reporter_leaves",
    "Mesa.Collect.C12_records_with_raising_reporters",
    "Mesa.Collect.C12_model_frame_every_shape",
    "Mesa.Collect.C12_agenttype_frame_is_records",
    "Mesa.Collect.C12_deepcopy_makes_stored_values_immune",
    "Mesa.Collect.C12_shallow_copy_not_immune",
    "Mesa.Collect.C12_stored_reference_not_immune",
    "Mesa.Collect.C12_reorder_only_permutes_agents",
    "Mesa.Collect.C12_shuffle_any_order",
    "Mesa.Collect.C12_creation_order_without_reorder",
    "Mesa.Collect.C18_collect_tablerow_reject_unchanged",
    "Mesa.Collect.C18_collect_tablerow_rejects_exactly",
    "Mesa.Collect.C18_collect_tablerow_reject_history",
]
COUNTS = {"quick": 2500, "thorough": 200000}
TRUSTED = [
    "pandas: DataFrame(dict of equal-length lists) and DataFrame.from_records(list of tuples, columns, index) only re-index what they are given (frames are compared as index tuples / column names / values on every run)",
    "copy.deepcopy gives every object reachable from a model-level value a fresh identity and keeps the shape (modelled in Model/CollectHeap.lean as a duplicate of the heap, immunity proved to any depth; exercised: list attributes are mutated in place after collects, also as the inner list of a nested value - a list in a 1-tuple, a list of lists - a function reporter returned; the driver's model keeps immutable values)",
    "reporters are functions of the snapshot (model/agent attributes, steps, registry) that return a value or raise; reporters with side effects (the trial call of the validation runs a plain function twice at the first collect) or reading global state are not modelled",
    "Model.agents / agents_by_type keep registration order (C03) until reordered; model.agents is reordered in place only through AgentSet.shuffle(inplace=True) (the random source replaced by one drawing a given permutation of the positions - any one -, the reversal or the rotation by one) and AgentSet.sort(key, ascending, inplace=True) (by unique_id, by an int-valued key); agents_by_type[T] is never reordered, select(inplace=True) on model.agents is not generated",
    "names (reporters, attributes, tables, columns, classes) are small naturals in dictionary order; key collisions between dictionaries are not generated",
]
ASSUMPTIONS = [
    "agent-level values are immutable (ints / None), as in the property's quantifier",
    "a collect inside which a reporter raises is outside the property (C12 quantifies over reporters that yield a value; C18 does not list collect): the oracle stops judging model_vars / frames after such a call, the correspondence still ties what the call left behind (partial collect) to the model",
    "the agent-type clauses are judged only for keys the quantifier allows (a class without subclassed instances or a base class without direct instances); other keys are still tied to the model, which follows the code",
]
RULE = ("random histories over a random class hierarchy (1-4 classes, random parents; with >= 3 classes one class has two bases in 25% of the scenarios) and reporter dictionaries mixing the four reporter forms at model, agent and "
        "agent-type level (attribute names incl. missing ones, lambdas / plain functions / partials, bound methods, [function, args]) plus 0-2 tables; in 12% of the "
        "scenarios some function reporters read their attribute directly and raise AttributeError while it is missing (first collect: RuntimeError from the trial "
        "call of a plain function; later: the collect ends in the model / agent / agent-type phase and leaves a partial collect); "
        "6-30 ops from {create, remove (incl. twice), step, model attribute set / in-place list append / delete, agent attribute set / delete, "
        "collect (0-n per step, also before any agent exists; every second function reporter returns its list as the inner object of a nested value - (list,) for an even, [list] for an odd attribute number - so the in-place append is an append to an inner list after the collect, oracle clause: what the collector holds reads the same before and after), add_table_row (complete, partial, ignore_missing, unknown table)}; in 30% of the scenarios "
        "model.agents is reordered in place between collects (shuffle(inplace=True) drawing a random permutation of the positions - 1 in 12 deliberately not a permutation: no draw -, a reversal or a rotation, sort(inplace=True) by unique_id or an "
        "int key, ascending / descending); with observations "
        "(model_vars, the four DataFrames) interleaved and at the end; non-trivial = at least one collect stored something and a frame with >= 1 row "
        "was observed; distinct = distinct op-line sequences (sha1)")

run_impl = CC.run_impl
oracle = CC.guarded(CC.oracle_collect)


def generate(rng, tier, count):
    for _ in range(count):
        yield CC.gen_collect_scenario(rng, reject_bias=0.0 if rng.random() < 0.8 else 1.0)


def generate_rejecting(rng, tier, count):
    """C18: histories rich in rejected add_table_row calls followed by valid ops"""
    for _ in range(count):
        yield CC.gen_collect_scenario(rng, reject_bias=1.0)


def nontrivial(sc, obs):
    stored = any(l == "collect" and o in ("ok", "err Value") for l, o in zip(sc.lines, obs))
    shown = any(l.split()[0] in ("mframe", "aframe", "tframe", "tab") and o.startswith("ok") and ("/" in o or "=" in o.split(" ", 1)[-1].replace("n=0", "").replace("cols=", ""))
                for l, o in zip(sc.lines, obs))
    return stored and shown


def tags(sc, obs):
    trace = sc.meta.get("trace") or {}
    for l, o in zip(sc.lines, obs):
        w = l.split()
        if w[0] in ("mrep", "arep"):
            yield f"{w[0]}:{w[1]}"
        elif w[0] == "trep":
            yield "trep"
        elif w[0] == "classes":
            if any("+" in x for x in w[1:]):
                yield "hier:multiple-inheritance"
        elif w[0] in ("scenario", "table", "start"):
            continue
        else:
            yield "op:" + w[0] + ("" if o.startswith("ok") else ":" + o)
    cs = trace.get("collects") or []
    steps = [c["step"] for c in cs if c["outcome"] == "ok"]
    if len(steps) != len(set(steps)):
        yield "branch:several-collects-in-one-step"
    if any(not c["agents"] for c in cs):
        yield "branch:collect-without-agents"
    if any(isinstance(v, list) for c in cs for v in c["m"]):
        yield "branch:mutable-model-value-collected"
    if trace.get("inner_appends"):
        yield "branch:inner-append-while-nested-value-stored"
    spec = trace.get("spec")
    if spec and any(not CC.type_clause_applies(spec, cs, T) for T, _ in spec.treps if T < len(spec.parents)):
        yield "branch:type-key-outside-quantifier"
    if any(c.get("reordered") and len(c["agents"]) >= 2 and [a[0] for a in c["agents"]] != sorted(a[0] for a in c["agents"]) for c in cs):
        yield "branch:collect-with-agents-out-of-creation-order"
    for c in cs:
        if CC.silent(c):
            yield f"branch:reporter-raised-in-collect:{c['phase']}:{c['outcome']}"


if __name__ == "__main__":
    import sys

    core.main(sys.modules[__name__])
