"""C13 — batch_run covers the whole design once and reports consistent rows."""
import os
import random
import sys

from . import collect_common as CC
from . import core

PROP = "C13"
DRIVER = "drv_collect"
LEAN_MODULES = ["MesaModel.Props.C13"]
THEOREMS = [
    "Mesa.Batch.C13_kwargs_product",
    "Mesa.Batch.C13_single_values",
    "Mesa.Batch.C13_run_list",
    "Mesa.Batch.C13_parallel_perm_serial",
    "Mesa.Batch.C13_steps_taken",
    "Mesa.Batch.C13_rows_from_one_collection",
    "Mesa.Batch.C13_last_state_reported",
    "Mesa.Batch.C13_reported_collections",
    "Mesa.Batch.C13_iterations_reiterable",
    "Mesa.Batch.C13_oneshot_parameters",
    "Mesa.Batch.C13_parallel_rows_by_run",
    "Mesa.Batch.C13_degenerate_limits",
    "Mesa.Batch.C13_run_rows_exact",
    "Mesa.Batch.C13_batch_run_exact",
    "Mesa.Batch.C13_late_completion",
]
COUNTS = {"quick": 1500, "thorough": 30000}
TRUSTED = [
    "the completion order `late=j` is realised by runtime behaviour no model expresses: the scripted model of that design point waits in its constructor (in the worker process) until a run of another design point has started, plus 0.4 s; if the machine is so loaded that this does not reorder the results the run is merely an in-order one (never a false alarm); the model side is Batch.lateOrder, a permutation of the run list",
    "multiprocessing (spawn) + pickle hand every run tuple to exactly one worker and every result list back once, in some order; modelled as a permutation of the run list (exercised with number_processes 2 and 3 on every run)",
    "itertools.product enumerates the cartesian product with the first factor slowest; isinstance/iteration decide str / list-tuple-set / other iterable / non-iterable as the harness labels the generated parameter values",
    "the user's model class is a scripted mesa.Model whose constructor and step are op lists of the DataCollector model (int positions may be fed from kwargs); arbitrary user code is not modelled",
    "everything listed for C12 (the rows are read off the DataCollector model)",
]
ASSUMPTIONS = [
    "parameter names, reporter names and the fixed keys RunId/iteration/Step/AgentID are pairwise distinct (a clash silently overwrites a dict key)",
    "the design clause is judged for re-iterable parameter values; with a one-shot iterator (generator, iter(...)) batch_run re-reads `parameters` once per iteration and finds it spent after the first: the runs of iteration 0 are judged, the missing replications are outside the quantifier (modelled: C13_oneshot_parameters)",
    "reporters that raise inside a collect the scripted model swallows are outside the quantifier: the row clauses are not judged for such runs (the rows are still tied to the model)",
    "the alignment clause is judged for models that collect at most once per step value (the quantifier: at construction and/or inside step); others are still tied to the model",
]
RULE = ("random scripted model classes (constructor / step bodies of DataCollector ops with int positions fed from kwargs; collect at construction "
        "and/or inside step, before or after the mutations; early stop via a stop step; 0-3 agents created per run, agents created / removed while "
        "stepping, model.agents reordered in place inside step in 12% of the classes; with and without agent reporters) x random parameter dicts (0-3 parameters: scalars incl. None and floats, strings, lists / tuples "
        "incl. empty and with unhashable / tuple / empty-string values, ranges incl. empty, dicts, one-shot iterators / generators in 6% of the parameters) "
        "x iterations 1-3 x max_steps 0-6 x period {-1, 1, 2, 3, 0, 7, 9, 50}; display_progress on in 15% of the runs; 5% of the model classes have reporters "
        "that raise while an attribute is missing; number_processes 1 in the generated stream, 2 and 3 (spawn) in the built-in stream, there in 70% of the runs with a worker completion order other than the submission order (`late=j`: the runs of one design point finish after a run submitted later); non-trivial = some batch_run returned "
        ">= 2 rows; distinct = distinct op-line sequences (sha1)")

run_impl = CC.run_impl
oracle = CC.guarded(CC.oracle_batch)


def generate(rng, tier, count):
    for _ in range(count):
        yield CC.gen_batch_scenario(rng)


def builtin_corpus():
    """number_processes > 1 needs a Pool, which the (daemonic) scenario workers of core cannot create:
    these scenarios run in the main process, before the generated stream"""
    tier = "thorough" if ("thorough" in sys.argv or os.environ.get("VERIF_TIER") == "thorough") else "quick"
    rng = random.Random(f"C13/mp/{os.environ.get('VERIF_SEED', '0')}")
    out = []
    for i in range(4 if tier == "quick" else 14):
        sc = CC.gen_batch_scenario(rng, nprocs=(1, 2, 3) if i % 2 else (1, 2), small=True)
        sc.meta["builtin"] = f"mp{i}"
        out.append(sc)
    return out


def nontrivial(sc, obs):
    return any(l.split()[0] in ("run", "runp") and o.count(" R") >= 2 for l, o in zip(sc.lines, obs))


def tags(sc, obs):
    for l, o in zip(sc.lines, obs):
        w = l.split()
        if w[0] == "param":
            yield "param:" + w[2] + (":empty" if len(w) == 3 else "")
        elif w[0] in ("run", "runp"):
            yield f"{w[0]}:" + ("ok" if o.startswith("ok") else o)
            yield "period:" + w[3]
            yield "max_steps:" + w[2]
            if w[0] == "runp":
                yield "nproc:" + w[4]
                if len(w) > 5 and w[5].startswith("late="):
                    yield "nproc:late-completion"
            if w[-1] == "prog":
                yield "run:display_progress"
            if o == "ok":
                yield "run:no-rows"
        elif w[0] == "kwargs":
            yield "kwargs:" + ("ok" if o.startswith("ok") else o)
        elif w[0] == "init":
            yield "model:collects-at-construction" if "collect" in w else "model:no-collect-at-construction"
        elif w[0] == "body":
            yield "model:collects-in-step" if "collect" in w else "model:no-collect-in-step"
            if "stop" in w:
                yield "model:may-stop-early"
        elif w[0] == "arep":
            yield "model:agent-reporters"
        if w[0] in ("mrep", "arep") and ("req" in w or "lreq" in w):
            yield "model:reporter-may-raise"


if __name__ == "__main__":
    core.main(sys.modules[__name__])
