"""Differential self-test of the translator (the tie for harness/py2lean.py): every generated Lean definition of a
registered property is evaluated (`lake env lean` on a file of `#eval`s over `Gen/Fn<Group>.lean`) on random + boundary
inputs and compared with the REAL Python function called in-process on real mesa objects.  A difference is a translator
bug or an unsupported semantic corner: reported as a broken tie (`VIOLATION … no-failing-input-found`, replay file
`replays/Cxx-xlate-selftest.json` with the function, the input and both results), never silently.

Per function: `gen(rng) -> {"self": {...}, <param>: value, ...}` (record values are dicts) and
`call(args) -> value` running the real code; values are ints / bools / tuples / lists shaped like the Lean type."""
from __future__ import annotations

import os
import random
import subprocess

from . import core, py2lean
from . import xlate_registry as XR

COUNTS = {"quick": 100, "thorough": 1500}


# ------------------------------------------------------------------ canonical text (same as Py.Show in PyPrim.lean)
def show(v, ty, recs=None):
    if isinstance(ty, tuple) and ty[0] == "R":
        fields = RECS[ty[1]].fields
        vals, tys = [v[f] for f in fields], list(fields.values())
        return show(vals[0], tys[0]) if len(vals) == 1 else show(tuple(vals), ("T", *tys))
    if isinstance(ty, tuple) and ty[0] == "D":
        ty = ("L", ("T", ty[1], ty[2]))
    if isinstance(ty, tuple) and ty[0] == "E":
        return "err " + v[1] if isinstance(v, tuple) and len(v) == 2 and v[0] == "err" else show(v, ty[1])
    if ty == "Int":
        assert isinstance(v, int) and not isinstance(v, bool), v
        return str(v)
    if ty == "Nat":
        assert isinstance(v, int) and not isinstance(v, bool) and v >= 0, v
        return str(v)
    if ty == "Bool":
        assert isinstance(v, bool), v
        return "True" if v else "False"
    if ty == "Unit":
        return "None"
    if ty == "ω":                # the world of a callback parameter: the self-test instantiates it with a log of (id, clock)
        return show(v, ("L", ("T", "Int", "Int")))
    if ty[0] == "L":
        return "[" + " ".join(show(x, ty[1]) for x in v) + "]"
    if ty[0] == "O":
        return "None" if v is None else show(v, ty[1])
    if ty[0] == "T":
        assert len(v) == len(ty) - 1, (v, ty)
        if len(ty) == 3:
            return "<" + show(v[0], ty[1]) + " " + show(v[1], ty[2]) + ">"
        return "<" + show(v[0], ty[1]) + " " + show(tuple(v[1:]), ("T", *ty[2:])) + ">"
    raise ValueError(ty)


def lit(v, ty, recs):
    """Lean literal of a Python value"""
    if ty == "Int":
        return str(int(v)) if v >= 0 else f"({int(v)})"
    if ty == "Bool":
        return "true" if v else "false"
    if ty == "Nat":
        return str(int(v))
    if ty[0] == "D":
        ty = ("L", ("T", ty[1], ty[2]))
    if ty[0] == "L":
        return "[" + ", ".join(lit(x, ty[1], recs) for x in v) + "]"
    if ty[0] == "T":
        return "(" + ", ".join(lit(x, t, recs) for x, t in zip(v, ty[1:])) + ")"
    if ty[0] == "O":
        return "none" if v is None else f"(some {lit(v, ty[1], recs)})"
    if ty[0] == "R" and recs[ty[1]].extern:
        r = recs[ty[1]]
        return r.literal.format(**{f: lit(v[f], t, recs) for f, t in r.fields.items()})
    if ty[0] == "R":
        r = recs[ty[1]]
        return "({ " + ", ".join(f"{f} := {lit(v[f], t, recs)}" for f, t in r.fields.items()) + f" }} : {r.name})"
    raise ValueError(ty)


def map_exc(e):
    for cls, name in ((IndexError, "Index"), (ValueError, "Value"), (KeyError, "Key"), (TypeError, "Type"),
                      (NotImplementedError, "NotImplemented")):
        if isinstance(e, cls):
            return ("err", name)
    return ("err", "Exception")


# ------------------------------------------------------------------ C07: grid.py
def _grid_cases():
    core.import_mesa()
    from mesa.discrete_space import Cell, OrthogonalMooreGrid
    from mesa.discrete_space.grid import Grid

    class Recorder(Cell):
        """a real Cell that also records the `connect` calls made on it"""
        __slots__ = ["calls"]

        def connect(self, other, key=None):
            self.calls.append((tuple(other.coordinate), tuple(key)))
            super().connect(other, key)

    grids = {}

    def grid(dims, torus):
        k = (tuple(dims), torus)
        if k not in grids:
            grids[k] = OrthogonalMooreGrid(tuple(dims), torus=torus, random=random.Random(0))
        return grids[k]

    def gen(nd):
        def g(rng):
            n = 2 if nd == 2 else rng.choice([1, 2, 3, 3])
            dims = [rng.choice([1, 1, 2, 2, 3, 4, 5]) for _ in range(n)]
            coord = [rng.randrange(-2, d + 2) if rng.random() < 0.3 else rng.randrange(d) for d in dims]
            span = rng.choice([1, 1, 2, 7])
            offs = []
            for _ in range(rng.randrange(0, 9)):
                m = n if nd == 2 or rng.random() < 0.9 else n + 1   # a longer offset: zip truncates (a shorter one is a KeyError)
                offs.append([rng.randrange(-span, span + 1) for _ in range(m)])
            if nd == 2:
                return {"self": {"dimensions": tuple(dims), "torus": rng.random() < 0.5}, "cell": {"coordinate": tuple(coord)},
                        "offsets": [tuple(o) for o in offs]}
            return {"self": {"dimensions": dims, "torus": rng.random() < 0.5}, "cell": {"coordinate": coord}, "offsets": offs}
        return g

    def call(nd):
        def c(a):
            g = grid(a["self"]["dimensions"], a["self"]["torus"])
            cell = Recorder(tuple(a["cell"]["coordinate"]), random=random.Random(0))
            cell.calls = []
            f = Grid._connect_single_cell_2d if nd == 2 else Grid._connect_single_cell_nd
            f(g, cell, [tuple(o) for o in a["offsets"]])
            return [(list(x), list(k)) if nd != 2 else (x, k) for x, k in cell.calls]
        return c

    def gen_cells(rng):
        n = rng.choice([1, 2, 2, 3, 3, 4])
        dims = [rng.choice([1, 2, 2, 3]) for _ in range(n)]
        g = grid(dims, False)
        return {"self": {"dimensions": dims, "all_cells": [{"coordinate": list(c.coordinate)} for c in g.all_cells]}}

    def call_cells(klass_name):
        def c(a):
            import mesa.discrete_space as ds
            base = getattr(ds, klass_name)
            calls = []

            class Rec(base):
                def _connect_single_cell_nd(self, cell, offsets):
                    calls.append(({"coordinate": list(cell.coordinate)}, [list(o) for o in offsets]))
                    super()._connect_single_cell_nd(cell, offsets)

            g = Rec(tuple(a["self"]["dimensions"]), torus=False, random=random.Random(0))
            del calls[:]
            base._connect_cells_nd(g)          # the n-D path, also for 2 axes
            return calls
        return c

    def gen_cells2(rng):
        dims = [rng.choice([1, 2, 3, 4, 5]), rng.choice([1, 2, 3, 4])]
        g = grid(dims, False)
        return {"self": {"dimensions": dims, "all_cells": [{"coordinate": tuple(c.coordinate)} for c in g.all_cells]}}

    def call_cells2(klass_name):
        def c(a):
            import mesa.discrete_space as ds
            base = getattr(ds, klass_name)
            calls = []

            class Rec(base):
                def _connect_single_cell_2d(self, cell, offsets):
                    calls.append(({"coordinate": tuple(cell.coordinate)}, [tuple(o) for o in offsets]))
                    super()._connect_single_cell_2d(cell, offsets)

            g = Rec(tuple(a["self"]["dimensions"]), torus=False, random=random.Random(0))
            del calls[:]
            base._connect_cells_2d(g)
            return calls
        return c

    def gen_shape(rng):
        return {"self": {"_ndims": rng.choice([0, 1, 2, 2, 2, 3, 4, 5, -1, rng.randrange(1, 40)])}}

    def call_shape(a):
        calls = []

        class Shape:        # what `Grid._connect_cells` reads and calls, nothing else
            _ndims = a["self"]["_ndims"]
            _connect_cells_2d = lambda self: calls.append(2)      # noqa: E731
            _connect_cells_nd = lambda self: calls.append(0)      # noqa: E731

        Grid._connect_cells(Shape())
        return calls

    two_d = {f"{k}._connect_cells_2d": (gen_cells2, call_cells2(k)) for k in ("OrthogonalMooreGrid", "OrthogonalVonNeumannGrid", "HexGrid")}
    return {**two_d, "Grid._connect_cells": (gen_shape, call_shape), "Grid._connect_single_cell_2d": (gen(2), call(2)), "Grid._connect_single_cell_nd": (gen("n"), call("n")),
            "OrthogonalMooreGrid._connect_cells_nd": (gen_cells, call_cells("OrthogonalMooreGrid")),
            "OrthogonalVonNeumannGrid._connect_cells_nd": (gen_cells, call_cells("OrthogonalVonNeumannGrid"))}


# ------------------------------------------------------------------ C09: space.py
def _legacy_cases():
    core.import_mesa()
    from mesa.space import SingleGrid

    def rec(a):
        return {"width": a["w"], "height": a["h"], "torus": a["torus"], "_neighborhood_cache": a.get("cache", [])}

    def dims(rng):
        return {"w": rng.choice([1, 1, 2, 3, 4, 5, 7]), "h": rng.choice([1, 2, 2, 3, 4, 6]), "torus": rng.random() < 0.5}

    def pos(rng, a, far=0.25):
        if rng.random() < far:
            return (rng.randrange(-9, a["w"] + 9), rng.randrange(-9, a["h"] + 9))
        return (rng.randrange(a["w"]), rng.randrange(a["h"]))

    def grid(a):
        g = SingleGrid(a["self"]["width"], a["self"]["height"], a["self"]["torus"])
        # the cache as the association list the translation uses: newest binding first
        g._neighborhood_cache = {k: tuple(v) for k, v in reversed(a["self"]["_neighborhood_cache"])}
        return g

    def gen_pos(rng):
        a = dims(rng)
        return {"self": rec(a), "pos": pos(rng, a, 0.5)}

    def gen_nb(rng):
        a = dims(rng)
        p = pos(rng, a, 0.1)
        key = (p, rng.random() < 0.5, rng.random() < 0.5, rng.choice([0, 1, 1, 2, 2, 3, 5]))
        cache, seen = [], set()
        for _ in range(rng.choice([0, 0, 1, 3])):
            k = key if rng.random() < 0.3 else (pos(rng, a, 0.0), rng.random() < 0.5, rng.random() < 0.5, rng.choice([1, 2]))
            if k not in seen:
                seen.add(k)
                cache.append((k, [pos(rng, a, 0.0) for _ in range(rng.randrange(0, 4))]))   # any stored value is returned as is
        a["cache"] = cache
        return {"self": rec(a), "pos": key[0], "moore": key[1], "include_center": key[2], "radius": key[3]}

    def call_nb(a):
        g = grid(a)
        try:
            res = [tuple(c) for c in g.get_neighborhood(a["pos"], a["moore"], a["include_center"], a["radius"])]
        except Exception as e:       # noqa: BLE001
            res = map_exc(e)
        return (res, [(k, list(v)) for k, v in reversed(g._neighborhood_cache.items())])

    # ---- the SingleGrid mutators: a real SingleGrid whose tables are set to the generated state, real (duck-typed) agents.
    # Coordinates are inside the grid (outside: Python wraps negative indices / raises IndexError, not in the subset); the
    # tables are NOT kept mutually consistent (mask / empties random): the translation is compared on arbitrary states.
    class Ag:
        def __init__(self, uid, pos):
            self.unique_id, self.pos = uid, pos

    def gen_space(rng):
        a = dims(rng)
        w, h = a["w"], a["h"]
        cells = [[(rng.randrange(1, 9) if rng.random() < 0.4 else None) for _ in range(h)] for _ in range(w)]
        allc = [(x, y) for x in range(w) for y in range(h)]
        rng.shuffle(allc)
        emp = allc[:rng.randrange(0, len(allc) + 1)]
        return {"width": w, "height": h, "torus": a["torus"], "_grid": cells, "_empties_built": rng.random() < 0.6,
                "_empties": emp, "_empty_mask": [[rng.random() < 0.5 for _ in range(h)] for _ in range(w)], "_neighborhood_cache": []}

    def gen_mut(rng):
        sp = gen_space(rng)
        a = {"w": sp["width"], "h": sp["height"]}
        uid = rng.randrange(1, 9)
        return {"self": sp, "pos": pos(rng, a, 0.0),
                "agent": {"unique_id": uid, "pos": None if rng.random() < 0.3 else pos(rng, a, 0.0)}}

    def gen_move(rng):
        """targets also outside the grid (torus_adj wraps / rejects them); the agent stands where its `pos` says, or nowhere"""
        a = gen_mut(rng)
        d = {"w": a["self"]["width"], "h": a["self"]["height"]}
        a["pos"] = pos(rng, d, 0.3)
        if a["agent"]["pos"] is not None and rng.random() < 0.8:
            x, y = a["agent"]["pos"]
            a["self"]["_grid"][x][y] = a["agent"]["unique_id"]
        return a

    def space(a):
        import numpy as np
        sp = a["self"]
        g = SingleGrid(sp["width"], sp["height"], sp["torus"])
        objs = {}
        if "agent" in a:
            objs[a["agent"]["unique_id"]] = Ag(a["agent"]["unique_id"], a["agent"]["pos"])
        for x, col in enumerate(sp["_grid"]):
            for y, c in enumerate(col):
                g._grid[x][y] = None if c is None else objs.setdefault(c, Ag(c, (x, y)))
        g._empties_built = sp["_empties_built"]
        g._empties = set(sp["_empties"])
        g._empty_mask = np.array(sp["_empty_mask"], dtype=bool).reshape(sp["width"], sp["height"])
        return g, objs

    def after(a, g, ag):
        """the tables the real call left behind, in the translation's representation (a set: old members in their old order,
        then the new ones)"""
        old = a["self"]["_empties"]
        emp = [e for e in old if e in g._empties] + sorted(e for e in g._empties if e not in old)
        return ([[None if c is None else c.unique_id for c in col] for col in g._grid], emp,
                [[bool(v) for v in row] for row in g._empty_mask], ag.pos)

    def call_mut(name):
        def call(a):
            import warnings
            g, objs = space(a)
            ag = objs[a["agent"]["unique_id"]]
            with warnings.catch_warnings():
                warnings.simplefilter("ignore")
                try:
                    if name == "_Grid.move_agent":
                        from mesa.space import _Grid
                        res = _Grid.move_agent(g, ag, a["pos"])
                    else:
                        res = getattr(g, name)(ag, a["pos"]) if name != "remove_agent" else g.remove_agent(ag)
                except Exception as e:       # noqa: BLE001
                    res = map_exc(e)
            return (res, *after(a, g, ag)) if name != "remove_agent" else after(a, g, ag)
        return call

    return {"_Grid.out_of_bounds": (gen_pos, lambda a: grid(a).out_of_bounds(a["pos"])),
            "_Grid.torus_adj": (gen_pos, lambda a: tuple(grid(a).torus_adj(a["pos"]))),
            "_Grid.get_neighborhood": (gen_nb, call_nb),
            "_Grid.default_val": (lambda rng: {}, lambda a: SingleGrid.default_val()),
            "_Grid.is_cell_empty": (lambda rng: {k: v for k, v in gen_mut(rng).items() if k != "agent"},
                                    lambda a: bool(space(a)[0].is_cell_empty(a["pos"]))),
            "SingleGrid.place_agent": (gen_mut, call_mut("place_agent")),
            "_Grid.move_agent": (gen_move, call_mut("_Grid.move_agent")),
            "SingleGrid.move_agent": (gen_move, call_mut("move_agent")),
            "SingleGrid.remove_agent": (lambda rng: {k: v for k, v in gen_mut(rng).items() if k != "pos"}, call_mut("remove_agent"))}


# ------------------------------------------------------------------ C14: eventlist.py
def _noop():
    pass


def _devs_cases():
    core.import_mesa()
    import heapq
    from mesa.experimental.devs.eventlist import EventList, SimulationEvent

    def ev(rng, uid):
        return {"time": rng.choice([0, 1, 1, 2, 3, 5, 8]) * 512, "priority": rng.choice([1, 5, 5, 10]), "unique_id": uid,
                "_canceled": rng.random() < 0.35}

    def real(d):
        e = SimulationEvent(0, _noop)
        e.time, e.priority, e.unique_id, e._canceled = d["time"], d["priority"], d["unique_id"], d["_canceled"]
        return e

    def back(e):
        return {"time": e.time, "priority": e.priority, "unique_id": e.unique_id, "_canceled": e._canceled}

    def events(rng):
        n = rng.choice([0, 0, 1, 2, 3, 5, 8, 13])
        ids = rng.sample(range(40), n + 1)
        evs = [ev(rng, i) for i in ids[:n]]
        if rng.random() < 0.8:      # a heap, as EventList keeps it
            h = []
            for d in evs:
                heapq.heappush(h, real(d))
            evs = [back(e) for e in h]
        return evs, ev(rng, ids[n])

    def elist(a):
        el = EventList()
        el._events = [real(d) for d in a["self"]["_events"]]
        return el

    def gen_el(rng):
        evs, new = events(rng)
        return {"self": {"_events": evs}, "event": new, "fuel": len(evs) + 1}

    def gen_pair(rng):
        a, b = ev(rng, rng.randrange(3)), ev(rng, rng.randrange(3))
        if rng.random() < 0.3:
            b = dict(a, unique_id=b["unique_id"])
        return {"self": a, "other": b}

    def call_add(a):
        el = elist(a)
        el.add_event(real(a["event"]))
        return [back(e) for e in el._events]

    def call_pop(a):
        el = elist(a)
        try:
            r = back(el.pop_event())
        except Exception as e:       # noqa: BLE001
            r = map_exc(e)
        return (r, [back(e) for e in el._events])

    def gen_peek(rng):
        a = gen_el(rng)
        a["n"] = rng.choice([-1, 0, 1, 1, 2, 3, 5, 20])
        return a

    def call_peek(a):
        return [back(e) for e in elist(a).peak_ahead(a["n"])]

    def call_run_for(a):
        from mesa.experimental.devs.simulator import DEVSimulator
        calls = []

        class S(DEVSimulator):
            def run_until(self, end_time):
                calls.append(end_time)

        sim = S()
        sim.time = a["self"]["time"]
        sim.run_for(a["time_delta"])
        return calls

    def gen_run_for(rng):
        return {"self": {"time": rng.choice([0, 0, 512, 1024, rng.randrange(10**5)])}, "time_delta": rng.choice([0, 1, 512, 1024, -3, rng.randrange(10**4)])}

    def gen_run_next(rng):
        evs, _ = events(rng)
        return {"self": {"time": rng.choice([0, 0, 512, 1024, 4096]), "model": rng.choice([None, 1, 1, 1, 7]), "event_list": {"_events": evs}},
                "fuel": len(evs) + 1}

    def call_run_next(a):
        """the real `Simulator.run_next_event` on a real DEVSimulator whose events record their `execute()`"""
        from mesa.experimental.devs.simulator import DEVSimulator
        sim, log = DEVSimulator(), []
        sim.time = a["self"]["time"]
        sim.model = None if a["self"]["model"] is None else object()
        sim.event_list._events = [real(d) for d in a["self"]["event_list"]["_events"]]
        for e in sim.event_list._events:
            e.execute = (lambda e=e: log.append(back(e)))
        try:
            r = sim.run_next_event()
        except Exception as e:       # noqa: BLE001
            r = map_exc(e)
        return (r, list(log), sim.time, [back(e) for e in sim.event_list._events])

    # run_until: the callback parameter is instantiated, on both sides, with one fixed re-entrant callable: it logs (id, clock),
    # raises ValueError for ids ≡ 3 (mod 7), and an even id < 100 schedules a further event (id + 100) through add_event
    LEAN_CB = ("(List (Int × Int))", "(fun st e => let w := st.2.2 ++ [((e.id : Int), st.1)]; "
               "if e.id % 7 == 3 then (.error Py.Err.Value, (st.1, st.2.1, w)) "
               "else if e.id % 2 == 0 && e.id < 100 then (.ok (), (st.1, add_event ⟨st.2.1⟩ { e with id := e.id + 100, "
               "time := e.time + 512 * ((e.id % 3 : Nat) : Int), prio := 5 }, w)) else (.ok (), (st.1, st.2.1, w)))", "[]")

    def gen_run_until(rng):
        a = gen_run_next(rng)
        a["end_time"] = rng.choice([-1, 0, 512, 1024, 2048, 2048, 5000])
        a["fuel"] = 2 * len(a["self"]["event_list"]["_events"]) + 3
        a["#lean_extra"] = list(LEAN_CB)
        return a

    def call_run_until(a):
        from mesa.experimental.devs.simulator import DEVSimulator
        sim, log = DEVSimulator(), []
        sim.time = a["self"]["time"]
        sim.model = None if a["self"]["model"] is None else object()

        def arm(e):
            def cb():
                d = back(e)
                log.append((d["unique_id"], sim.time))
                if d["unique_id"] % 7 == 3:
                    raise ValueError("callable raises")
                if d["unique_id"] % 2 == 0 and d["unique_id"] < 100:
                    sim.event_list.add_event(arm(real({"time": d["time"] + 512 * (d["unique_id"] % 3), "priority": 5,
                                                       "unique_id": d["unique_id"] + 100, "_canceled": False})))
            e.execute = cb
            return e

        sim.event_list._events = [arm(real(d)) for d in a["self"]["event_list"]["_events"]]
        try:
            r = sim.run_until(a["end_time"])
        except Exception as e:       # noqa: BLE001
            r = map_exc(e)
        return (r, sim.time, [back(e) for e in sim.event_list._events], list(log))

    return {"Simulator.run_until": (gen_run_until, call_run_until), "Simulator.run_next_event": (gen_run_next, call_run_next), "Simulator.run_for": (gen_run_for, call_run_for), "EventList.peak_ahead": (gen_peek, call_peek), "SimulationEvent.CANCELED": (lambda rng: {"self": ev(rng, 0)}, lambda a: real(a["self"]).CANCELED),
            "SimulationEvent.__lt__": (gen_pair, lambda a: real(a["self"]) < real(a["other"])),
            "EventList.add_event": (gen_el, call_add), "EventList.pop_event": (gen_el, call_pop),
            "EventList.__len__": (gen_el, lambda a: len(elist(a))), "EventList.is_empty": (gen_el, lambda a: elist(a).is_empty())}


# ------------------------------------------------------------------ C05: model.py
def _steps_cases():
    core.import_mesa()
    import mesa

    seen = []

    class M(mesa.Model):
        def step(self, *args, **kwargs):
            seen.append((self.steps, list(args), [(int(k[1:]), v) for k, v in kwargs.items()]))

    def call(a):
        m = M()
        m.steps = a["self"]["steps"]
        del seen[:]
        mesa.Model._wrapped_step(m, *a["args"], **{f"k{k}": v for k, v in a["kwargs"]})
        return (list(seen), m.steps)

    def gen(rng):
        return {"self": {"steps": rng.choice([0, 0, 1, 2, 7, 1000, rng.randrange(10**6)])},
                "args": [rng.randrange(5) for _ in range(rng.randrange(3))], "kwargs": [(k, rng.randrange(5)) for k in rng.sample(range(4), rng.choice([0, 0, 1, 2]))]}

    return {"Model._wrapped_step": (gen, call)}


# ------------------------------------------------------------------ C06: cell.py (occupancy mutators on one real Cell)
def _cellocc_cases():
    core.import_mesa()
    import mesa
    from mesa.discrete_space import Cell, CellAgent

    model = mesa.Model()
    pool = [CellAgent(model) for _ in range(8)]          # agent i of the record = pool[i]

    def gen(rng):
        n = rng.choice([0, 0, 1, 1, 2, 3, 5])
        ags = [rng.randrange(6) for _ in range(n)] if rng.random() < 0.25 else rng.sample(range(6), n)   # sometimes a duplicate
        cap = rng.choice([None, None, 0, 1, 2, 3, n, n, n + 1, max(n - 1, 0)])
        agent = rng.choice(ags) if ags and rng.random() < 0.6 else rng.randrange(8)
        coord = [rng.randrange(4) for _ in range(rng.choice([1, 2, 2, 3]))]
        return {"self": {"coordinate": coord, "_agents": ags, "capacity": cap, "empty": rng.random() < 0.5}, "agent": agent}

    def cell(a, rec=None):
        rec = rec or a["self"]
        c = Cell(tuple(rec["coordinate"]), capacity=rec["capacity"], random=random.Random(0))
        c._agents = [pool[i] for i in rec["_agents"]]
        c.empty = rec["empty"]
        return c

    def back(c):
        return {"coordinate": list(c.coordinate), "_agents": [pool.index(x) for x in c._agents], "capacity": c.capacity, "empty": c.empty}

    from mesa.discrete_space import FixedAgent
    fixed = [FixedAgent(model) for _ in range(8)]
    pool_ids = {id(x): i for i, x in enumerate(pool)}

    def gen_fixed(rng):
        a = gen(rng)
        uid = rng.randrange(8)
        a["self"]["_agents"] = [i for i in a["self"]["_agents"]]
        held = None if rng.random() < 0.7 else [rng.randrange(4) for _ in range(rng.choice([1, 2]))]
        return {"self": {"unique_id": uid, "_mesa_cell": held}, "cell": a["self"]}

    def fixed_agent(a):
        # pool[i] stands for agent i in the cell's list; the fixed agent under test takes the place of pool[unique_id]
        ag = fixed[a["self"]["unique_id"]]
        ag._mesa_cell = None if a["self"]["_mesa_cell"] is None else Cell(tuple(a["self"]["_mesa_cell"]), random=random.Random(0))
        return ag

    def call_fixed_get(a):
        c = fixed_agent(a).cell
        return None if c is None else list(c.coordinate)

    def call_fixed_set(a):
        from mesa.discrete_space.cell_agent import FixedCell
        ag, uid = fixed_agent(a), a["self"]["unique_id"]
        c = cell(a, a["cell"])
        c._agents = [ag if x is pool[uid] else x for x in c._agents]
        try:
            r = FixedCell.cell.fset(ag, c)
            assert r is None
        except Exception as e:       # noqa: BLE001
            r = map_exc(e)
        c._agents = [pool[uid] if x is ag else x for x in c._agents]
        held = ag._mesa_cell
        ag._mesa_cell = None
        return (r, back(c), None if held is None else list(held.coordinate))

    def mutate(name):
        def call(a):
            c = cell(a)
            try:
                r = getattr(Cell, name)(c, pool[a["agent"]])
                assert r is None
            except Exception as e:       # noqa: BLE001
                r = map_exc(e)
            return (r, [pool.index(x) for x in c._agents], c.empty)
        return call

    def gen_move(rng):
        return {"self": {"unique_id": rng.randrange(8)}, "cell": [rng.randrange(-1, 5) for _ in range(rng.choice([1, 2, 2, 3]))]}

    def call_move(a):
        from mesa.discrete_space.cell_agent import BasicMovement
        calls = []

        class Mover(BasicMovement):          # what `move_to` touches: the `cell` property, whose setter records its argument
            cell = property(lambda self: None, lambda self, c: calls.append(list(c.coordinate)))

        BasicMovement.move_to(Mover(), Cell(tuple(a["cell"]), random=random.Random(0)))
        return calls

    return {"FixedCell.cell": (gen_fixed, call_fixed_get), "FixedCell.cell.setter": (gen_fixed, call_fixed_set),
            "BasicMovement.move_to": (gen_move, call_move), "Cell.agents": (gen, lambda a: [pool.index(x) for x in cell(a).agents]),
            "Cell.is_empty": (gen, lambda a: cell(a).is_empty), "Cell.is_full": (gen, lambda a: cell(a).is_full),
            "Cell.add_agent": (gen, mutate("add_agent")), "Cell.remove_agent": (gen, mutate("remove_agent"))}


RECS = {r.name: r for g in XR.GROUPS.values() for r in g["recs"]}
SUITES = {"CellOcc": _cellocc_cases, "Cells": _grid_cases, "Legacy": _legacy_cases, "Devs": _devs_cases, "Steps": _steps_cases}


# ------------------------------------------------------------------ runner
def run(ctx, prop):
    n = COUNTS[ctx.tier]
    total, report = 0, {}
    for gname in XR.REGISTRY[prop]["groups"]:
        g = XR.GROUPS[gname]
        recs = {r.name: r for r in g["recs"]}
        py2lean.EXTERN.clear()
        py2lean.EXTERN.update({r.name: r.extern for r in g["recs"] if r.extern})
        suite = SUITES[gname]()
        done, jobs = {}, []
        for fn in g["fns"]:
            node, _ = py2lean.source_info(core.REPO, fn)
            _, _, rty = py2lean.Translator(fn, recs, done).translate(node)
            done[fn.qualname.split(".")[-1]] = (fn, rty)
            if fn.qualname not in XR.REGISTRY[prop]["functions"]:
                continue
            if fn.qualname not in suite:
                ctx.notes.append(f"xlate selftest: no cases for {fn.qualname}")
                continue
            gen, call = suite[fn.qualname]
            rng = random.Random(f"xlate/{fn.qualname}/{ctx.seed}")
            for _ in range(n):
                a = gen(rng)
                try:
                    want = call(a)
                except Exception as e:       # noqa: BLE001 — mapped to the small error enum, like the translation
                    want = map_exc(e)
                args = ([lit(a["self"], ("R", fn.self_rec), recs)] if fn.self_rec else []) + \
                       [lit(a[p], t, recs) for p, t in _ordered_params(node, fn)] + a.get("#lean_extra", []) + ([str(a["fuel"])] if fn.fuel else [])
                jobs.append((fn, a, show(want, rty), f"#eval IO.println (Py.Show.show_ ({fn.name} {' '.join(args)}))"))
        if not jobs:
            continue
        mod = g["path"][:-5].replace("/", ".")
        got = _eval_lean(f"import {mod}\nopen {g['namespace']}\n", [j[3] for j in jobs])
        for (fn, a, want, cmd), have in zip(jobs, got):
            total += 1
            report[fn.qualname] = report.get(fn.qualname, 0) + 1
            if want != have:
                ctx.violation("xlate-selftest", {
                    "kind": "no-failing-input", "theorem_or_stream": f"translator self-test: generated Lean definition "
                    f"`{fn.name}` vs the real `{fn.qualname}` ({fn.file})", "function": fn.qualname, "input": a,
                    "python_result": want, "lean_result": have, "lean_command": cmd}, no_input=True)
                ctx.cov["xlate_selftest"] = {"cases": total, "per_function": report, "first_difference": fn.qualname}
                return
    ctx.cov["xlate_selftest"] = {"cases": total, "per_function": report, "differences": 0}


def _eval_lean(header, cmds, chunk=800, workers=3):
    """output lines of the `#eval` commands (one line each), evaluated in chunks by up to `workers` lean processes"""
    from concurrent.futures import ThreadPoolExecutor

    def one(i):
        part = cmds[i:i + chunk]
        tmp = os.path.join(core.LEAN, ".lake", f"xlate_selftest_{os.getpid()}_{i}.lean")
        with open(tmp, "w") as f:
            f.write(header + "\n".join(part) + "\n")
        try:
            p = subprocess.run(["lake", "env", "lean", tmp], cwd=core.LEAN, capture_output=True, text=True, timeout=1500)
        finally:
            os.unlink(tmp)
        out = p.stdout.splitlines()
        if p.returncode != 0 or len(out) != len(part):
            raise core.Infra(f"xlate selftest: lean exited {p.returncode} with {len(out)} lines for {len(part)} cases: "
                             + (p.stdout + p.stderr)[-800:])
        return out

    with ThreadPoolExecutor(max_workers=workers) as ex:
        parts = list(ex.map(one, range(0, len(cmds), chunk)))
    return [l for part in parts for l in part]


def _ordered_params(node, fn):
    return [(a.arg, fn.params[a.arg]) for a in node.args.args if a.arg != "self"] + \
        [(x.arg, fn.varargs[x.arg]) for x in (node.args.vararg, node.args.kwarg) if x is not None and x.arg in fn.varargs]
