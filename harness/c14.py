"""C14 — the simulators run each live event once, in (time, priority, FIFO) order."""
from . import core, devs_common as D

PROP = "C14"
DRIVER = "drv_devs"
LEAN_MODULES = ["MesaModel.Props.C14", "MesaModel.Props.C14Life"]
THEOREMS = ["Mesa.Devs." + t for t in (
    "C14_queue_sorted", "C14_next_is_least_live", "C14_exactly_once_accounting", "C14_never_twice",
    "C14_only_cancelled_or_dead_discarded", "C14_cancelled_never_popped", "C14_cancelled_never_executes", "C14_cancel_marks", "C14_clock_is_event_time",
    "C14_clock_monotone", "C14_run_until_post", "C14_schedule_rejects_exactly", "C14_peek_is_execution_order",
    "C14_priority_order_generated", "C14_upfront_events_run_in_sorted_order", "C14_heapq_is_priority_queue",
    "C14_heap_refines_sorted_queue", "C14_spared_event_is_served", "C14_spared_event_is_served_rel",
    "C14_spared_due_event_executed", "C14_spared_due_event_executed_rel", "C14_execution_order", "C14_execution_order_history", "C14_history_traces_are_histories", "C14_collected_never_executes",
    "C14_shared_callable_event_is_served", "C14_shared_due_event_executed", "C14_collected_callable_never_runs",
    "C14_drop_kills_every_sharer", "C14_weakref_dead_iff_callable_dropped", "C14_run_until_aborted", "C14_run_next_aborted", "C14_raising_event_never_rerun", "C14_resume_after_exception",
    "C14_life_core_reachable", "C14_life_idle_is_pristine", "C14_life_refused_unchanged", "C14_life_run_refused_iff",
    "C14_life_setup_refused_iff", "C14_life_setup_starts_pristine")]
COUNTS = {"quick": 650, "thorough": 216000}
TRUSTED = [
    "heapq: no longer assumed — Model/Heap.lean transcribes Lib/heapq.py (heappush/heappop/_siftdown/_siftup), Proofs/Heap.lean proves it a priority queue for any strict weak order, Proofs/DevsHeap.lean proves the model's sorted list a sound abstraction of the heap array, and every check compares the transcription's array layout with CPython's heapq (the C accelerator _heapq is what actually runs); trusted: that EventList reaches its list only through heappush / heappop / iteration (read off the source)",
    "CPython weakref: a callable dies exactly when the program drops its last strong reference (refcounting); a callable that drops itself while it runs is kept alive by the running call only (it is dead when the call returns)",
    "times are ints in units of 1/1024: ints and dyadic floats, for which the code's +, <, <= are exact; IEEE rounding of other floats is not modelled",
    "event actions are command lists (schedule / again / cancel / drop / raise); arbitrary Python side effects of callbacks are not modelled",
    "exceptions: IndexError / ValueError / KeyError raised by a callable or the step body (other BaseExceptions propagate the same way: there is one except clause, around pop_event); the program catches what comes out of a run call and goes on",
]
ASSUMPTIONS = ["event programs terminate (generator emits well-founded programs only; theorems are stated for sufficient fuel)",
               "run_until(t) is called with t not before the clock (the property's quantifier)"]
RULE = ("random scenarios over both simulator classes: <=5 event programs (nested scheduling to strictly smaller program index, "
        "cancels, reference drops, re-scheduling of shared callable objects), 3-15 top-level ops from {abs, rel (incl. negative), again, "
        "cancel, drop, until, for, next, peek}; a shared-callable stream (few callables scheduled many times, same-tick sharers, drops "
        "from the callable itself / other events / top level, cancels of single sharers; functions and bound methods); a raise stream "
        "(programs and step bodies that raise Index/Value/Key with events still due, the same horizon again after the exception) with "
        "a lifecycle stream (Model/DevsLife.lean: scheduling without a model, run calls before setup, setup on a used simulator, setup "
        "twice, reset anywhere); times from a small set so that ties in time and priority are frequent; non-trivial = at least one run op executed "
        ">= 2 events; distinct = distinct op-line sequences (sha1)")


def generate(rng, tier, count):
    # the lifecycle stream comes last and draws from a generator of its own (a copy of `rng`'s state), so the scenarios of the
    # other streams are the ones they were before it was added
    n_life = count // 13
    yield from _generate(rng, count - n_life)
    import random as _random
    R2 = _random.Random()
    R2.setstate(rng.getstate())
    for _ in range(n_life):
        yield D.gen_lifecycle(R2)


def _generate(rng, count):
    for i in range(count):
        k = rng.random()
        if k < 0.15:
            yield D.gen_decimal(rng)
        elif k < 0.27:
            yield D.gen_peek_heavy(rng)
        elif k < 0.39:
            yield D.gen_wide(rng)
        elif k < 0.49:
            yield D.gen_shared(rng)
        elif k < 0.57:
            yield D.gen_raise(rng)
        else:
            yield D.gen_scenario(rng)


run_impl = D.run_impl
gen_tables = D.gen_tables


def oracle(sc, obs):
    return D.oracle(sc, obs, abm_clauses=False)


def nontrivial(sc, obs):
    return any(o.startswith("ok now=") and o.count("@") >= 2 for o in obs)


def tags(sc, obs):
    yield "kind:" + sc.lines[0].split()[1]
    for l, o in zip(sc.lines, obs):
        w = l.split()[0]
        yield "op:" + w
        if o.startswith("err Raised"):
            yield "branch:run-cut-short-" + o.split()[2]
        elif o.startswith("err"):
            yield "reject:" + o.split()[1]
            if w == "again":
                yield "branch:again-rejected-" + o.split()[1]
    tr = sc.meta.get("trace") or []
    if any(e[0] == "sched" and e[4] > 0 and e[5] in ("abs", "rel") for e in tr):
        yield "branch:scheduled-after-clock-moved"
    if any(e[0] == "cancel" for e in tr):
        yield "branch:cancel"
    if any(e[0] == "drop" for e in tr):
        yield "branch:callable-collected"
    yield from sorted(D.shared_tags(tr))
    yield from sorted(D.raise_tags(sc, tr))
    yield from sorted(D.life_tags(sc, obs))


if __name__ == "__main__":
    import sys
    core.main(sys.modules[__name__])


def extra(ctx):
    """the Lean transcription of heapq (Model/Heap.lean, proved to be a priority queue in Proofs/Heap.lean) against CPython's
    heapq itself: same array layout after every push / pop, for random key sequences with many ties"""
    import heapq
    import random

    R = random.Random(f"C14-heapq/{ctx.seed}")
    n_seq = 60 if ctx.tier == "quick" else 3000
    lines, want = [], []
    for _ in range(n_seq):
        lines.append("scenario devs")
        want.append("ok")
        h, pushed = [], 0
        for _ in range(R.randrange(1, 40)):
            if h and R.random() < 0.35:
                m = heapq.heappop(h)
                lines.append("hpop")
                want.append("ok %d,%d,%d | " % m + " ".join("%d,%d,%d" % e for e in h))
            elif not h and R.random() < 0.1:
                lines.append("hpop")
                want.append("err Index")
            else:
                e = (R.choice([0, 1, 1, 2, 3, 5, 8]) * 512, R.choice([1, 5, 10]), pushed)
                pushed += 1
                heapq.heappush(h, e)
                lines.append("hpush %d %d" % e[:2])
                want.append("ok " + " ".join("%d,%d,%d" % x for x in h))
    got = core.run_driver(DRIVER, lines)
    bad = next((i for i, (a, b) in enumerate(zip(got, want)) if a != b), None)
    ctx.cov["heapq_layout_comparisons"] = len(lines)
    if bad is not None:
        j = max(k for k in range(bad + 1) if lines[k].startswith("scenario"))
        ctx.violation("heapq-transcription", {"kind": "no-failing-input", "theorem_or_stream":
                      "Lean transcription of heapq vs CPython heapq (array layout)", "ops": lines[j:bad + 1],
                      "cpython": want[bad], "lean": got[bad]}, no_input=True)
