"""C14 — the simulators run each live event once, in (time, priority, FIFO) order."""
from . import core, devs_common as D

PROP = "C14"
DRIVER = "drv_devs"
LEAN_MODULES = ["MesaModel.Props.C14"]
THEOREMS = ["Mesa.Devs." + t for t in (
    "C14_queue_sorted", "C14_next_is_least_live", "C14_exactly_once_accounting", "C14_never_twice",
    "C14_only_cancelled_or_dead_discarded", "C14_cancelled_never_popped", "C14_cancelled_never_executes", "C14_cancel_marks", "C14_clock_is_event_time",
    "C14_clock_monotone", "C14_run_until_post", "C14_schedule_rejects_exactly", "C14_peek_is_execution_order",
    "C14_priority_order_generated", "C14_upfront_events_run_in_sorted_order")]
COUNTS = {"quick": 600, "thorough": 200000}
TRUSTED = [
    "CPython heapq: heappop returns the least element w.r.t. SimulationEvent.__lt__ (the model keeps a sorted list)",
    "CPython weakref: a callable dies exactly when the program drops its last strong reference (refcounting)",
    "times are ints in units of 1/1024: ints and dyadic floats, for which the code's +, <, <= are exact; IEEE rounding of other floats is not modelled",
    "event actions are command lists (schedule / cancel / drop); arbitrary Python side effects of callbacks are not modelled",
]
ASSUMPTIONS = ["event programs terminate (generator emits well-founded programs only; theorems are stated for sufficient fuel)",
               "run_until(t) is called with t not before the clock (the property's quantifier)"]
RULE = ("random scenarios over both simulator classes: <=5 event programs (nested scheduling to strictly smaller program index, "
        "cancels, reference drops), 3-15 top-level ops from {abs, rel (incl. negative), cancel, drop, until, for, next, peek} with "
        "times from a small set so that ties in time and priority are frequent; non-trivial = at least one run op executed "
        ">= 2 events; distinct = distinct op-line sequences (sha1)")


def generate(rng, tier, count):
    for i in range(count):
        k = rng.random()
        if k < 0.15:
            yield D.gen_decimal(rng)
        elif k < 0.27:
            yield D.gen_peek_heavy(rng)
        else:
            yield D.gen_scenario(rng)


run_impl = D.run_impl
gen_tables = D.gen_tables


def oracle(sc, obs):
    return D.oracle(sc, obs, abm_clauses=False)


def nontrivial(sc, obs):
    return any(o.startswith("ok now=") and o.count("@") >= 2 for o in obs)


def tags(sc, obs):
    yield "kind:" + sc.lines[0].split()[1]
    for l, o in zip(sc.lines, obs):
        w = l.split()[0]
        yield "op:" + w
        if o.startswith("err"):
            yield "reject:" + o.split()[1]
    tr = sc.meta.get("trace") or []
    if any(e[0] == "sched" and e[4] > 0 and e[5] in ("abs", "rel") for e in tr):
        yield "branch:scheduled-after-clock-moved"
    if any(e[0] == "cancel" for e in tr):
        yield "branch:cancel"
    if any(e[0] == "drop" for e in tr):
        yield "branch:callable-collected"


if __name__ == "__main__":
    import sys
    core.main(sys.modules[__name__])
