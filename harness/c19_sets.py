"""C19, AgentSet half — deepcopy / pickle of an AgentSet on its own, identity level (lean/MesaModel/Model/CopySet.lean, drv_copyset).

The harness names every object by the identity the Lean model gives it (generator then model for `model`; one identity per
agent / set; `old + next` for every object reconstructed by a copy) and holds agents and copied models only through weak
references, exactly like the program of the model: a model built by the program is held by the program, everything else lives
or dies with what mesa itself references.  `gc.collect()` runs before every line, so that liveness is the reachability the model
computes (defect S24 only shows after a collection).

Oracle clauses (evaluated on the implementation's observations, no model involved):
  set-faithful    right after `copy s`: the copy lists the same unique_ids and attribute values in the same order, its generator
                  is in the same state, and no object is shared (the `fresh` flag of the copy line)
  set-persistent  a set never loses a member spontaneously: between two reads of a set with no operation of its own family in
                  between, the members stay (this is S24: a copy whose members vanish at the next collection)
  set-detached    an operation addressed to one family (the objects connected to one model / one copy) never changes what a set
                  of another family shows
"""
from __future__ import annotations

import copy
import gc
import pickle
import weakref

from . import core
from .scripted_random import ScriptedRandom, scripted_model

DRIVER = "drv_copyset"
HEADER = "scenario sets"


class SetImpl:
    def __init__(self):
        core.import_mesa()
        from mesa import Agent, Model
        from mesa.agent import AgentSet

        self.Agent, self.Model, self.AgentSet = Agent, Model, AgentSet
        # collections below only have to look at the objects of this scenario (a full collection per line over numpy,
        # mesa and the harness itself costs ~50 ms)
        gc.collect()
        gc.freeze()
        self.next = 0
        self.agents = {}   # identity -> weakref to the agent
        self.models = {}   # identity -> weakref to the model
        self.held = {}     # the models the program built: strong
        self.sets = {}     # identity -> AgentSet (the program holds every set)

    # -- helpers ------------------------------------------------------------------------
    def agent(self, name):
        r = self.agents.get(name)
        return r() if r is not None else None

    def model(self, name):
        r = self.models.get(name)
        return r() if r is not None else None

    def names(self):
        """id(object) -> identity, for the objects that are alive"""
        d = {}
        for n, r in self.agents.items():
            o = r()
            if o is not None:
                d[id(o)] = n
        for n, r in self.models.items():
            o = r()
            if o is not None:
                d[id(o)] = n
        return d

    # -- one protocol line --------------------------------------------------------------
    def line(self, ws):
        gc.collect()
        k = ws[0]
        if k == "model":
            g, m = self.next, self.next + 1
            self.next += 2
            model = scripted_model(self.Model, [int(x) for x in ws[1:]])
            self.held[m] = model
            self.models[m] = weakref.ref(model)
            return f"ok {m}"
        if k == "create":
            model = self.model(int(ws[1]))
            if model is None:
                return "err Dead"
            a = self.Agent(model)
            a.w = int(ws[2])
            name = self.next
            self.next += 1
            self.agents[name] = weakref.ref(a)
            return f"ok {name} {a.unique_id}"
        if k in ("remove", "setw"):
            a = self.agent(int(ws[1]))
            if a is None:
                return "err Dead"
            if k == "remove":
                a.remove()
            else:
                a.w = int(ws[2])
            return "ok"
        if k == "mkset":
            model = self.model(int(ws[1]))
            ags = [self.agent(int(x)) for x in ws[2:]]
            if model is None or any(a is None for a in ags):
                return "err Dead"
            name = self.next
            self.next += 1
            self.sets[name] = self.AgentSet(ags, random=model.random)
            return f"ok {name}"
        if k in ("add", "discard"):
            s = self.sets.get(int(ws[1]))
            if s is None:
                return "err NoSet"
            a = self.agent(int(ws[2]))
            if a is None:
                return "err Dead"
            (s.add if k == "add" else s.discard)(a)
            return "ok"
        if k in ("sortw", "shuffle"):
            s = self.sets.get(int(ws[1]))
            if s is None:
                return "err NoSet"
            if k == "sortw":
                s.sort("w", ascending=True, inplace=True)
            else:
                s.shuffle(inplace=True)
            return "ok"
        if k == "copy":
            s = self.sets.get(int(ws[1]))
            if s is None:
                return "err NoSet"
            return self.copy(int(ws[1]), s, ws[2])
        if k == "members":
            s = self.sets.get(int(ws[1]))
            if s is None:
                return "err NoSet"
            nm = self.names()
            items = [f"{nm.get(id(a), '?')}:{a.unique_id}:{a.w}:{nm.get(id(a.model), '?')}" for a in s]
            rem = s.random.remaining() if isinstance(s.random, ScriptedRandom) else ["?"]
            # len() and indexing go through the weak dictionary's own bookkeeping, iteration through the references
            try:
                last = nm.get(id(s[len(s) - 1]), "?") if len(s) else "-"
            except IndexError:
                last = "IndexError"
            return "ok " + " ".join(items) + " | " + " ".join(str(x) for x in rem) + f" | len={len(s)} last={last}"
        if k == "reg":
            model = self.model(int(ws[1]))
            if model is None:
                return "dead"
            nm = self.names()
            return "ok " + " ".join(str(nm.get(id(a), "?")) for a in model.agents)
        return "bad-op"

    def copy(self, sname, s, how):
        B = self.next
        nm = self.names()
        s2 = copy.deepcopy(s) if how == "deepcopy" else pickle.loads(pickle.dumps(s))
        problems = []
        olds, news = list(s), list(s2)
        if len(olds) != len(news):
            problems.append("length")
        seen_models = {}
        for a, a2 in zip(olds, news):
            if a is a2:
                problems.append("agent-shared")
            n = nm.get(id(a))
            if n is not None:
                self.agents[n + B] = weakref.ref(a2)
            m, m2 = a.model, getattr(a2, "model", None)
            if m2 is None:
                problems.append("agent-without-model")
                continue
            if m is m2:
                problems.append("model-shared")
            if id(m) not in seen_models:
                seen_models[id(m)] = (m, m2)
        for m, m2 in seen_models.values():
            n = nm.get(id(m))
            if n is not None:
                self.models[n + B] = weakref.ref(m2)
            for b, b2 in zip(list(m._agents), list(m2._agents)):
                if b is b2:
                    problems.append("agent-shared")
                nb = nm.get(id(b))
                if nb is not None:
                    self.agents[nb + B] = weakref.ref(b2)
            if m2.random is m.random:
                problems.append("generator-shared")
        if s2.random is s.random:
            problems.append("generator-shared")
        elif isinstance(s2.random, ScriptedRandom) and (s2.random.remaining() != s.random.remaining()):
            problems.append("generator-state")
        self.next = B + B
        self.sets[sname + B] = s2
        return f"ok {sname + B} " + ("fresh" if not problems else "shared:" + ",".join(sorted(set(problems))))


def run_impl(sc):
    impl = SetImpl()
    obs = ["ok"]
    for l in sc.lines[1:]:
        obs.append(impl.line(l.split()))
    return obs


# ----------------------------------------------------------------------------------------
# oracle


def _families(lines, obs):
    """family (connected component) of every identity, from the op lines and the identities the implementation answered"""
    fam = {}

    def find(x):
        while fam.get(x, x) != x:
            x = fam[x]
        return x

    def union(a, b):
        ra, rb = find(a), find(b)
        fam.setdefault(ra, ra)
        fam.setdefault(rb, rb)
        if ra != rb:
            fam[rb] = ra

    return fam, find, union


def oracle(sc, obs):
    bad = []
    fam, find, union = _families(sc.lines, obs)
    nxt = 0
    last = {}      # set -> (members text, index of the line)
    touched = []   # (line index, family root at that time is recomputed lazily) -> list of operand identities
    ops_since = {}  # set -> list of operand-lists of ops since its last read
    for i, (l, o) in enumerate(zip(sc.lines, obs)):
        ws = l.split()
        k = ws[0]
        if k == "scenario":
            continue
        operands = []
        if k == "model" and o.startswith("ok"):
            m = int(o.split()[1])
            union(m, m - 1)
            nxt = m + 1
            operands = [m]
        elif k == "create":
            operands = [int(ws[1])]
            if o.startswith("ok"):
                a = int(o.split()[1])
                union(int(ws[1]), a)
                nxt = a + 1
        elif k in ("remove", "setw"):
            operands = [int(ws[1])]
        elif k == "mkset":
            operands = [int(x) for x in ws[1:]]
            if o.startswith("ok"):
                s = int(o.split()[1])
                nxt = s + 1
                for x in operands:
                    union(s, x)
        elif k in ("add", "discard"):
            operands = [int(ws[1]), int(ws[2])]
            if o == "ok":
                union(int(ws[1]), int(ws[2]))
        elif k in ("sortw", "shuffle"):
            operands = [int(ws[1])]
        elif k == "copy":
            operands = []  # a copy only reads
            if o.startswith("ok"):
                s2 = int(o.split()[1])
                B = s2 - int(ws[1])
                src = find(int(ws[1]))
                # every identity of the source family gets a fresh twin in one new family
                for x in [x for x in list(fam) if find(x) == src]:
                    union(s2, x + B)
                nxt = B + B
                if not o.endswith(" fresh"):
                    bad.append(f"set-faithful: `{l}`: the copy shares or distorts objects ({o.split()[-1]})")
                # compare the two reads that follow the copy
                r1 = next((obs[j] for j in range(i + 1, min(i + 4, len(obs))) if sc.lines[j] == f"members {ws[1]}"), None)
                r2 = next((obs[j] for j in range(i + 1, min(i + 4, len(obs))) if sc.lines[j] == f"members {s2}"), None)
                if r1 and r2 and r1.startswith("ok") and r2.startswith("ok"):
                    def strip(r):
                        items, _, g = r[3:].partition(" | ")
                        g = g.partition(" | ")[0]
                        return [tuple(t.split(":")[1:3]) for t in items.split()], g
                    if strip(r1) != strip(r2):
                        bad.append(f"set-faithful: after `{l}` the copy shows {r2!r}, the original {r1!r}")
        elif k == "members":
            s = int(ws[1])
            if o.startswith("ok"):
                items = o[3:].partition(" | ")[0].split()
                tail = o.rpartition(" | ")[2].split()
                want = f"len={len(items)} last={items[-1].split(':')[0] if items else '-'}"
                if " ".join(tail) != want:
                    bad.append(f"set-consistent: set {s} iterates over {len(items)} members but reports '{' '.join(tail)}' (line {i})")
                if s in last:
                    prev = last[s]
                    foreign_only = all(all(find(x) != find(s) for x in opnds) for opnds in ops_since.get(s, []))
                    if foreign_only and prev != o:
                        own = [opnds for opnds in ops_since.get(s, [])]
                        clause = "set-persistent" if not own else "set-detached"
                        bad.append(f"{clause}: set {s} showed {prev!r}, and after operations on other objects only {o!r} (line {i})")
                last[s] = o
                ops_since[s] = []
            continue
        elif k == "reg":
            continue
        if operands or k == "copy":
            for s in ops_since:
                ops_since[s].append(operands)
    return bad


# ----------------------------------------------------------------------------------------
# generator


def generate_one(R, tier):
    lines = [HEADER]
    nxt = 0
    models, agents, sets = [], [], []   # identities the generator believes exist (agents: alive)
    model_of = {}

    def reads():
        for s in sets[-4:]:
            lines.append(f"members {s}")

    def new_model():
        nonlocal nxt
        script = [R.randrange(0, 50) for _ in range(R.randint(0, 24))]
        lines.append("model " + " ".join(map(str, script)))
        models.append(nxt + 1)
        nxt += 2

    def create(m):
        nonlocal nxt
        lines.append(f"create {m} {R.randrange(4)}")
        agents.append(nxt)
        model_of[nxt] = m
        nxt += 1

    new_model()
    for _ in range(R.randint(1, 6)):
        create(models[0])
    if R.random() < 0.35:
        new_model()
        for _ in range(R.randint(0, 3)):
            create(models[-1])

    def mkset():
        nonlocal nxt
        m = R.choice(models)
        pool = [a for a in agents if model_of.get(a) == m] if R.random() < 0.85 else list(agents)
        R.shuffle(pool)
        chosen = pool[: R.randint(0, len(pool))]
        if chosen and R.random() < 0.15:
            chosen.append(R.choice(chosen))
        lines.append(f"mkset {m} " + " ".join(map(str, chosen)))
        sets.append(nxt)
        nxt += 1

    mkset()
    if R.random() < 0.3:
        mkset()

    def some_op(pool_agents, pool_sets, pool_models):
        k = R.random()
        if k < 0.18 and pool_agents and pool_sets:
            lines.append(f"discard {R.choice(pool_sets)} {R.choice(pool_agents)}")
        elif k < 0.34 and pool_agents and pool_sets:
            lines.append(f"add {R.choice(pool_sets)} {R.choice(pool_agents)}")
        elif k < 0.48 and pool_sets:
            lines.append(f"shuffle {R.choice(pool_sets)}")
        elif k < 0.60 and pool_sets:
            lines.append(f"sortw {R.choice(pool_sets)}")
        elif k < 0.74 and pool_agents:
            lines.append(f"setw {R.choice(pool_agents)} {R.randrange(-2, 6)}")
        elif k < 0.86 and pool_agents:
            a = R.choice(pool_agents)
            lines.append(f"remove {a}")
            if a in agents and R.random() < 0.8:
                agents.remove(a)
        elif pool_models:
            m = R.choice(pool_models)
            before = nxt
            create(m)
            pool_agents.append(before)
        reads()

    for _ in range(R.randint(0, 5)):
        some_op(list(agents), list(sets), list(models))
    reads()

    sides = []  # (agents, sets, models) per side
    n_copies = 1 if R.random() < 0.8 else 2
    orig = (list(agents), list(sets), list(models))
    sides.append(orig)
    for c in range(n_copies):
        src_side = R.choice(sides)
        if not src_side[1]:
            break
        s = R.choice(src_side[1])
        B = nxt
        lines.append(f"copy {s} {R.choice(['deepcopy', 'pickle'])}")
        lines.append(f"members {s}")
        lines.append(f"members {s + B}")
        new_side = ([a + B for a in src_side[0]], [s + B], [m + B for m in src_side[2]])
        for a in src_side[0]:
            model_of[a + B] = model_of.get(a, 0) + B
        agents.extend(new_side[0])
        sets.append(s + B)
        nxt = B + B
        sides.append(new_side)
        for m in new_side[2]:
            if R.random() < 0.4:
                lines.append(f"reg {m}")
        for _ in range(R.randint(2, 9) if tier == "quick" else R.randint(2, 16)):
            side = R.choice(sides)
            if R.random() < 0.06 and len(sides) > 1:
                # an operation that mixes two sides (families merge: the frame clause no longer applies to them)
                other = R.choice([x for x in sides if x is not side])
                if side[1] and other[0]:
                    lines.append(f"add {R.choice(side[1])} {R.choice(other[0])}")
                    reads()
                    continue
            some_op(side[0], side[1], side[2])
        for m in new_side[2] + orig[2]:
            if R.random() < 0.3:
                lines.append(f"reg {m}")
    reads()
    return core.Scenario(lines, {"part": "sets"})


def tags(sc, obs):
    yield "part:sets"
    copied = False
    for l, o in zip(sc.lines, obs):
        ws = l.split()
        if ws[0] == "copy":
            copied = True
            yield "sets:copy:" + ws[2] + (":" + o.split()[0] + (o.split()[1] if o.startswith("err") else ""))
            continue
        if ws[0] in ("members", "reg", "scenario"):
            if ws[0] == "reg" and o == "dead":
                yield "sets:reg:dead"
            continue
        yield "sets:" + ("post:" if copied else "pre:") + ws[0] + (":" + o.split()[1] if o.startswith("err") else "")


def nontrivial(sc, obs):
    """a copy of a non-empty set, followed by at least two accepted state-changing operations"""
    i = next((k for k, l in enumerate(sc.lines) if l.startswith("copy ") and obs[k].startswith("ok")), None)
    if i is None or i + 2 >= len(obs):
        return False
    nonempty = obs[i + 2].startswith("ok ") and not obs[i + 2].startswith("ok  |") and obs[i + 2] != "ok  | "
    changing = sum(1 for l, o in zip(sc.lines[i + 1:], obs[i + 1:]) if o.startswith("ok") and l.split()[0] in
                   ("add", "discard", "shuffle", "sortw", "setw", "remove", "create"))
    return nonempty and changing >= 2
