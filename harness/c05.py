"""C05 — every step() call advances model.steps by exactly one, before user code.

Scenario kind `steps` of lean/Driver/Steps.lean.  Class hierarchies are built from source text with
real zero-argument `super()` calls: level d of a chain is

    class L<d>(<next more basic class>):
        def step(self[, *args, **kw]):          # only if the level overrides
            self._body(d, <args>)               # records (d, self.steps, args), counts, applies the stop rule
            super().step([*args, **kw])         # only if the level calls super

The exhaustive part enumerates every chain of depth <= 4 (781 shapes) under three call patterns.

Multiple inheritance (`cdef` / `mnew` lines): class K of a scenario is

    class K<k>(<bases: Model | K<j> …>):      # no bases at all = a plain mixin class
        def step(self[, *args, **kw]):
            BODY(self, k, <args>)               # records (k, self.steps, args): bodies are labelled by class id
            super().step([*args, **kw])

built with Python's own C3 linearisation; the answer to `cdef` carries `K.__mro__` (ids, up to `Model`), which the Lean
model recomputes.  Every class graph of <= 3 classes (160 shapes) is enumerated on every run, under every choice of
which classes define `step`.
"""
from __future__ import annotations

import itertools

from . import core

PROP = "C05"
DRIVER = "drv_steps"
LEAN_MODULES = ["MesaModel.Props.C05"]
THEOREMS = ["Mesa.Steps." + t for t in (
    "C05_increments_exactly_once", "C05_increment_before_user_code", "C05_bodies_are_override_chain",
    "C05_most_derived_override_runs_first", "C05_next_body_only_through_super", "C05_not_overridden_only_counter",
    "C05_arguments_unchanged", "C05_run_model_exact", "C05_run_model_terminates", "C05_instances_independent",
    "C05_all_interleavings_count", "C05_class_tables_are_linearisations", "C05_mro_is_c3_linearisation",
    "C05_single_inheritance_mro_is_the_chain", "C05_each_class_body_once_in_mro_order",
    "C05_nested_calls_are_ordinary_calls", "C05_nested_run_is_ordinary_calls",
    "C05_wrapper_delegates_to_step_captured_at_init", "C05_rebinding_step_on_the_instance_stops_the_counter",
    "C05_bodies_are_exactly_the_super_chain", "C05_nested_fuel_is_immaterial",
    "C05_run_model_is_k_step_calls", "C05_instance_history_is_its_own_ops", "C05_raising_class_body_cuts_the_chain")]
COUNTS = {"quick": 600, "thorough": 80000}
EXHAUSTIVE = {"quick": True, "thorough": True}
TRUSTED = [
    "Python attribute lookup: an entry `step` in the instance __dict__ shadows the class attribute (step is a plain function on the class, a non-data descriptor) - modelled in Model/StepBinding.lean and compared with real instances on every run (bnew/bstep/bassign/bdel/buser); `super().step` resolves along the class MRO and never to the instance attribute",
    "the MRO is Python's C3 linearisation (typeobject.c); the model recomputes it (Model/StepMro.lean) and every `cdef` answer compares the two; `object` is left implicit",
    "step bodies are `record; [sub_model.step()]; [super().step(...)]`; metaclasses, `__init_subclass__`, classes that reach Model without calling Model.__init__ and step bodies that re-enter self.step() are not modelled",
    "a positional-argument mismatch raises TypeError before the callee's body runs",
]
ASSUMPTIONS = ["run_model is only called on models whose step eventually clears `running` (the harness stop rule); otherwise it does not terminate, as specified",
               "Model.__init__ runs exactly once per instance"]
RULE = ("exhaustive: every chain of depth 0-4 with per level {inherits | overrides x calls-super x takes-args} (781 shapes), each under 4 "
        "call patterns on two or three interleaved instances (plain calls / calls with 1-2 positional or keyword arguments / run_model with "
        "re-arming / coupled models: the step bodies of one model step the next, two levels deep); exhaustive: every class graph with multiple inheritance over <= 3 classes (each class over any ordered choice of "
        "distinct earlier classes, Model or no base at all; 160 graphs x every choice of the classes that define step; thorough: also <= 4 "
        "classes, 10 400 graphs), every Model subclass instantiated and stepped with / without an argument, run_model on the last; random: chains of "
        "depth 0-6 or (2 in 5) class graphs of 2-7 classes with 0-3 bases (mixins, diamonds, refused definitions), 1-4 instances, 5-25 "
        "interleaved step/run/rearm/halt ops and (1 in 8) link / unlink ops that make the bodies of one model step another; "
        "binding of `step` on the instance: exhaustively every chain of depth <= 2 x {plain construction | a subclass __init__ that assigns "
        "self.step = f before super().__init__()} x three op patterns (calls with 0-2 arguments, model._user_step = f, model.step = f, "
        "del model.step twice), and (1 in 3 random chain scenarios) 1-2 such objects with 4-14 random ops; class bodies that raise: every "
        "chain of depth <= 3 x every overriding level as the one whose body raises RuntimeError after its record (calls with 0-2 arguments, "
        "also after `del model.step`), and 3 in 10 random binding objects; "
        "non-trivial = an overriding chain of >= 2 bodies was executed or run_model made >= 2 calls")

_BASE = None


def base():
    global _BASE
    if _BASE is None:
        core.import_mesa()
        from mesa import Model

        class Base(Model):
            def __init__(self, stop_at):
                super().__init__(seed=0)
                self.stop_at = stop_at
                self.execs = 0
                self.rec = []
                self.sub = None

            def _body(self, depth, args):
                body(self, depth, args)

        _BASE = Base
    return _BASE


# "until running becomes false": user code clears the flag with any falsy value, not only with the object False
FALSY = [False, 0, None, "", [], 0.0, ()]


def falsy(k):
    return FALSY[k % len(FALSY)]


def body(self, label, args):
    """what a generated step body does (module-level twin of Base._body for classes that do not derive from Base)"""
    self.rec.append((label, self.steps, tuple(args)))
    self.execs += 1
    if self.execs >= self.stop_at:
        self.running = falsy(self.execs + getattr(self, "idx", 0))
    sub = getattr(self, "sub", None)
    if sub is not None:
        # a coupled model: this step body steps a sub-model (a nested step() call on another instance)
        sub.rec = []
        self.calls.append((sub.idx, sub.rec))
        sub.step()


def build_mi_class(k, bases, level, classes):
    """class k with the given base ids (0 = mesa.Model); raises TypeError where Python refuses the definition"""
    ov, cs, ta = level
    ns = {"BODY": body}
    names = []
    for b in bases:
        ns[f"K{b}"] = classes[b]
        names.append(f"K{b}")
    src = [f"class K{k}({', '.join(names)}):" if names else f"class K{k}:"]
    if not ov:
        src.append("    pass")
    elif ta:
        src.append("    def step(self, *args, **kw):")
        src.append(f"        BODY(self, {k}, args + tuple(kw.values()))")
        if cs:
            src.append("        super().step(*args, **kw)")
    else:
        src.append("    def step(self):")
        src.append(f"        BODY(self, {k}, ())")
        if cs:
            src.append("        super().step()")
    exec("\n".join(src), ns)  # noqa: S102 - generated from ids and three booleans
    return ns[f"K{k}"]


def build_class(levels, raiser=None):
    """levels: [(overrides, callsSuper, takesArgs)], most derived first; `raiser`: the depth of the level whose step body raises
    RuntimeError right after making its record (user code that fails inside a class, possibly between two super() levels)"""
    ns = {"Base": base()}
    src, prev = [], "Base"
    for d in reversed(range(len(levels))):
        ov, cs, ta = levels[d]
        src.append(f"class L{d}({prev}):")
        if not ov:
            src.append("    pass")
        elif ta:
            src.append("    def step(self, *args, **kw):")
            src.append(f"        self._body({d}, args + tuple(kw.values()))")
            if d == raiser:
                src.append("        raise RuntimeError('boom in a class body')")
            if cs:
                src.append("        super().step(*args, **kw)")
        else:
            src.append("    def step(self):")
            src.append(f"        self._body({d}, ())")
            if d == raiser:
                src.append("        raise RuntimeError('boom in a class body')")
            if cs:
                src.append("        super().step()")
        prev = f"L{d}"
    exec("\n".join(src) or "pass", ns)  # noqa: S102 - generated from three booleans per level
    return ns[prev]


def parse_levels(toks):
    if toks == ["-"]:
        return []
    return [tuple(c == "1" for c in t) for t in toks]


class Impl:
    def __init__(self):
        self.classes, self.levels, self.insts, self.cls_of = [], [], [], []
        self.trace = []
        core.import_mesa()
        from mesa import Model

        self.Model = Model
        self.mclasses, self.mlevels = [Model], [None]  # `cdef` classes by id; 0 = mesa.Model
        self.calls = []  # nested step() calls of the current op, in the order they start: (instance, its records)
        self.objs, self.ostate = [], []  # `bnew` objects (how `step` is bound on the instance) and what the program did to them

    def all(self):
        return ("steps=" + ",".join(str(m.steps) for m in self.insts)
                + " running=" + ",".join("1" if m.running else "0" for m in self.insts))

    @staticmethod
    def fmt(rec):
        return ",".join(f"{d}@{s}" + ("/" + ".".join(map(str, a)) if a else "") for d, s, a in rec)

    def fmt_subs(self, subs):
        return "" if not subs else " sub=" + ";".join(f"{j}>{self.fmt(r)}" for j, r in subs)

    def snapshot(self):
        return [(m.steps, bool(m.running), m.execs, m.stop_at) for m in self.insts]

    @staticmethod
    def program_fn(f, m):
        """a plain function the program binds to `step` / `_user_step`: records (f, model.steps as it sees it, arguments)"""
        def fn(*args, **kw):
            m.frec.append((f, m.steps, tuple(args) + tuple(kw.values())))
            if f >= 50:
                raise RuntimeError("boom")  # user code that fails: the count must stand
        return fn

    def ball(self):
        return "b=" + ",".join(str(m.steps) for m in self.objs)

    def _bline(self, w):
        k = w[0]
        if k == "bnew":
            c = int(w[1])
            if c >= len(self.classes):
                return "bad-op"
            pre = None if w[2] == "-" else int(w[2])
            if len(w) > 4:
                return "bad-op"
            raiser = int(w[3]) if len(w) == 4 else None
            cls = self.classes[c] if raiser is None else build_class(self.levels[c], raiser)
            if pre is None:
                m = cls(1000000)
                m.frec = []
            else:
                mk = self.program_fn

                class Pre(cls):
                    # a subclass whose __init__ binds `step` on the instance *before* Model.__init__ runs
                    def __init__(s, stop_at):
                        s.frec = []
                        s.step = mk(pre, s)
                        super().__init__(stop_at)

                m = Pre(1000000)
            m.idx, m.calls = -1, self.calls
            self.objs.append(m)
            self.ostate.append({"pre": pre, "user": None, "rebound": False, "levels": self.levels[c], "raiser": raiser})
            self.trace.append(("bnew", len(self.objs) - 1, pre, m.steps))
            return f"ok obj={len(self.objs) - 1} || {self.ball()}"
        i = int(w[1])
        if i >= len(self.objs):
            return "bad-op"
        m, st = self.objs[i], self.ostate[i]
        before = m.steps
        if k == "bstep":
            args = [int(x) for x in w[2:]]
            m.rec, m.frec = [], []
            try:
                if args and args[-1] % 2 == 0:
                    r = m.step(*args[:-1], last=args[-1])
                else:
                    r = m.step(*args)
                out = "ok"
                assert r is None
            except TypeError:
                out = "err Type"
            except RuntimeError as e:
                if "boom" not in str(e):
                    raise
                out = "err Runtime"
            self.trace.append(("bstep", i, args, out, list(m.rec), list(m.frec), before, m.steps, dict(st)))
            return (f"{out} log={self.fmt(m.rec)} fn=" + ",".join(f"{f}@{s_}" + ("/" + ".".join(map(str, a)) if a else "")
                                                                   for f, s_, a in m.frec) + f" || {self.ball()}")
        if k == "bassign":
            m.step = self.program_fn(int(w[2]), m)
            st["rebound"] = True
        elif k == "buser":
            m._user_step = self.program_fn(int(w[2]), m)
            st["user"] = int(w[2])
        elif k == "bdel":
            try:
                del m.step
            except AttributeError:
                self.trace.append(("bedit", i, k, before, m.steps))
                return f"err Attr || {self.ball()}"
            st["rebound"] = True
        else:
            raise ValueError(w)
        self.trace.append(("bedit", i, k, before, m.steps))
        return f"ok || {self.ball()}"

    def line(self, w):
        """an exception the protocol does not name becomes an observation (never a harness crash), so that a broken
        implementation yields a replayable disagreement and an oracle clause"""
        try:
            return self._line(w)
        except (AssertionError, core.ScenarioTimeout):
            raise
        except Exception as e:  # noqa: BLE001
            self.trace.append(("crash", " ".join(w), type(e).__name__))
            return "err Unexpected " + type(e).__name__

    def _line(self, w):
        k = w[0]
        if k in ("bnew", "bstep", "bassign", "bdel", "buser"):
            return self._bline(w)
        if k == "class":
            lv = parse_levels(w[1:])
            self.levels.append(lv)
            self.classes.append(build_class(lv))
            return f"ok class={len(self.classes) - 1}"
        if k == "cdef":
            bases = [] if w[1] == "-" else [int(b) for b in w[1].split(",")]
            if any(b >= len(self.mclasses) for b in bases):
                return "bad-op"
            level = parse_levels([w[2]])[0]
            kid = len(self.mclasses)
            try:
                cls = build_mi_class(kid, bases, level, self.mclasses)
            except TypeError:
                return "err Type"
            self.mclasses.append(cls)
            self.mlevels.append(level)
            mro = [self.mclasses.index(c) for c in cls.__mro__ if c in self.mclasses]
            return f"ok class={kid} mro=" + ",".join(map(str, mro))
        if k == "mnew":
            c, stop = int(w[1]), int(w[2])
            if c >= len(self.mclasses) or not issubclass(self.mclasses[c], self.Model):
                return "bad-op"
            cls = self.mclasses[c]
            m = cls(seed=0)
            m.stop_at, m.execs, m.rec, m.sub = stop, 0, [], None
            self.insts.append(m)
            m.idx, m.calls = len(self.insts) - 1, self.calls
            self.cls_of.append(("m", c))
            # the part of Python's MRO that can run: in front of Model
            front = []
            for x in cls.__mro__:
                if x is self.Model:
                    break
                front.append(self.mclasses.index(x))
            self.trace.append(("new", len(self.insts) - 1, [self.mlevels[x] for x in front], stop, self.snapshot(), front))
            return f"ok inst={len(self.insts) - 1} || {self.all()}"
        if k == "new":
            c, stop = int(w[1]), int(w[2])
            if c >= len(self.classes):
                return "bad-op"  # dangling reference (shrinker only); the driver says the same
            self.insts.append(self.classes[c](stop))
            self.insts[-1].idx, self.insts[-1].calls = len(self.insts) - 1, self.calls
            self.cls_of.append(c)
            self.trace.append(("new", len(self.insts) - 1, self.levels[c], stop, self.snapshot()))
            return f"ok inst={len(self.insts) - 1} || {self.all()}"
        i = int(w[1])
        if i >= len(self.insts):
            return "bad-op"
        m = self.insts[i]
        before = self.snapshot()
        m.rec = []
        del self.calls[:]
        if k == "link":
            j = None if w[2] == "-" else int(w[2])
            if j is not None and not (i < j < len(self.insts)):
                return "bad-op"
            m.sub = None if j is None else self.insts[j]
            self.trace.append(("link", i, before, self.snapshot()))
            return f"ok || {self.all()}"
        if k == "step":
            args = [int(x) for x in w[2:]]
            try:
                # glue: an even last argument travels as a keyword argument
                if args and args[-1] % 2 == 0:
                    r = m.step(*args[:-1], last=args[-1])
                else:
                    r = m.step(*args)
                out = "ok"
                assert r is None
            except TypeError:
                out = "err Type"
            subs = [(j, list(r)) for j, r in self.calls]
            self.trace.append(("step", i, args, out, list(m.rec), subs, before, self.snapshot()))
            return f"{out} log={self.fmt(m.rec)}{self.fmt_subs(subs)} || {self.all()}"
        if k == "run":
            # generated programs terminate on the correct code; the cap makes them terminate on ANY code
            # (a run_model that keeps stepping a stopped model must show as a failure, not hang the check)
            orig, calls = m.step, [0]

            def capped(*a, **kw):
                calls[0] += 1
                if calls[0] > 200:
                    raise RuntimeError("runaway run_model")
                return orig(*a, **kw)

            m.step = capped
            try:
                m.run_model()
            except RuntimeError as e:
                if "runaway" not in str(e):
                    raise
                m.step = orig
                self.trace.append(("runaway", i, before))
                return f"err Runaway || {self.all()}"
            finally:
                m.step = orig
            subs = [(j, list(r)) for j, r in self.calls]
            self.trace.append(("run", i, list(m.rec), subs, before, self.snapshot()))
            return f"ok log={self.fmt(m.rec)}{self.fmt_subs(subs)} || {self.all()}"
        if k == "rearm":
            m.running = True
            m.stop_at = m.execs + int(w[2])
            self.trace.append(("rearm", i, before, self.snapshot()))
            return f"ok || {self.all()}"
        if k == "halt":
            m.running = falsy(i + m.execs + 1)
            self.trace.append(("halt", i, before, self.snapshot()))
            return f"ok || {self.all()}"
        raise ValueError(w)


def run_impl(sc):
    assert sc.lines[0].split() == ["scenario", "steps"]
    impl = Impl()
    obs = ["ok"]
    for line in sc.lines[1:]:
        obs.append(impl.line(line.split()))
    sc.meta["trace"] = impl.trace
    return obs


# --------------------------------------------------------------------------------------------
# generators

LEVEL_OPTS = ["000", "100", "110", "101", "111"]


def fmt_class(levels):
    return "class " + (" ".join(levels) if levels else "-")


def has_body(levels):
    return any(l[0] == "1" for l in levels)


def pattern(levels, which):
    """four call patterns on two or three instances of the same class (interleaved; the fourth nests the calls)"""
    L = ["scenario steps", fmt_class(levels)]
    hb = has_body(levels)
    if which == 0:
        L += ["new 0 9", "new 0 9", "step 0", "step 1", "step 0", "step 0", "step 1"]
    elif which == 1:
        L += ["new 0 9", "new 0 9", "step 0 5", "step 1", "step 1 3 7", "step 0 4", "step 0", "step 1 1 2", "step 0 6 8"]
    elif which == 2:
        L += ["new 0 3", "new 0 2", "step 1"]
        L += ["run 0", "run 0", "run 1", "rearm 0 2", "run 0", "step 1", "rearm 1 1", "run 1"] if hb else ["halt 0", "run 0", "step 1", "halt 1", "run 1"]
        L += ["step 0"]
    else:
        # coupled models: the bodies of model 0 step model 1, whose bodies step model 2
        L += ["new 0 9", "new 0 9", "new 0 4", "step 1", "link 0 1", "step 0", "step 1", "link 1 2", "step 0", "step 0 5", "step 2"]
        L += ["rearm 0 2", "run 0"] if hb else ["halt 0", "run 0"]
        L += ["link 0 -", "step 0", "step 1"]
    return core.Scenario(L, {"exhaustive": True})


def all_shapes(max_depth=4):
    for d in range(max_depth + 1):
        yield from itertools.product(LEVEL_OPTS, repeat=d)


def all_base_lists(k):
    """every ordered choice of distinct bases among the classes 0..k-1 (none = a plain mixin)"""
    for r in range(0, k + 1):
        yield from itertools.permutations(range(k), r)


def all_class_graphs(n):
    """every way to define classes 1..n, each over the classes before it (2 * 5 * 16 = 160 graphs for n = 3)"""
    def rec(k):
        if k > n:
            yield []
            return
        for b in all_base_lists(k):
            for rest in rec(k + 1):
                yield [list(b)] + rest
    yield from rec(1)


def mi_front_levels(impl, inst):
    """levels of the classes in front of Model in the MRO of instance `inst` (from the trace of its creation)"""
    ev = next((e for e in impl.trace if e[0] == "new" and e[1] == inst), None)
    return ev[2] if ev else []  # no such instance: only if the constructor raised (a broken implementation)


def mi_scenario(defs, levels, meta):
    """define the classes (stop at the first definition Python refuses), instantiate every Model subclass,
    call step without / with an argument on each, run_model on the last one"""
    impl = Impl()
    L = ["scenario steps"]
    for bases, lv in zip(defs, levels):
        l = "cdef " + (",".join(map(str, bases)) or "-") + " " + lv
        L.append(l)
        if not impl.line(l.split()).startswith("ok"):
            break
    models = [k for k in range(1, len(impl.mclasses)) if issubclass(impl.mclasses[k], impl.Model)]
    for j, k in enumerate(models):
        l = f"mnew {k} {2 + j}"
        L.append(l)
        impl.line(l.split())
    for j in range(len(models)):
        L += [f"step {j}", f"step {j} 5", f"step {j}"]
    if models:
        j = len(models) - 1
        if any(l[0] for l in mi_front_levels(impl, j)):
            L += [f"rearm {j} 3", f"run {j}", f"run {j}", f"step {j}"]
        else:
            L += [f"halt {j}", f"run {j}", f"step {j}"]
    return core.Scenario(L, meta)


def mixed_levels(graph):
    """a deterministic, varied assignment of step definitions to the classes of a graph"""
    h = sum((i + 1) * (len(b) + 3 * sum(b)) for i, b in enumerate(graph))
    opts = ["110", "111", "000", "100", "101", "110", "111"]
    return [opts[(h + 3 * i) % len(opts)] for i in range(len(graph))]


BIND_PATTERNS = [
    # the wrapper stays: calls with and without arguments, `_user_step` re-assigned in between
    ["bstep 0", "bstep 0 3", "bstep 0 1 4", "buser 0 2", "bstep 0", "bstep 0 5 6"],
    # the program re-binds `step` on the instance: a function, then nothing at all (the class's step, uncounted)
    ["bstep 0", "bassign 0 1", "bstep 0", "bstep 0 5", "bdel 0", "bstep 0", "bstep 0 7", "bdel 0", "bstep 0"],
    ["bdel 0", "bstep 0", "bstep 0 3", "bassign 0 2", "bstep 0 4", "buser 0 1", "bstep 0", "bdel 0", "bstep 0 9"],
    # user code that raises: the call leaves with the exception, the count stands
    ["bstep 0", "buser 0 50", "bstep 0", "bstep 0 2", "buser 0 1", "bstep 0", "bassign 0 51", "bstep 0"],
]


def binding_scenarios():
    """every chain of depth <= 2 x {plain construction | `self.step = f` before Model.__init__} x three op patterns"""
    for sh in all_shapes(2):
        for pre in ("-", "1", "50"):
            for pat in BIND_PATTERNS:
                yield core.Scenario(["scenario steps", fmt_class(list(sh)), f"bnew 0 {pre}"] + pat, {"exhaustive": True, "binding": True})


RAISE_PATTERN = ["bstep 0", "bstep 0 3", "bstep 0 1 4", "bdel 0", "bstep 0", "bstep 0 5"]


def raising_scenarios():
    """every chain of depth <= 3 x every level as the one whose body raises (review 3, M17)"""
    for sh in all_shapes(3):
        for r in range(len(sh)):
            if sh[r][0] == "1":
                yield core.Scenario(["scenario steps", fmt_class(list(sh)), f"bnew 0 - {r}"] + RAISE_PATTERN,
                                    {"exhaustive": True, "binding": True, "raising": True})


def gen_binding_ops(R, L, ncls):
    """1-2 objects whose `step` binding the program plays with, 4-14 ops"""
    nobj = R.choice([1, 1, 2])
    for _ in range(nobj):
        L.append(f"bnew {R.randrange(ncls)} {R.choice(['-', '-', '-', '1', '2', '50'])}"
                 + (f" {R.randrange(0, 4)}" if R.random() < 0.3 else ""))
    for _ in range(R.randrange(4, 15)):
        i = R.randrange(nobj)
        k = R.random()
        if k < 0.6:
            L.append(" ".join(["bstep", str(i)] + [str(R.randrange(0, 9)) for _ in range(R.choice([0, 0, 1, 1, 2]))]))
        elif k < 0.75:
            L.append(f"buser {i} {R.choice([1, 2, 3, 50, 51])}")
        elif k < 0.88:
            L.append(f"bassign {i} {R.choice([1, 2, 3, 50])}")
        else:
            L.append(f"bdel {i}")


def builtin_corpus():
    res = [pattern(list(sh), w) for sh in all_shapes() for w in range(4)]
    res += list(binding_scenarios())
    res += list(raising_scenarios())
    for g in all_class_graphs(3):
        # every choice of which classes define step (those that do call super), plus one assignment with
        # argument-taking and non-super-calling bodies
        for which in itertools.product(["000", "110"], repeat=len(g)):
            res.append(mi_scenario(g, list(which), {"exhaustive": True, "mi": True}))
        res.append(mi_scenario(g, mixed_levels(g), {"exhaustive": True, "mi": True}))
    import sys
    if "thorough" in sys.argv:  # builtin_corpus() is not told the tier
        for g in all_class_graphs(4):  # 10 400 graphs
            res.append(mi_scenario(g, ["110"] * len(g) if sum(map(len, g)) % 2 else mixed_levels(g), {"exhaustive": True, "mi": True}))
    return res


def gen_mi_scenario(R):
    """random class graphs with multiple inheritance (mixins, diamonds, refused definitions), several instances"""
    impl = Impl()
    L = ["scenario steps"]

    def emit(l):
        L.append(l)
        return impl.line(l.split())

    for _ in range(R.choice([2, 3, 4, 5, 6, 7])):
        n = len(impl.mclasses)
        nb = R.choice([0, 1, 1, 1, 2, 2, 2, 3])
        # mostly recent classes and Model: diamonds and long MROs; occasionally a duplicate base (TypeError)
        pool = list(range(n))
        bases = []
        for _ in range(nb):
            b = R.choice(pool[-3:] + [0]) if R.random() < 0.7 else R.choice(pool)
            if b not in bases or R.random() < 0.05:
                bases.append(b)
        if R.random() < 0.8:
            # a consistent order more often than not: later (more derived) classes first, Model last
            bases.sort(reverse=True)
        emit("cdef " + (",".join(map(str, bases)) or "-") + " " + R.choice(LEVEL_OPTS + ["110", "111", "110"]))
    if R.random() < 0.3:
        emit(fmt_class([R.choice(LEVEL_OPTS + ["110"]) for _ in range(R.choice([1, 2, 3]))]))  # a plain chain beside them
    models = [k for k in range(1, len(impl.mclasses)) if issubclass(impl.mclasses[k], impl.Model)]
    insts = []
    for _ in range(R.choice([1, 2, 2, 3, 4])):
        if models and (not impl.classes or R.random() < 0.8):
            k = R.choice(models[-3:] if R.random() < 0.6 else models)
            emit(f"mnew {k} {R.choice([1, 2, 3, 5, 8])}")
            hb = any(l[0] for l in mi_front_levels(impl, len(impl.insts) - 1))
        elif impl.classes:
            emit(f"new 0 {R.choice([1, 2, 3, 5, 8])}")
            hb = any(l[0] for l in impl.levels[0])
        else:
            continue
        insts.append({"hb": hb})
    if not insts:
        return core.Scenario(L, {"mi": True})
    L += gen_ops(R, insts)
    return core.Scenario(L, {"mi": True})


def gen_scenario(R):
    L = ["scenario steps"]
    ncls = R.choice([1, 1, 2, 3])
    shapes = []
    for _ in range(ncls):
        d = R.choice([0, 1, 2, 3, 4, 5, 6])
        # favour overriding, super-calling levels so that chains are long
        lv = [R.choice(LEVEL_OPTS + ["110", "111", "110"]) for _ in range(d)]
        shapes.append(lv)
        L.append(fmt_class(lv))
    ninst = R.choice([1, 2, 2, 3, 4])
    insts = []
    for _ in range(ninst):
        c = R.randrange(ncls)
        insts.append({"c": c, "hb": has_body(shapes[c]), "running": True})
        L.append(f"new {c} {R.choice([1, 2, 3, 5, 8])}")
    L += gen_ops(R, insts)
    if R.random() < 0.35:
        gen_binding_ops(R, L, ncls)
    return core.Scenario(L, {})


def gen_ops(R, insts):
    L = []
    ninst = len(insts)
    for _ in range(R.randrange(5, 26)):
        i = R.randrange(ninst)
        x = insts[i]
        k = R.random()
        if ninst >= 2 and R.random() < 0.12:
            # couple two models: from now on the step bodies of the earlier one step the later one (or uncouple)
            a = R.randrange(ninst - 1)
            L.append(f"link {a} {R.randrange(a + 1, ninst)}" if R.random() < 0.8 else f"link {a} -")
            continue
        if k < 0.55:
            na = R.choice([0, 0, 0, 1, 1, 2])
            L.append(" ".join(["step", str(i)] + [str(R.randrange(0, 9)) for _ in range(na)]))
        elif k < 0.75:
            if not x["hb"]:
                L.append(f"halt {i}")  # nothing would ever clear `running`
            else:
                L.append(f"rearm {i} {R.choice([1, 2, 3, 6])}")  # makes sure the loop has work and an end
            L.append(f"run {i}")
        elif k < 0.85 and x["hb"]:
            L.append(f"rearm {i} {R.choice([1, 2, 4])}")
        elif k < 0.92:
            L.append(f"halt {i}")
            L.append(f"run {i}")
        else:
            L.append(f"step {i}")
    return L


def generate(rng, tier, count):
    for _ in range(count):
        yield gen_mi_scenario(rng) if rng.random() < 0.4 else gen_scenario(rng)


# --------------------------------------------------------------------------------------------
# oracle


def expected_chain_ok(levels, rec, args, out, raiser=None):
    """structural clauses on the bodies one call executed (depth order, super links, arguments); `raiser`: the level whose
    body raises RuntimeError after its record - it is the last body to run, and the call leaves with that exception"""
    bad = []
    depths = [d for d, _, _ in rec]
    if raiser is not None and raiser in depths:
        if depths[-1] != raiser:
            bad.append(f"raise: bodies {depths[depths.index(raiser) + 1:]} ran after the body of level {raiser} had raised")
        if out != "err Runtime":
            bad.append(f"raise: the body of level {raiser} raised RuntimeError but the call ended with `{out}`")
    elif out == "err Runtime":
        bad.append(f"raise: the call ended with RuntimeError although no raising body ran (bodies {depths})")
    over = [d for d, l in enumerate(levels) if l[0]]
    if any(d not in over for d in depths):
        bad.append(f"chain: a level that does not define step ran: {depths}")
    if depths != sorted(set(depths)):
        bad.append(f"chain: bodies ran out of MRO order or twice: {depths}")
    if not over and rec:
        bad.append("chain: step is not overridden but user code ran")
    if over and out == "ok" and (not rec or rec[0][0] != over[0]):
        bad.append(f"chain: the most derived step (level {over[0]}) did not run first: {depths}")
    for (d1, _, a1), (d2, _, a2) in zip(rec, rec[1:]):
        nxt = next((d for d in over if d > d1), None)
        if not levels[d1][1] or nxt != d2:
            bad.append(f"chain: level {d2} ran after level {d1} without a super() link")
        if a2 != (a1 if levels[d1][2] else ()):
            bad.append(f"args: level {d2} received {a2}, level {d1} forwarded {a1 if levels[d1][2] else ()}")
    if rec and out == "ok":
        d, _, a = rec[-1]
        nxt = next((x for x in over if x > d), None)
        if levels[d][1] and nxt is not None:
            bad.append(f"chain: level {d} calls super().step() but level {nxt} did not run")
    if rec and tuple(rec[0][2]) != tuple(args):
        bad.append(f"args: step{tuple(args)} reached the first body as {rec[0][2]}")
    return bad


def to_depths(labels, rec, bad):
    """bodies of `cdef` classes record their class id: translate to the position in the MRO Python computed"""
    if labels is None:
        return rec
    out = []
    for d, s, a in rec:
        if d not in labels:
            bad.append(f"chain: the body of class {d} ran, which is not in the MRO in front of Model ({labels})")
        else:
            out.append((labels.index(d), s, a))
    return out


def oracle(sc, obs):
    bad = []
    levels_of, labels_of = {}, {}
    for ev in sc.meta.get("trace") or []:
        k = ev[0]
        if k == "new":
            levels_of[ev[1]] = ev[2]
            labels_of[ev[1]] = ev[5] if len(ev) > 5 else None
            continue
        if k == "crash":
            bad.append(f"crash: `{ev[1]}` raised {ev[2]}")
            continue
        if k == "bnew":
            if ev[3] != 0:
                bad.append(f"count: a freshly constructed model has steps={ev[3]}")
            continue
        if k == "bedit":
            if ev[3] != ev[4]:
                bad.append(f"count: `{ev[2]}` on object {ev[1]} changed steps {ev[3]} -> {ev[4]}")
            continue
        if k == "bstep":
            _, i, args, out, rec, frec, s0, s1, st = ev
            if st["rebound"]:
                continue  # the program itself replaced / deleted the instance's `step`: outside the property (correspondence only)
            if s1 != s0 + 1:
                bad.append(f"count: step() on object {i} moved steps {s0} -> {s1}")
            for d, s, a in rec:
                if s != s0 + 1:
                    bad.append(f"order: body {d} of object {i} saw steps={s}, expected {s0 + 1} (increment before user code)")
            for f, s, a in frec:
                if s != s0 + 1:
                    bad.append(f"order: the program's function {f} saw steps={s}, expected {s0 + 1} (increment before user code)")
            target = st["user"] if st["user"] is not None else st["pre"]
            if target is None:
                if frec:
                    bad.append(f"delegate: a program function ran although object {i} has none")
                bad += expected_chain_ok(st["levels"], rec, tuple(args), out, st.get("raiser"))
            elif rec or frec != [(target, s0 + 1, tuple(args))] or out != ("err Runtime" if target >= 50 else "ok"):
                bad.append(f"delegate: step({args}) on object {i} should run the function {target} once with the arguments unchanged; "
                           f"bodies {rec}, functions {frec}, {out}")
            continue
        if k == "runaway":
            running0 = ev[2][ev[1]][1]
            bad.append(f"run: run_model on model {ev[1]} (running={running0} when called) was still stepping after 200 calls")
            continue
        i = ev[1]
        before, after = ev[-2], ev[-1]
        subs = ev[-3] if k in ("step", "run") else []
        nested = {}
        for j, r in subs:
            nested.setdefault(j, []).append(r)
        for j, (b, a) in enumerate(zip(before, after)):
            if j != i and j not in nested and b != a:
                bad.append(f"frame: `{k} {i}` changed model {j}: {b} -> {a}")
        # a step() made from inside another model's step body is a step() like any other: counted once, on its own
        # model, before that model's user code
        for j, recs in nested.items():
            if j == i:
                bad.append(f"nested: model {i} was re-entered from its own step")
                continue
            if after[j][0] != before[j][0] + len(recs):
                bad.append(f"count: {len(recs)} nested step() call(s) on model {j} during `{k} {i}` took its steps from "
                           f"{before[j][0]} to {after[j][0]}")
            for n, r in enumerate(recs):
                r = to_depths(labels_of[j], r, bad)
                for d, sj, _a in r:
                    if sj != before[j][0] + n + 1:
                        bad.append(f"before-user-code: body of level {d} of model {j}, in its nested call number {n + 1} during `{k} {i}`, "
                                   f"saw steps={sj}; model {j} stood at {before[j][0]} before")
                bad += expected_chain_ok(levels_of[j], r, (), "ok")
        s0, r0, e0, stop0 = before[i]
        s1, r1, e1, _ = after[i]
        if k == "step":
            _, _, args, out, rec, _, _, _ = ev
            rec = to_depths(labels_of[i], rec, bad)
            if s1 != s0 + 1:
                bad.append(f"count: one step() call took steps from {s0} to {s1}")
            for d, s, _a in rec:
                if s != s0 + 1:
                    bad.append(f"before-user-code: body of level {d} saw steps={s}, the call started at {s0}")
            bad += expected_chain_ok(levels_of[i], rec, args, out)
        elif k == "run":
            _, _, rec, _, _, _ = ev
            rec = to_depths(labels_of[i], rec, bad)
            calls = s1 - s0
            if not r0:
                if calls or rec:
                    bad.append(f"run: run_model stepped {calls} times although running was already false")
                continue
            if r1:
                bad.append("run: run_model returned while running is still true")
            seen = sorted({s for _, s, _ in rec})
            if seen != list(range(s0 + 1, s1 + 1)):
                bad.append(f"run: {calls} calls but bodies saw steps {seen}")
            # the stop rule fires at the execution that makes execs reach stop_at (or at the first one if already past)
            fire = max(stop0 - e0, 1)
            if len(rec) < fire or rec[fire - 1][1] != s1:
                bad.append(f"run: running was cleared at execution {fire} (call {rec[fire - 1][1] - s0 if len(rec) >= fire else '?'}) but run_model made {calls} calls")
            per = {}
            for d, s, a in rec:
                per.setdefault(s, []).append((d, s, a))
            for s, r in per.items():
                bad += expected_chain_ok(levels_of[i], r, (), "ok")
        elif k in ("rearm", "halt", "link"):
            if s1 != s0:
                bad.append(f"count: `{k}` changed steps")
    return bad


def nontrivial(sc, obs):
    for ev in sc.meta.get("trace") or []:
        if ev[0] == "step" and len(ev[4]) >= 2:
            return True
        if ev[0] == "run" and ev[-1][ev[1]][0] - ev[-2][ev[1]][0] >= 2:
            return True
    return False


def tags(sc, obs):
    yield "exhaustive" if sc.meta.get("exhaustive") else "random"
    for l, o in zip(sc.lines, obs):
        if l.startswith("cdef"):
            yield "cdef:" + ("refused" if o.startswith("err") else "bad-op" if o == "bad-op" else f"{min(len(l.split()[1].split(',')), 3) if l.split()[1] != '-' else 0}-bases")
            if o.startswith("ok") and len(o.split("mro=")[1].split(",")) >= 5:
                yield "cdef:mro>=5"
    lv = {}
    for ev in sc.meta.get("trace") or []:
        if ev[0] == "new":
            lv[ev[1]] = ev[2]
            yield f"depth:{len(ev[2])}"
            if len(ev) > 5:
                yield "inst:multiple-inheritance"
            if not any(l[0] for l in ev[2]):
                yield "shape:not-overridden"
            elif ev[2] and not ev[2][0][0]:
                yield "shape:inherited-from-intermediate"
        elif ev[0] == "step":
            if ev[5]:
                yield "step:nested-calls:" + str(min(len(ev[5]), 4)) + ("+" if len(ev[5]) >= 4 else "")
            yield "step:" + ("args" if ev[2] else "noargs") + (":TypeError" if ev[3] != "ok" else "")
            if len(ev[4]) >= 2:
                yield "step:super-chain"
        elif ev[0] == "bnew":
            yield "bind:constructed" + ("-with-step-assigned-before-init" if ev[2] is not None else "")
        elif ev[0] == "bedit":
            yield "bind:" + ev[2] + ("" if ev[2] != "bdel" else "")
        elif ev[0] == "bstep":
            st = ev[8]
            if st.get("raiser") is not None and any(d == st["raiser"] for d, _, _ in ev[4]):
                yield "bind:class-body-raises" + (":between-super-levels" if 0 < len(ev[4]) - 1 and st["levels"][st["raiser"]][1] else "")
            how = ("rebound" if st["rebound"] else "wrapped") + (
                "-user-fn" if st["user"] is not None else "-init-fn" if st["pre"] is not None else "-class-chain")
            yield "bind:call-" + how + (":TypeError" if ev[3] == "err Type" else ":RuntimeError" if ev[3] != "ok" else "") + (":args" if ev[2] else "")
        elif ev[0] == "run":
            yield "run:" + str(min(ev[-1][ev[1]][0] - ev[-2][ev[1]][0], 3)) + ("+" if ev[-1][ev[1]][0] - ev[-2][ev[1]][0] >= 3 else "") + "-calls"


if __name__ == "__main__":
    import sys
    core.main(sys.modules[__name__])
