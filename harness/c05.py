"""C05 — every step() call advances model.steps by exactly one, before user code.

Scenario kind `steps` of lean/Driver/Steps.lean.  Class hierarchies are built from source text with
real zero-argument `super()` calls: level d of a chain is

    class L<d>(<next more basic class>):
        def step(self[, *args, **kw]):          # only if the level overrides
            self._body(d, <args>)               # records (d, self.steps, args), counts, applies the stop rule
            super().step([*args, **kw])         # only if the level calls super

The exhaustive part enumerates every chain of depth <= 4 (781 shapes) under three call patterns.
"""
from __future__ import annotations

import itertools

from . import core

PROP = "C05"
DRIVER = "drv_steps"
LEAN_MODULES = ["MesaModel.Props.C05"]
THEOREMS = ["Mesa.Steps." + t for t in (
    "C05_increments_exactly_once", "C05_increment_before_user_code", "C05_bodies_are_override_chain",
    "C05_most_derived_override_runs_first", "C05_next_body_only_through_super", "C05_not_overridden_only_counter",
    "C05_arguments_unchanged", "C05_run_model_exact", "C05_run_model_terminates", "C05_instances_independent",
    "C05_all_interleavings_count")]
COUNTS = {"quick": 600, "thorough": 80000}
EXHAUSTIVE = {"quick": True, "thorough": True}
TRUSTED = [
    "Python attribute lookup: an instance attribute (`self.step = self._wrapped_step`) shadows the class attribute; `super().step` resolves along the class MRO and never to the instance attribute",
    "single-inheritance chains below mesa.Model; step bodies are `record; [super().step(...)]`; multiple inheritance, metaclasses and step bodies that re-enter self.step() are not modelled",
    "a positional-argument mismatch raises TypeError before the callee's body runs",
]
ASSUMPTIONS = ["run_model is only called on models whose step eventually clears `running` (the harness stop rule); otherwise it does not terminate, as specified",
               "Model.__init__ runs exactly once per instance"]
RULE = ("exhaustive: every chain of depth 0-4 with per level {inherits | overrides x calls-super x takes-args} (781 shapes), each under 3 "
        "call patterns on two interleaved instances (plain calls / calls with 1-2 positional or keyword arguments / run_model with "
        "re-arming); random: chains of depth 0-6, 1-3 classes, 1-4 instances, 5-25 interleaved step/run/rearm/halt ops; "
        "non-trivial = an overriding chain of >= 2 bodies was executed or run_model made >= 2 calls")

_BASE = None


def base():
    global _BASE
    if _BASE is None:
        core.import_mesa()
        from mesa import Model

        class Base(Model):
            def __init__(self, stop_at):
                super().__init__(seed=0)
                self.stop_at = stop_at
                self.execs = 0
                self.rec = []

            def _body(self, depth, args):
                self.rec.append((depth, self.steps, tuple(args)))
                self.execs += 1
                if self.execs >= self.stop_at:
                    self.running = False

        _BASE = Base
    return _BASE


def build_class(levels):
    """levels: [(overrides, callsSuper, takesArgs)], most derived first"""
    ns = {"Base": base()}
    src, prev = [], "Base"
    for d in reversed(range(len(levels))):
        ov, cs, ta = levels[d]
        src.append(f"class L{d}({prev}):")
        if not ov:
            src.append("    pass")
        elif ta:
            src.append("    def step(self, *args, **kw):")
            src.append(f"        self._body({d}, args + tuple(kw.values()))")
            if cs:
                src.append("        super().step(*args, **kw)")
        else:
            src.append("    def step(self):")
            src.append(f"        self._body({d}, ())")
            if cs:
                src.append("        super().step()")
        prev = f"L{d}"
    exec("\n".join(src) or "pass", ns)  # noqa: S102 - generated from three booleans per level
    return ns[prev]


def parse_levels(toks):
    if toks == ["-"]:
        return []
    return [tuple(c == "1" for c in t) for t in toks]


class Impl:
    def __init__(self):
        self.classes, self.levels, self.insts, self.cls_of = [], [], [], []
        self.trace = []

    def all(self):
        return ("steps=" + ",".join(str(m.steps) for m in self.insts)
                + " running=" + ",".join("1" if m.running else "0" for m in self.insts))

    @staticmethod
    def fmt(rec):
        return ",".join(f"{d}@{s}" + ("/" + ".".join(map(str, a)) if a else "") for d, s, a in rec)

    def snapshot(self):
        return [(m.steps, bool(m.running), m.execs, m.stop_at) for m in self.insts]

    def line(self, w):
        k = w[0]
        if k == "class":
            lv = parse_levels(w[1:])
            self.levels.append(lv)
            self.classes.append(build_class(lv))
            return f"ok class={len(self.classes) - 1}"
        if k == "new":
            c, stop = int(w[1]), int(w[2])
            if c >= len(self.classes):
                return "bad-op"  # dangling reference (shrinker only); the driver says the same
            self.insts.append(self.classes[c](stop))
            self.cls_of.append(c)
            self.trace.append(("new", len(self.insts) - 1, self.levels[c], stop, self.snapshot()))
            return f"ok inst={len(self.insts) - 1} || {self.all()}"
        i = int(w[1])
        if i >= len(self.insts):
            return "bad-op"
        m = self.insts[i]
        before = self.snapshot()
        m.rec = []
        if k == "step":
            args = [int(x) for x in w[2:]]
            try:
                # glue: an even last argument travels as a keyword argument
                if args and args[-1] % 2 == 0:
                    r = m.step(*args[:-1], last=args[-1])
                else:
                    r = m.step(*args)
                out = "ok"
                assert r is None
            except TypeError:
                out = "err Type"
            self.trace.append(("step", i, args, out, list(m.rec), before, self.snapshot()))
            return f"{out} log={self.fmt(m.rec)} || {self.all()}"
        if k == "run":
            # generated programs terminate on the correct code; the cap makes them terminate on ANY code
            # (a run_model that keeps stepping a stopped model must show as a failure, not hang the check)
            orig, calls = m.step, [0]

            def capped(*a, **kw):
                calls[0] += 1
                if calls[0] > 200:
                    raise RuntimeError("runaway run_model")
                return orig(*a, **kw)

            m.step = capped
            try:
                m.run_model()
            except RuntimeError as e:
                if "runaway" not in str(e):
                    raise
                m.step = orig
                self.trace.append(("runaway", i, before))
                return f"err Runaway || {self.all()}"
            finally:
                m.step = orig
            self.trace.append(("run", i, list(m.rec), before, self.snapshot()))
            return f"ok log={self.fmt(m.rec)} || {self.all()}"
        if k == "rearm":
            m.running = True
            m.stop_at = m.execs + int(w[2])
            self.trace.append(("rearm", i, before, self.snapshot()))
            return f"ok || {self.all()}"
        if k == "halt":
            m.running = False
            self.trace.append(("halt", i, before, self.snapshot()))
            return f"ok || {self.all()}"
        raise ValueError(w)


def run_impl(sc):
    assert sc.lines[0].split() == ["scenario", "steps"]
    impl = Impl()
    obs = ["ok"]
    for line in sc.lines[1:]:
        obs.append(impl.line(line.split()))
    sc.meta["trace"] = impl.trace
    return obs


# --------------------------------------------------------------------------------------------
# generators

LEVEL_OPTS = ["000", "100", "110", "101", "111"]


def fmt_class(levels):
    return "class " + (" ".join(levels) if levels else "-")


def has_body(levels):
    return any(l[0] == "1" for l in levels)


def pattern(levels, which):
    """three call patterns on two instances of the same class (interleaved)"""
    L = ["scenario steps", fmt_class(levels)]
    hb = has_body(levels)
    if which == 0:
        L += ["new 0 9", "new 0 9", "step 0", "step 1", "step 0", "step 0", "step 1"]
    elif which == 1:
        L += ["new 0 9", "new 0 9", "step 0 5", "step 1", "step 1 3 7", "step 0 4", "step 0", "step 1 1 2", "step 0 6 8"]
    else:
        L += ["new 0 3", "new 0 2", "step 1"]
        L += ["run 0", "run 0", "run 1", "rearm 0 2", "run 0", "step 1", "rearm 1 1", "run 1"] if hb else ["halt 0", "run 0", "step 1", "halt 1", "run 1"]
        L += ["step 0"]
    return core.Scenario(L, {"exhaustive": True})


def all_shapes(max_depth=4):
    for d in range(max_depth + 1):
        yield from itertools.product(LEVEL_OPTS, repeat=d)


def builtin_corpus():
    return [pattern(list(sh), w) for sh in all_shapes() for w in range(3)]


def gen_scenario(R):
    L = ["scenario steps"]
    ncls = R.choice([1, 1, 2, 3])
    shapes = []
    for _ in range(ncls):
        d = R.choice([0, 1, 2, 3, 4, 5, 6])
        # favour overriding, super-calling levels so that chains are long
        lv = [R.choice(LEVEL_OPTS + ["110", "111", "110"]) for _ in range(d)]
        shapes.append(lv)
        L.append(fmt_class(lv))
    ninst = R.choice([1, 2, 2, 3, 4])
    insts = []
    for _ in range(ninst):
        c = R.randrange(ncls)
        insts.append({"c": c, "hb": has_body(shapes[c]), "running": True})
        L.append(f"new {c} {R.choice([1, 2, 3, 5, 8])}")
    for _ in range(R.randrange(5, 26)):
        i = R.randrange(ninst)
        x = insts[i]
        k = R.random()
        if k < 0.55:
            na = R.choice([0, 0, 0, 1, 1, 2])
            L.append(" ".join(["step", str(i)] + [str(R.randrange(0, 9)) for _ in range(na)]))
        elif k < 0.75:
            if not x["hb"]:
                L.append(f"halt {i}")  # nothing would ever clear `running`
            else:
                L.append(f"rearm {i} {R.choice([1, 2, 3, 6])}")  # makes sure the loop has work and an end
            L.append(f"run {i}")
        elif k < 0.85 and x["hb"]:
            L.append(f"rearm {i} {R.choice([1, 2, 4])}")
        elif k < 0.92:
            L.append(f"halt {i}")
            L.append(f"run {i}")
        else:
            L.append(f"step {i}")
    return core.Scenario(L, {})


def generate(rng, tier, count):
    for _ in range(count):
        yield gen_scenario(rng)


# --------------------------------------------------------------------------------------------
# oracle


def expected_chain_ok(levels, rec, args, out):
    """structural clauses on the bodies one call executed (depth order, super links, arguments)"""
    bad = []
    depths = [d for d, _, _ in rec]
    over = [d for d, l in enumerate(levels) if l[0]]
    if any(d not in over for d in depths):
        bad.append(f"chain: a level that does not define step ran: {depths}")
    if depths != sorted(set(depths)):
        bad.append(f"chain: bodies ran out of MRO order or twice: {depths}")
    if not over and rec:
        bad.append("chain: step is not overridden but user code ran")
    if over and out == "ok" and (not rec or rec[0][0] != over[0]):
        bad.append(f"chain: the most derived step (level {over[0]}) did not run first: {depths}")
    for (d1, _, a1), (d2, _, a2) in zip(rec, rec[1:]):
        nxt = next((d for d in over if d > d1), None)
        if not levels[d1][1] or nxt != d2:
            bad.append(f"chain: level {d2} ran after level {d1} without a super() link")
        if a2 != (a1 if levels[d1][2] else ()):
            bad.append(f"args: level {d2} received {a2}, level {d1} forwarded {a1 if levels[d1][2] else ()}")
    if rec and out == "ok":
        d, _, a = rec[-1]
        nxt = next((x for x in over if x > d), None)
        if levels[d][1] and nxt is not None:
            bad.append(f"chain: level {d} calls super().step() but level {nxt} did not run")
    if rec and tuple(rec[0][2]) != tuple(args):
        bad.append(f"args: step{tuple(args)} reached the first body as {rec[0][2]}")
    return bad


def oracle(sc, obs):
    bad = []
    levels_of = {}
    for ev in sc.meta.get("trace") or []:
        k = ev[0]
        if k == "new":
            levels_of[ev[1]] = ev[2]
            continue
        if k == "runaway":
            running0 = ev[2][ev[1]][1]
            bad.append(f"run: run_model on model {ev[1]} (running={running0} when called) was still stepping after 200 calls")
            continue
        i = ev[1]
        before, after = ev[-2], ev[-1]
        for j, (b, a) in enumerate(zip(before, after)):
            if j != i and b != a:
                bad.append(f"frame: `{k} {i}` changed model {j}: {b} -> {a}")
        s0, r0, e0, stop0 = before[i]
        s1, r1, e1, _ = after[i]
        if k == "step":
            _, _, args, out, rec, _, _ = ev
            if s1 != s0 + 1:
                bad.append(f"count: one step() call took steps from {s0} to {s1}")
            for d, s, _a in rec:
                if s != s0 + 1:
                    bad.append(f"before-user-code: body of level {d} saw steps={s}, the call started at {s0}")
            bad += expected_chain_ok(levels_of[i], rec, args, out)
        elif k == "run":
            _, _, rec, _, _ = ev
            calls = s1 - s0
            if not r0:
                if calls or rec:
                    bad.append(f"run: run_model stepped {calls} times although running was already false")
                continue
            if r1:
                bad.append("run: run_model returned while running is still true")
            seen = sorted({s for _, s, _ in rec})
            if seen != list(range(s0 + 1, s1 + 1)):
                bad.append(f"run: {calls} calls but bodies saw steps {seen}")
            # the stop rule fires at the execution that makes execs reach stop_at (or at the first one if already past)
            fire = max(stop0 - e0, 1)
            if len(rec) < fire or rec[fire - 1][1] != s1:
                bad.append(f"run: running was cleared at execution {fire} (call {rec[fire - 1][1] - s0 if len(rec) >= fire else '?'}) but run_model made {calls} calls")
            per = {}
            for d, s, a in rec:
                per.setdefault(s, []).append((d, s, a))
            for s, r in per.items():
                bad += expected_chain_ok(levels_of[i], r, (), "ok")
        elif k in ("rearm", "halt"):
            if s1 != s0:
                bad.append(f"count: `{k}` changed steps")
    return bad


def nontrivial(sc, obs):
    for ev in sc.meta.get("trace") or []:
        if ev[0] == "step" and len(ev[4]) >= 2:
            return True
        if ev[0] == "run" and ev[-1][ev[1]][0] - ev[-2][ev[1]][0] >= 2:
            return True
    return False


def tags(sc, obs):
    yield "exhaustive" if sc.meta.get("exhaustive") else "random"
    lv = {}
    for ev in sc.meta.get("trace") or []:
        if ev[0] == "new":
            lv[ev[1]] = ev[2]
            yield f"depth:{len(ev[2])}"
            if not any(l[0] for l in ev[2]):
                yield "shape:not-overridden"
            elif ev[2] and not ev[2][0][0]:
                yield "shape:inherited-from-intermediate"
        elif ev[0] == "step":
            yield "step:" + ("args" if ev[2] else "noargs") + (":TypeError" if ev[3] != "ok" else "")
            if len(ev[4]) >= 2:
                yield "step:super-chain"
        elif ev[0] == "run":
            yield "run:" + str(min(ev[-1][ev[1]][0] - ev[-2][ev[1]][0], 3)) + ("+" if ev[-1][ev[1]][0] - ev[-2][ev[1]][0] >= 3 else "") + "-calls"


if __name__ == "__main__":
    import sys
    core.main(sys.modules[__name__])
