"""Registry of the functions of mesa that are TRANSLATED into Lean on every check (harness/py2lean.py) and of the
equivalence theorems `generated definition = hand-written model definition` (lean/MesaModel/Proofs/Xlate<Group>.lean).
harness/core.py merges REGISTRY[prop] into steps 1 (regenerate), 2 (build + audit) and into the evidence; the
harness/cXX.py modules are not touched.  See design.d/xlate.md."""
from .py2lean import Fn, Rec

I2 = ("T", "Int", "Int")
LI = ("L", "Int")

# what the legacy grid mutators change: the cell table, the empties set, the mask and the agent's `pos`
SINGLE_STATE = {"self._grid": ("L", ("L", ("O", "Int"))), "self._empties": ("L", I2), "self._empty_mask": ("L", ("L", "Bool")),
                "agent.pos": ("O", I2)}

GROUPS = {
    "Cells": {
        "namespace": "Mesa.Cells.GenFn",
        "path": "MesaModel/Gen/FnCells.lean",
        "recs": [
            Rec("Grid2d", {"dimensions": I2, "torus": "Bool"}),
            Rec("Cell2d", {"coordinate": I2}),
            Rec("GridNd", {"dimensions": LI, "torus": "Bool"}),
            Rec("CellNd", {"coordinate": LI}),
            Rec("GridCells", {"dimensions": LI, "all_cells": ("L", ("R", "CellNd"))}),
            Rec("GridCells2d", {"all_cells": ("L", ("R", "Cell2d"))}),
            Rec("GridShape", {"_ndims": "Int"}),
        ],
        "fns": [
            # the dispatch: which of `self._connect_cells_2d()` / `self._connect_cells_nd()` is called, as the tag 2 / 0
            Fn("C07", "mesa/discrete_space/grid.py", "Grid._connect_cells", "connect_cells", {}, self_rec="GridShape",
               effects={"self._connect_cells_2d": "Int", "self._connect_cells_nd": "Int"},
               effect_tags={"self._connect_cells_2d": 2, "self._connect_cells_nd": 0}),
            # `cell.connect(self._cells[k], key)` is the effect (k, key): cells are named by their key in `_cells`
            Fn("C07", "mesa/discrete_space/grid.py", "Grid._connect_single_cell_2d", "connect_single_cell_2d",
               {"cell": ("R", "Cell2d"), "offsets": ("L", I2)}, self_rec="Grid2d",
               effects={"cell.connect": ("T", I2, I2)}, keyed=("self._cells",)),
            Fn("C07", "mesa/discrete_space/grid.py", "Grid._connect_single_cell_nd", "connect_single_cell_nd",
               {"cell": ("R", "CellNd"), "offsets": ("L", LI)}, self_rec="GridNd",
               effects={"cell.connect": ("T", LI, LI)}, keyed=("self._cells",)),
            # the n-D offset tables: the call `self._connect_single_cell_nd(cell, offsets)` is the effect (cell, offsets)
            Fn("C07", "mesa/discrete_space/grid.py", "OrthogonalMooreGrid._connect_cells_nd", "moore_connect_cells_nd",
               {}, self_rec="GridCells", effects={"self._connect_single_cell_nd": ("T", ("R", "CellNd"), ("L", LI))}),
            Fn("C07", "mesa/discrete_space/grid.py", "OrthogonalVonNeumannGrid._connect_cells_nd", "vn_connect_cells_nd",
               {}, self_rec="GridCells", effects={"self._connect_single_cell_nd": ("T", ("R", "CellNd"), ("L", LI))}),
            # the 2-D paths: literal offset tables (hex: chosen by the parity of coordinate[1]) handed to every cell
            *[Fn("C07", "mesa/discrete_space/grid.py", f"{klass}._connect_cells_2d", f"{name}_connect_cells_2d", {},
                 self_rec="GridCells2d", effects={"self._connect_single_cell_2d": ("T", ("R", "Cell2d"), ("L", I2))},
                 effect_params={"self._connect_single_cell_2d": ("cell", "offsets")})
              for klass, name in (("OrthogonalMooreGrid", "moore"), ("OrthogonalVonNeumannGrid", "vn"), ("HexGrid", "hex"))],
        ],
    },
    "CellOcc": {
        # the occupancy mutators of cell.py on a record standing for one cell; agents are named by creation index (a Nat, as in
        # the hand-written model Model/CellSpace.lean), `raise` is `Except`, the state attributes come back after the value
        "namespace": "Mesa.Cells.GenOcc",
        "path": "MesaModel/Gen/FnCellOcc.lean",
        "recs": [Rec("CellRec", {"coordinate": LI, "_agents": ("L", "Nat"), "capacity": ("O", "Int"), "empty": "Bool"}),
                 Rec("FixedRec", {"unique_id": "Nat", "_mesa_cell": ("O", LI)}),
                 Rec("MoverRec", {"unique_id": "Nat"})],
        "fns": [
            Fn("C06", "mesa/discrete_space/cell.py", "Cell.agents", "agents", {}, self_rec="CellRec"),
            Fn("C06", "mesa/discrete_space/cell.py", "Cell.is_empty", "is_empty", {}, self_rec="CellRec", props={"agents": "agents"}),
            Fn("C06", "mesa/discrete_space/cell.py", "Cell.is_full", "is_full", {}, self_rec="CellRec", props={"agents": "agents"}),
            Fn("C06", "mesa/discrete_space/cell.py", "Cell.add_agent", "add_agent", {"agent": "Nat"}, self_rec="CellRec",
               state={"self._agents": ("L", "Nat"), "self.empty": "Bool"}),
            Fn("C06", "mesa/discrete_space/cell.py", "Cell.remove_agent", "remove_agent", {"agent": "Nat"}, self_rec="CellRec",
               state={"self._agents": ("L", "Nat"), "self.empty": "Bool"}, props={"is_empty": "is_empty"}, list_remove_raises=True),
            # cell_agent.py: `self.cell = cell` is the effect "the `cell` setter runs with this cell" (cells named by their coordinate)
            Fn("C06", "mesa/discrete_space/cell_agent.py", "BasicMovement.move_to", "move_to", {"cell": LI}, self_rec="MoverRec",
               effects={"self.cell=": ("T", LI)}),
            # FixedCell: the getter, and the setter on (agent record, record of the target cell): `cell.add_agent(self)` updates the
            # cell's record (an error is passed on), `self._mesa_cell = cell` stores the cell's name (its coordinate)
            Fn("C06", "mesa/discrete_space/cell_agent.py", "FixedCell.cell", "fixed_cell", {}, self_rec="FixedRec"),
            Fn("C06", "mesa/discrete_space/cell_agent.py", "FixedCell.cell.setter", "fixed_set_cell", {"cell": ("R", "CellRec")},
               self_rec="FixedRec", state={"cell": ("R", "CellRec"), "self._mesa_cell": ("O", LI)}, props={"cell": "cell"},
               self_as="unique_id", ref_key={"CellRec": "coordinate"}),
        ],
    },
    "Legacy": {
        "namespace": "Mesa.Legacy.GenFn",
        "path": "MesaModel/Gen/FnLegacy.lean",
        "recs": [
            Rec("LGrid", {"width": "Int", "height": "Int", "torus": "Bool", "_neighborhood_cache": ("D", ("T", I2, "Bool", "Bool", "Int"), ("L", I2))}),
            # SingleGrid as the mutators see it: `_grid[x][y]` is None or an agent (named by its unique_id), `_empties` the
            # list of the set's members, `_empty_mask` the numpy bool array as a list of rows; an agent: its id and `pos`
            Rec("LSpace", {"width": "Int", "height": "Int", "torus": "Bool", "_grid": ("L", ("L", ("O", "Int"))),
                           "_empties_built": "Bool", "_empties": ("L", I2), "_empty_mask": ("L", ("L", "Bool")),
                           "_neighborhood_cache": ("D", ("T", I2, "Bool", "Bool", "Int"), ("L", I2))}),
            Rec("LAgent", {"unique_id": "Int", "pos": ("O", I2)}),
        ],
        "fns": [
            Fn("C09", "mesa/space.py", "_Grid.out_of_bounds", "out_of_bounds", {"pos": I2}, self_rec="LGrid"),
            Fn("C08", "mesa/space.py", "_Grid.torus_adj", "torus_adj", {"pos": I2}, self_rec="LGrid"),
            Fn("C09", "mesa/space.py", "_Grid.get_neighborhood", "get_neighborhood",
               {"pos": I2, "moore": "Bool", "include_center": "Bool", "radius": "Int"}, self_rec="LGrid",
               state={"self._neighborhood_cache": ("D", ("T", I2, "Bool", "Bool", "Int"), ("L", I2))}),
            # the SingleGrid mutators (group = the methods a SingleGrid instance resolves to)
            Fn("C08", "mesa/space.py", "_Grid.default_val", "default_val", {}, ret=("O", "Int")),
            Fn("C08", "mesa/space.py", "_Grid.is_cell_empty", "is_cell_empty", {"pos": I2}, self_rec="LSpace"),
            Fn("C08", "mesa/space.py", "SingleGrid.place_agent", "place_agent", {"agent": ("R", "LAgent"), "pos": I2},
               self_rec="LSpace", ident={"agent": "unique_id"}, state=dict(SINGLE_STATE)),
            Fn("C08", "mesa/space.py", "SingleGrid.remove_agent", "remove_agent", {"agent": ("R", "LAgent")},
               self_rec="LSpace", ident={"agent": "unique_id"}, state=dict(SINGLE_STATE)),
            # `_Grid.move_agent` on a SingleGrid (torus_adj, then the two mutators above), then `SingleGrid.move_agent`, whose
            # `super().move_agent` is the former
            Fn("C08", "mesa/space.py", "_Grid.move_agent", "move_agent_base", {"agent": ("R", "LAgent"), "pos": I2},
               self_rec="LSpace", ident={"agent": "unique_id"}, state=dict(SINGLE_STATE), may_raise=True),
            Fn("C08", "mesa/space.py", "SingleGrid.move_agent", "move_agent", {"agent": ("R", "LAgent"), "pos": I2},
               self_rec="LSpace", ident={"agent": "unique_id"}, state=dict(SINGLE_STATE), may_raise=True),
        ],
    },
    "Devs": {
        "namespace": "Mesa.Devs.GenFn",
        "path": "MesaModel/Gen/FnDevs.lean",
        "imports": ("MesaModel.Model.Devs", "MesaModel.Model.Heap"),
        "recs": [
            # SimulationEvent is the model's own event record: the attribute ↦ field correspondence is stated here
            Rec("SimEvent", {"time": "Int", "priority": "Int", "unique_id": "Int", "_canceled": "Bool"}, extern="Mesa.Devs.Ev",
                access={"time": "{}.time", "priority": "({}.prio : Int)", "unique_id": "({}.id : Int)", "_canceled": "{}.cancelled"},
                literal="({{ time := {time}, prio := ({priority} : Int).toNat, id := ({unique_id} : Int).toNat, tag := 0, "
                        "isStep := false, cancelled := {_canceled}, dead := false, act := 0, fn := 0 }} : Mesa.Devs.Ev)"),
            Rec("EventList", {"_events": ("L", ("R", "SimEvent"))}),
            Rec("SimulatorRec", {"time": "Int"}),
            # the part of a Simulator that run_next_event / run_until read and write; `model` is only tested for None
            Rec("SimRun", {"time": "Int", "model": ("O", "Int"), "event_list": ("R", "EventList")}),
        ],
        "fns": [
            Fn("C14", "mesa/experimental/devs/eventlist.py", "SimulationEvent.CANCELED", "CANCELED", {}, self_rec="SimEvent"),
            Fn("C14", "mesa/experimental/devs/eventlist.py", "SimulationEvent.__lt__", "lt", {"other": ("R", "SimEvent")},
               self_rec="SimEvent"),
            Fn("C14", "mesa/experimental/devs/eventlist.py", "EventList.add_event", "add_event", {"event": ("R", "SimEvent")},
               self_rec="EventList", state={"self._events": ("L", ("R", "SimEvent"))}, order="lt"),
            Fn("C14", "mesa/experimental/devs/eventlist.py", "EventList.pop_event", "pop_event", {}, self_rec="EventList",
               state={"self._events": ("L", ("R", "SimEvent"))}, order="lt", fuel=True, props={"CANCELED": "CANCELED"}),
            Fn("C14", "mesa/experimental/devs/eventlist.py", "EventList.__len__", "len_", {}, self_rec="EventList"),
            Fn("C14", "mesa/experimental/devs/eventlist.py", "EventList.is_empty", "is_empty", {}, self_rec="EventList"),
            Fn("C14", "mesa/experimental/devs/eventlist.py", "EventList.peak_ahead", "peak_ahead", {"n": "Int"}, self_rec="EventList",
               order="lt", props={"CANCELED": "CANCELED"}),
            # simulator.py: `self.run_until(end_time)` is the effect (end_time)
            Fn("C15", "mesa/experimental/devs/simulator.py", "Simulator.run_for", "run_for", {"time_delta": "Int"},
               self_rec="SimulatorRec", effects={"self.run_until": ("T", "Int")}, effect_params={"self.run_until": ("end_time",)}),
            # `event.execute()` is the effect "this event is executed" (the receiver is recorded); `self.event_list.pop_event()` in
            # a try / except IndexError is a match on the result of the translated pop_event
            Fn("C14", "mesa/experimental/devs/simulator.py", "Simulator.run_next_event", "run_next_event", {}, self_rec="SimRun",
               state={"self.time": "Int", "self.event_list._events": ("L", ("R", "SimEvent"))},
               effects={"event.execute": ("T", ("R", "SimEvent"))}, effect_self=("event.execute",),
               obj_calls={"self.event_list.pop_event": ("pop_event", "EventList", ("self.event_list._events",), "({0}.length + 1)")}),
            # `event.execute()` re-enters the simulator: a function parameter `exec_` acting on (time, _events, world_); the fuel of the
            # inner pop_event is its own termination measure (C14_gen_pop_event_fuel_adequate), `fuel` bounds the `while True`;
            # `self._schedule_event(event)` (re-scheduling the popped event) is the translated add_event: its `_check_unit` accepted
            # this very event when it was scheduled and is not re-modelled
            Fn("C14", "mesa/experimental/devs/simulator.py", "Simulator.run_until", "run_until", {"end_time": "Int"}, self_rec="SimRun",
               state={"self.time": "Int", "self.event_list._events": ("L", ("R", "SimEvent"))},
               callback={"event.execute": "exec_"}, callback_recv_ty=("R", "SimEvent"),
               state_calls={"self._schedule_event": ("add_event", "EventList", ("self.event_list._events",))},
               obj_calls={"self.event_list.pop_event": ("pop_event", "EventList", ("self.event_list._events",), "({0}.length + 1)")},
               fuel=True),
        ],
    },
    "Steps": {
        "namespace": "Mesa.Steps.GenFn",
        "path": "MesaModel/Gen/FnSteps.lean",
        "recs": [Rec("ModelRec", {"steps": "Int"})],
        "fns": [
            # `self._user_step(*args, **kwargs)` is the effect "the user's step runs, sees self.steps = <value> and is handed
            # these positional and keyword arguments" (keyword names coded as ints by the self-test: "k3" ↦ 3)
            Fn("C05", "mesa/model.py", "Model._wrapped_step", "wrapped_step", {}, self_rec="ModelRec",
               state={"self.steps": "Int"}, snapshot={"self._user_step": ["self.steps"]},
               varargs={"args": LI, "kwargs": ("L", ("T", "Int", "Int"))}, ignore_calls=("_mesa_logger.info",)),
        ],
    },
}

REGISTRY = {
    "C06": {
        "groups": ["CellOcc"],
        "functions": ["Cell.agents", "Cell.is_empty", "Cell.is_full", "Cell.add_agent", "Cell.remove_agent",
                      "BasicMovement.move_to", "FixedCell.cell", "FixedCell.cell.setter"],
        "lean_modules": ["MesaModel.Proofs.XlateCellOcc"],
        "theorems": ["Mesa.Cells." + t for t in (
            "C06_gen_agents_eq_model", "C06_gen_is_empty_eq_model", "C06_gen_is_full_eq_model", "C06_gen_add_agent_eq_model",
            "C06_gen_remove_agent_eq_model", "C06_model_mutators_are_generated", "C06_capacity_generated",
            "C06_empty_flag_generated", "C18_cells_rejected_mutator_generated", "C06_gen_move_to_eq_model",
            "C06_capacity_generated_any_int", "C06_gen_fixed_cell_eq_model", "C06_gen_fixed_set_cell_eq_model",
            "C18_cells_fixed_set_cell_reject_generated")],
    },
    "C05": {
        "groups": ["Steps"],
        "functions": ["Model._wrapped_step"],
        "lean_modules": ["MesaModel.Proofs.XlateSteps"],
        "theorems": ["Mesa.Steps." + t for t in ("C05_gen_wrapped_step_eq_model", "C05_increment_before_user_code_generated")],
    },
    "C18": {
        # C18-cells over the generated text: a rejected add_agent / remove_agent leaves the cell's record unchanged
        "groups": ["CellOcc"],
        "functions": ["Cell.add_agent", "Cell.remove_agent", "FixedCell.cell.setter"],
        "lean_modules": ["MesaModel.Proofs.XlateCellOcc"],
        "theorems": ["Mesa.Cells." + t for t in (
            "C06_gen_add_agent_eq_model", "C06_gen_remove_agent_eq_model", "C18_cells_rejected_mutator_generated",
            "C06_gen_fixed_set_cell_eq_model", "C18_cells_fixed_set_cell_reject_generated")],
    },
    "C08": {
        "groups": ["Legacy"],
        "functions": ["_Grid.out_of_bounds", "_Grid.torus_adj", "_Grid.default_val", "_Grid.is_cell_empty",
                      "SingleGrid.place_agent", "SingleGrid.remove_agent", "_Grid.move_agent", "SingleGrid.move_agent"],
        "lean_modules": ["MesaModel.Proofs.XlateLegacy"],
        "theorems": ["Mesa.Legacy." + t for t in (
            "C08_gen_out_of_bounds_eq_model", "C08_gen_torus_adj_eq_model",
            "C08_gen_is_cell_empty_eq_model", "C08_gen_place_agent_eq_model", "C08_gen_remove_agent_eq_model",
            "C08_place_agent_views_generated", "C08_remove_agent_views_generated",
            "C18_place_agent_rejected_unchanged_generated",
            "C08_gen_move_agent_base_eq_model", "C08_gen_move_agent_eq_model", "C18_move_agent_rejected_unchanged_generated")],
    },
    "C14": {
        "groups": ["Devs"],
        "functions": ["SimulationEvent.CANCELED", "SimulationEvent.__lt__", "EventList.add_event", "EventList.pop_event",
                      "EventList.__len__", "EventList.is_empty", "EventList.peak_ahead", "Simulator.run_next_event", "Simulator.run_until"],
        "lean_modules": ["MesaModel.Proofs.XlateDevs"],
        "theorems": ["Mesa.Devs." + t for t in (
            "C14_gen_CANCELED_eq_model", "C14_gen_lt_eq_model", "C14_gen_add_event_eq_model", "C14_gen_pop_event_eq_model",
            "C14_gen_pop_event_fuel_adequate", "C14_pop_event_index_iff_generated",
            "C14_gen_len_eq_model", "C14_gen_is_empty_eq_model", "C14_add_event_generated", "C14_pop_event_generated",
            "C14_gen_peak_ahead_eq_model",
            "C14_gen_run_next_event_eq_model", "C14_gen_run_next_event_guard", "C14_run_next_event_generated",
            "C14_gen_run_until_eq_model", "C14_gen_run_until_guard", "C14_run_until_generated")],
    },
    "C15": {
        "groups": ["Devs"],
        "functions": ["Simulator.run_for", "Simulator.run_until"],
        "lean_modules": ["MesaModel.Proofs.XlateDevs"],
        "theorems": ["Mesa.Devs.C15_gen_run_for_eq_model", "Mesa.Devs.C14_gen_run_until_eq_model", "Mesa.Devs.C15_chunking_generated"],
    },
    "C09": {
        "groups": ["Legacy"],
        "functions": ["_Grid.out_of_bounds", "_Grid.get_neighborhood"],
        "lean_modules": ["MesaModel.Proofs.XlateLegacy"],
        "theorems": ["Mesa.Legacy." + t for t in (
            "C09_gen_out_of_bounds_eq_model", "C09_gen_get_neighborhood_eq_model", "C09_orth_spec_generated")],
    },
    "C07": {
        "groups": ["Cells"],
        "functions": ["Grid._connect_cells", "Grid._connect_single_cell_2d", "Grid._connect_single_cell_nd",
                      "OrthogonalMooreGrid._connect_cells_nd", "OrthogonalVonNeumannGrid._connect_cells_nd",
                      "OrthogonalMooreGrid._connect_cells_2d", "OrthogonalVonNeumannGrid._connect_cells_2d",
                      "HexGrid._connect_cells_2d"],
        "lean_modules": ["MesaModel.Proofs.XlateCells"],
        "theorems": ["Mesa.Cells." + t for t in (
            "C07_gen_connect_cells_eq_model", "C07_gen_connect_single_cell_2d_eq_model", "C07_gen_connect_single_cell_nd_eq_model",
            "C07_gen_moore_connect_cells_nd_eq_model", "C07_gen_vn_connect_cells_nd_eq_model",
            "C07_gen_connect_cells_2d_eq_model", "C07_connect_spec_generated", "C07_offsets_spec_generated",
            "C07_grid_connections_generated", "C07_grid_connections_generated_all")],
    },
}

TRUSTED = [
    "harness/py2lean.py (Python→Lean translator for the subset in its docstring; types, effects and `keyed` dicts of each "
    "function from harness/xlate_registry.py) and lean/MesaModel/Base/PyPrim.lean (the primitives it maps to); tied to "
    "CPython by harness/xlate_selftest.py: every generated definition is evaluated against the real function on random "
    "and boundary inputs on every check",
]


def regenerate(prop, repo):
    """({relative lean path: content}, [info per function], [problems]) for the groups of a property"""
    import os
    from . import py2lean
    files, infos, problems = {}, [], []
    for gname in REGISTRY[prop]["groups"]:
        g = GROUPS[gname]
        text, inf, prob = py2lean.generate_group(repo, g, gname)
        files[g["path"]] = text
        infos += inf
        problems += prob
    return files, infos, problems


def diagnose(prop, build_output, lean_dir):
    """which equivalence theorems / generated definitions a failed `lake build` points at"""
    import os
    import re
    bad = []
    for m in re.finditer(r"error: (?:\./)?([\w/.]+\.lean):(\d+):\d+: (.*)", build_output):
        path, line, msg = m.group(1), int(m.group(2)), m.group(3)
        try:
            src = open(os.path.join(lean_dir, path)).read().splitlines()
        except OSError:
            continue
        name = None
        for l in src[:line]:
            mm = re.match(r"\s*(?:theorem|def)\s+(\S+)", l)
            if mm:
                name = mm.group(1)
        item = f"{path}:{line} `{name}`: {msg[:160]}"
        if item not in bad:
            bad.append(item)
    fns = [fn for g in REGISTRY[prop]["groups"] for fn in GROUPS[g]["fns"]]
    hit = [fn.qualname for fn in fns if any(f"gen_{fn.name}_" in b or f"`{fn.name}`" in b for b in bad)]
    return {"reason": "generated definition / equivalence theorem no longer checks: " + ("; ".join(bad[:6]) or "see build_output"),
            "functions": hit or [fn.qualname for fn in fns], "theorems": list(REGISTRY[prop]["theorems"])}
