"""Implementation runner, generators and oracles shared by C12 / C13 / C18-collect.

Protocol: see lean/Driver/Collect.lean.  Names are small ints: model attribute a is `x<a>`, agent
attribute a is `v<a>`, reporters are `m<i>` / `a<i>` / `t<T>_<i>` in dictionary order, table t is
`T<t>` with columns `c<k>`, classes are `C<i>`, batch parameters are `p<n>`.
"""
from __future__ import annotations

import copy
import functools
import math
import os
import types

from . import core

core.import_mesa()
import mesa  # noqa: E402
from mesa.datacollection import DataCollector  # noqa: E402


class BadOp(Exception):
    pass


# ----------------------------------------------------------------------------------------
# values


def parse_val(s):
    if s == "N":
        return None
    if s.startswith("L"):
        return [] if s == "L" else [int(x) for x in s[1:].split(",")]
    return int(s)


def fmt_val(v):
    """canonical form of a value that came out of the implementation (pandas may have turned
    None into NaN and ints into floats or numpy ints)"""
    if v is None:
        return "N"
    if isinstance(v, tuple | list) and len(v) == 1 and isinstance(v[0], list):
        v = v[0]  # see mk_mrep: a list handed out inside a 1-tuple / as the only item of a list (a list of lists)
    if isinstance(v, list | tuple):
        return "L" + ",".join(str(int(x)) for x in v)
    if isinstance(v, float):
        if math.isnan(v):
            return "N"
        if v == int(v):
            return str(int(v))
        return repr(v)
    try:
        import numpy as np

        if isinstance(v, np.integer):
            return str(int(v))
        if isinstance(v, np.floating):
            return fmt_val(float(v))
    except ImportError:
        pass
    if isinstance(v, bool):
        return repr(v)
    if isinstance(v, int):
        return str(v)
    return "?" + repr(v)


def fmt_vals(vs):
    return "|".join(fmt_val(v) for v in vs)


def to_int(s):
    try:
        return int(s)
    except ValueError:
        raise BadOp(s)


def to_nat(s):
    n = to_int(s)
    if n < 0 or not s.isdigit():
        raise BadOp(s)
    return n


def parse_pair(w):
    parts = w.split("=")
    if len(parts) != 2:
        raise BadOp(w)
    try:
        return to_nat(parts[0]), parse_val(parts[1])
    except ValueError:
        raise BadOp(w)


# ----------------------------------------------------------------------------------------
# the reporter function families (the same ones the driver interprets)


def F_eval(f, m):
    k = f[0]
    if k == "count":
        return len(m.agents)
    if k == "steps":
        return m.steps
    if k == "sum":
        name = f"v{f[1]}"
        return sum(v for a in m.agents if type(v := getattr(a, name, None)) is int)
    if k == "get":
        return getattr(m, f"x{f[1]}", None)
    if k == "req":
        return getattr(m, f"x{f[1]}")  # AttributeError when the attribute is missing
    raise BadOp(f)


def G_eval(g, k, d, m):
    if g[0] == "lin":
        v = getattr(m, f"x{g[1]}", None)
        return k * v + d if type(v) is int else None
    if g[0] == "lreq":
        v = getattr(m, f"x{g[1]}")
        return k * v + d if type(v) is int else None
    if g[0] == "cnt":
        return k * len(m.agents) + d
    raise BadOp(g)


def A_eval(f, a):
    k = f[0]
    if k == "get":
        return getattr(a, f"v{f[1]}", None)
    if k == "req":
        return getattr(a, f"v{f[1]}")
    if k == "id":
        return a.unique_id
    if k == "twice":
        v = getattr(a, f"v{f[1]}", None)
        return 2 * v if type(v) is int else None
    if k == "steps":
        return a.model.steps
    raise BadOp(f)


def AG_eval(g, a, k, d):
    if g[0] == "lin":
        v = getattr(a, f"v{g[1]}", None)
        return k * v + d if type(v) is int else None
    if g[0] == "lreq":
        v = getattr(a, f"v{g[1]}")
        return k * v + d if type(v) is int else None
    raise BadOp(g)


def check_fn(kind, f):
    ok = {
        "F": {"count": 1, "steps": 1, "sum": 2, "get": 2, "req": 2},
        "G": {"lin": 2, "cnt": 1, "lreq": 2},
        "A": {"get": 2, "id": 1, "twice": 2, "steps": 1, "req": 2},
        "AG": {"lin": 2, "lreq": 2},
    }[kind]
    if not f or f[0] not in ok or len(f) != ok[f[0]]:
        raise BadOp(f)
    return (f[0], *[to_nat(x) for x in f[1:]])


def parse_rep(level, ws):
    """level 'm' or 'a' -> ('attr', a) | ('fn', f) | ('part', f) (model level only) | ('meth', f) | ('args', k, d, g)"""
    if not ws:
        raise BadOp(ws)
    if ws[0] == "attr" and len(ws) == 2:
        return ("attr", to_nat(ws[1]))
    if ws[0] in ("fn", "meth") or (ws[0] == "part" and level == "m"):
        return (ws[0], check_fn("F" if level == "m" else "A", ws[1:]))
    if ws[0] == "args" and len(ws) >= 4:
        return ("args", to_int(ws[1]), to_int(ws[2]), check_fn("G" if level == "m" else "AG", ws[3:]))
    raise BadOp(ws)


def split_semi(ws):
    return [p.split() for p in " ".join(ws).split(";") if p.split()]


def direct_m(rep, m):
    """what evaluating the reporter directly on the model yields"""
    if rep[0] == "attr":
        return getattr(m, f"x{rep[1]}", None)
    if rep[0] in ("fn", "part", "meth"):
        return F_eval(rep[1], m)
    return G_eval(rep[3], rep[1], rep[2], m)


def direct_a(rep, a):
    if rep[0] == "attr":
        return getattr(a, f"v{rep[1]}", None)
    if rep[0] in ("fn", "meth"):
        return A_eval(rep[1], a)
    return AG_eval(rep[3], a, rep[1], rep[2])


def mk_mrep(rep, model, idx):
    """the reporter object handed to DataCollector, one of the four documented forms"""
    if rep[0] == "attr":
        return f"x{rep[1]}"
    if rep[0] == "fn":
        f = rep[1]
        # a reporter that hands out a NESTED value whose inner object is the live mutable list: as a list of lists
        # `[model.xa]` for an odd attribute number (any position), inside an (immutable) 1-tuple for an even one at an odd
        # position.  The stored value must still be immune to a later `model.xa.append(..)` = an append to the INNER list
        # (a shallow copy shares it; the Lean counterpart is `C12_shallow_copy_not_immune`).  fmt_val unwraps the wrapper
        # again: the driver's model keeps immutable values, which `C12_deepcopy_makes_stored_values_immune` (any depth)
        # justifies.
        as_list = len(f) > 1 and f[-1] % 2 == 1

        def value(m, f_=f):
            v = F_eval(f_, m)
            if as_list and isinstance(v, list):
                return [v]
            return v

        if idx % 2 == 1:
            def wrapped(m):
                v = value(m)
                return (v,) if isinstance(v, list) and not as_list else v

            return wrapped
        if idx % 3 == 0:
            return lambda m: value(m)
        if idx % 3 == 1:

            def plain(m):
                return value(m)

            return plain
        return lambda m, f_=f: value(m, f_)
    if rep[0] == "part":
        # not a types.LambdaType: the validation of the first collect does not call it
        return functools.partial(F_eval, rep[1])
    if rep[0] == "meth":
        f = rep[1]
        if idx % 2 == 0:
            # a bound method with a further, defaulted parameter (`def population(self, kind=None)`): it is called without
            # arguments; handing it the model as `kind` changes what it reports
            def meth(self, kind=None):
                return F_eval(f, self) if kind is None else -777777

            return types.MethodType(meth, model)
        return types.MethodType(lambda self: F_eval(f, self), model)
    _, k, d, g = rep
    return [types.MethodType(lambda self, k_, d_: G_eval(g, k_, d_, self), model), [k, d]]


def tname(T, i):
    """name of the i-th agent-type reporter of class T.  Odd classes reuse the names of the agent-level reporters (a0, a1, …):
    the two kinds of reporter live in separate tables of the DataCollector and must not disturb each other"""
    return f"a{i}" if T % 2 == 1 else f"t{T}_{i}"


def mk_arep(rep, base_cls, tag):
    if rep[0] == "attr":
        return f"v{rep[1]}"
    if rep[0] == "fn":
        f = rep[1]
        return lambda a: A_eval(f, a)
    if rep[0] == "meth":
        f = rep[1]

        def method(self):
            return A_eval(f, self)

        name = f"rep_{tag}"
        setattr(base_cls, name, method)
        return getattr(base_cls, name)  # "method of a class": Cls.method, called with the agent
    _, k, d, g = rep
    return [lambda a, k_, d_: AG_eval(g, a, k_, d_), [k, d]]


# ----------------------------------------------------------------------------------------
# scenario header


class Spec:
    def __init__(self):
        self.parents = []
        self.mreps, self.areps, self.treps, self.tables = [], [], [], []
        self.init_t, self.body_t, self.params = [], [], []

    def define(self, ws):
        k = ws[0]
        if k == "classes":
            ps = []
            for i, w in enumerate(ws[1:]):
                if w == "-":
                    ps.append(None)
                else:
                    bases = [to_nat(x) for x in w.split("+")]
                    if any(p >= i for p in bases) or len(set(bases)) != len(bases):
                        raise BadOp(ws)
                    ps.append(bases[0] if len(bases) == 1 else tuple(bases))  # several bases: multiple inheritance
            self.parents = ps
        elif k == "mrep":
            self.mreps.append(parse_rep("m", ws[1:]))
        elif k == "arep":
            self.areps.append(parse_rep("a", ws[1:]))
        elif k == "trep":
            if len(ws) < 2:
                raise BadOp(ws)
            T = to_nat(ws[1])
            if any(t == T for t, _ in self.treps):
                raise BadOp(ws)
            self.treps.append((T, [parse_rep("a", r) for r in split_semi(ws[2:])]))
        elif k == "table":
            if len(ws) < 2:
                raise BadOp(ws)
            self.tables.append((to_nat(ws[1]), [to_nat(c) for c in ws[2:]]))
        else:
            raise BadOp(ws)


DEF_WORDS = ("classes", "mrep", "arep", "trep", "table")


RAISED = "!raised"


def try_direct(thunk):
    try:
        return thunk()
    except AttributeError:
        return RAISED


def silent(c):
    """a collect about which C12 says nothing: a reporter raises when evaluated directly and the call did raise"""
    return c["outcome"] != "ok" and c.get("phase") is not None


class NotAnAgent:
    """stands for any type that is not an Agent subclass"""


class _Backed:
    def __init__(self, name):
        self.key = "_backed_" + name

    def __get__(self, obj, owner):
        if obj is None:
            return self
        try:
            return obj.__dict__[self.key]
        except KeyError:
            raise AttributeError(self.key) from None

    def __set__(self, obj, value):
        obj.__dict__[self.key] = value

    def __delete__(self, obj):
        try:
            del obj.__dict__[self.key]
        except KeyError:
            raise AttributeError(self.key) from None


class _DrawnShuffle:
    """stands in for the AgentSet's random source: `shuffle` draws a fixed permutation"""

    def __init__(self, kind, perm=None):
        self.kind = kind
        self.perm = perm

    def shuffle(self, lst):
        if self.kind == "perm":
            # the draw: position perm[j] goes to position j; anything but a permutation of the positions is not a draw
            if sorted(self.perm) == list(range(len(lst))):
                lst[:] = [lst[i] for i in self.perm]
        elif self.kind == "rev":
            lst.reverse()
        elif lst:
            lst.append(lst.pop(0))


def _int_key(a):
    def key(agent):
        v = getattr(agent, f"v{a}", None)
        return v if type(v) is int else 0

    return key


def reorder_agents(m, ws):
    """in-place reorderings of model.agents through the public AgentSet calls"""
    kind, ags = ws[1], m.agents
    if (kind in ("rev", "rot") and len(ws) == 2) or (kind == "perm" and len(ws) in (2, 3)):
        perm = [to_nat(x) for x in ws[2].split(",")] if len(ws) == 3 else []
        saved = ags.random
        ags.random = _DrawnShuffle(kind, perm)
        try:
            ags.shuffle(inplace=True)
        finally:
            ags.random = saved
    elif kind in ("ida", "idd") and len(ws) == 2:
        ags.sort("unique_id", ascending=(kind == "ida"), inplace=True)
    elif kind in ("ata", "atd") and len(ws) == 3:
        ags.sort(_int_key(to_nat(ws[2])), ascending=(kind == "ata"), inplace=True)
    else:
        raise BadOp(ws)


class World:
    """a real mesa Model + DataCollector built from a Spec; executes ops; logs what each collect saw"""

    def __init__(self, spec, model):
        self.spec, self.model = spec, model
        base = type("Base", (mesa.Agent,), {})
        # attribute v1 is a class-level descriptor (a property backed by the instance dict under another key): it
        # reads, writes, deletes and goes missing exactly like a plain attribute, but it is not in vars(agent) — a
        # reporter must evaluate it the way direct attribute access does
        base.v1 = _Backed("v1")
        self.classes = []
        for i, p in enumerate(spec.parents):
            bases = (base,) if p is None else tuple(self.classes[q] for q in (p if isinstance(p, tuple) else (p,)))
            try:
                self.classes.append(type(f"C{i}", bases, {}))
            except TypeError:
                raise BadOp(f"no consistent MRO for class {i}") from None
        self.other = {}
        mr = {f"m{i}": mk_mrep(r, model, i) for i, r in enumerate(spec.mreps)}
        ar = {f"a{i}": mk_arep(r, base, f"a{i}") for i, r in enumerate(spec.areps)}
        tr = {}
        for T, reps in spec.treps:
            tr[self.type_key(T)] = {tname(T, i): mk_arep(r, base, tname(T, i)) for i, r in enumerate(reps)}
        tabs = {}
        for t, cols in spec.tables:
            tabs[f"T{t}"] = [f"c{c}" for c in cols]
        # None / {} as a user would pass them
        self.dc = DataCollector(model_reporters=mr or None, agent_reporters=ar or None,
                                agenttype_reporters=tr or None, tables=tabs or None)
        self.handles = {}
        self.reordered = False  # model.agents was reordered in place at some point
        self.collects = []  # what every collect() call saw, evaluated directly
        self.inner_changes = []  # in-place appends to a model list that changed what the collector holds (must stay empty)
        self.inner_appends = 0  # in-place appends made while the collector held a nested value (list in a tuple / in a list)
        self.table_log = []  # (table, row dict or None if rejected, kind)

    def type_key(self, T):
        if T < len(self.classes):
            return self.classes[T]
        if T not in self.other:
            self.other[T] = type(f"NotAgent{T}", (NotAnAgent,), {})
        return self.other[T]

    def type_index(self, a):
        return self.classes.index(type(a))

    def snapshot(self):
        """what evaluating every reporter directly yields at this moment (RAISED where that raises)"""
        m = self.model
        sp = self.spec
        snap = {
            "step": m.steps,
            "reordered": self.reordered,
            "m": [try_direct(lambda r=r: copy.deepcopy(direct_m(r, m))) for r in sp.mreps],
            "agents": [(a.unique_id, self.type_index(a), [try_direct(lambda r=r, a=a: direct_a(r, a)) for r in sp.areps])
                       for a in m.agents],
            "types": {
                T: [(a.unique_id, self.type_index(a), [try_direct(lambda r=r, a=a: direct_a(r, a)) for r in reps])
                    for a in m.agents if T < len(self.classes) and isinstance(a, self.classes[T])]
                for T, reps in sp.treps
            },
        }
        # the first phase of a collect in which a reporter raises when evaluated directly (C12 is silent about such a collect)
        if any(v is RAISED for v in snap["m"]):
            snap["phase"] = "m"
        elif any(v is RAISED for _i, _t, vs in snap["agents"] for v in vs):
            snap["phase"] = "a"
        elif any(v is RAISED for rows in snap["types"].values() for _i, _t, vs in rows for v in vs):
            snap["phase"] = "t"
        else:
            snap["phase"] = None
        return snap

    def op(self, ws):
        """execute one op on the implementation; returns the canonical observation"""
        m, k = self.model, ws[0]
        try:
            if k == "create":
                ty = to_nat(ws[1])
                if ty >= len(self.classes):
                    raise BadOp(ws)
                attrs = [parse_pair(w) for w in ws[2:]]
                a = self.classes[ty](m)
                for n, v in attrs:
                    setattr(a, f"v{n}", v)
                self.handles[a.unique_id] = a
            elif k == "remove" and len(ws) == 2:
                i = to_nat(ws[1])
                if i in self.handles:  # (an id that never existed: nothing to call)
                    self.handles[i].remove()  # a second remove() is a no-op in mesa
            elif k == "step" and len(ws) == 1:
                m.steps += 1
            elif k == "mset" and len(ws) == 3:
                setattr(m, f"x{to_nat(ws[1])}", parse_val(ws[2]))
            elif k == "mapp" and len(ws) == 3:
                a, x = to_nat(ws[1]), to_int(ws[2])
                append = getattr(m, f"x{a}").append
                # C12 clause "stored value unchanged after inner append": whatever the collector holds (flat lists, lists
                # inside a tuple, lists of lists) must read the same before and after this in-place mutation
                before = repr(self.dc.model_vars)
                nested = any(isinstance(v, list | tuple) and any(isinstance(x, list) for x in v)
                             for vs in self.dc.model_vars.values() for v in vs)
                append(x)
                after = repr(self.dc.model_vars)
                self.inner_appends += int(nested)
                if before != after:
                    self.inner_changes.append([f"x{a}", x, before, after])
            elif k == "mdel" and len(ws) == 2:
                delattr(m, f"x{to_nat(ws[1])}")
            elif k == "aset" and len(ws) == 4:
                i, a, v = to_nat(ws[1]), to_nat(ws[2]), parse_val(ws[3])
                if i in self.handles:
                    setattr(self.handles[i], f"v{a}", v)
            elif k == "adel" and len(ws) == 3:
                i, a = to_nat(ws[1]), to_nat(ws[2])
                if i in self.handles and hasattr(self.handles[i], f"v{a}"):
                    delattr(self.handles[i], f"v{a}")
            elif k == "collect" and len(ws) == 1:
                snap = self.snapshot()
                self.collects.append(snap)
                snap["outcome"] = "raised"
                try:
                    self.dc.collect(m)
                    snap["outcome"] = "ok"
                except AttributeError:
                    snap["outcome"] = "err Attr"
                    raise
                except RuntimeError:
                    snap["outcome"] = "err Runtime"
                    raise
                except ValueError:
                    snap["outcome"] = "err Value"
                    raise
            elif k == "row" and len(ws) >= 3 and ws[2] in ("ign", "strict"):
                t = to_nat(ws[1])
                pairs = [parse_pair(w) for w in ws[3:]]
                row = {f"c{c}": v for c, v in pairs}
                entry = [t, row, ws[2], "raised"]
                self.table_log.append(entry)
                self.dc.add_table_row(f"T{t}", row, ignore_missing=(ws[2] == "ign"))
                entry[3] = "ok"
            elif k == "stop" and len(ws) == 2:
                if m.steps >= to_nat(ws[1]):
                    m.running = False
            elif k == "reorder" and len(ws) in (2, 3):
                reorder_agents(m, ws)
                self.reordered = True
            else:
                raise BadOp(ws)
        except BadOp:
            raise
        except AttributeError:
            return "err Attr"
        except KeyError:
            return "err Key"
        except ValueError:
            return "err Value"
        except RuntimeError:
            return "err Runtime"
        except Exception as e:  # DataCollector raises bare Exceptions for tables
            if type(e) is Exception and "Table does not exist" in str(e):
                return "err Unknown"
            if type(e) is Exception and "missing column" in str(e):
                return "err Missing"
            raise
        return "ok"

    # observations ---------------------------------------------------------------------
    def observe(self, ws):
        dc, sp = self.dc, self.spec
        k = ws[0]
        if k == "mvars" and len(ws) == 1:
            if list(dc.model_vars) != [f"m{i}" for i in range(len(sp.mreps))]:
                return "ok keys=" + ",".join(dc.model_vars)
            return " ".join(["ok"] + [f"{n}={fmt_vals(vs)}" for n, vs in dc.model_vars.items()])
        if k == "mframe" and len(ws) == 1:
            try:
                df = dc.get_model_vars_dataframe()
            except UserWarning:
                return "err Warn"
            except ValueError:
                return "err Value"
            return fmt_colframe(df, [f"m{i}" for i in range(len(sp.mreps))])
        if k == "aframe" and len(ws) == 1:
            try:
                df = dc.get_agent_vars_dataframe()
            except UserWarning:
                return "err Warn"
            return fmt_rowframe(df, [f"a{i}" for i in range(len(sp.areps))])
        if k == "tframe" and len(ws) == 2:
            T = to_nat(ws[1])
            df = dc.get_agenttype_vars_dataframe(self.type_key(T))
            reps = dict(sp.treps).get(T)
            if reps is None:
                return "ok none" if (df.shape == (0, 0)) else "ok weird-empty"
            return fmt_rowframe(df, [tname(T, i) for i in range(len(reps))])
        if k == "tab" and len(ws) == 2:
            t = to_nat(ws[1])
            try:
                df = dc.get_table_dataframe(f"T{t}")
            except ValueError:
                return "err Value"
            except Exception as e:
                if type(e) is Exception and "No such table" in str(e):
                    return "err Unknown"
                raise
            cols = next(c for tt, c in self.final_tables() if tt == t)
            return fmt_colframe(df, [f"c{c}" for c in cols])
        return None

    def final_tables(self):
        """tables as a dict would hold them (later definition of the same name / column wins in place)"""
        d = {}
        for t, cols in self.spec.tables:
            d[t] = list(dict.fromkeys(cols))
        return list(d.items())


def fmt_colframe(df, names):
    """frame built from a dict of columns: index must be 0..n-1, columns the given names"""
    n = len(df)
    extra = []
    if list(df.columns) != names:
        extra.append("cols=" + ",".join(map(str, df.columns)))
    if list(df.index) != list(range(n)):
        extra.append("index=" + ",".join(map(str, df.index)))
    cols = [f"{c}={fmt_vals(df[c].tolist())}" for c in df.columns] if not extra else []
    return " ".join([f"ok n={n}"] + extra + cols)


def fmt_rowframe(df, names):
    """frame built from records: (Step, AgentID) index, one column per reporter"""
    extra = []
    if list(df.columns) != names:
        extra.append("columns=" + ",".join(map(str, df.columns)))
    if list(df.index.names) != ["Step", "AgentID"]:
        extra.append("index-names=" + ",".join(map(str, df.index.names)))
    rows = []
    for idx, vals in zip(df.index.tolist(), df.values.tolist()):
        if not (isinstance(idx, tuple) and len(idx) == 2):
            rows.append(f"?{idx}:{fmt_vals(vals)}")
        else:
            rows.append(f"{fmt_val(idx[0])}/{fmt_val(idx[1])}:{fmt_vals(vals)}")
    return " ".join([f"ok cols={len(names)}"] + extra + rows)


# ----------------------------------------------------------------------------------------
# `scenario collect`


def run_collect(sc):
    spec = Spec()
    world = None
    obs = ["ok"]
    events = []  # ("op", words, result) | ("obs", words, result)
    for line in sc.lines[1:]:
        ws = line.split()
        try:
            if not ws:
                raise BadOp(ws)
            if ws[0] in DEF_WORDS:
                if world is not None:
                    raise BadOp(ws)
                saved = copy.deepcopy(spec.__dict__)
                try:
                    spec.define(ws)
                except BadOp:
                    spec.__dict__.update(saved)
                    raise
                obs.append("ok")
                continue
            if ws == ["start"]:
                if world is not None:
                    raise BadOp(ws)
                world = World(spec, mesa.Model(seed=0))
                obs.append("ok")
                continue
            if world is None:
                raise BadOp(ws)
            o = world.observe(ws)
            if o is not None:
                events.append(("obs", ws, o, len(world.collects), len(world.table_log)))
                obs.append(o)
                continue
            r = world.op(ws)
            events.append(("op", ws, r))
            obs.append(r)
        except BadOp:
            obs.append("bad-op")
    sc.meta["trace"] = {
        "spec": spec, "events": events,
        "collects": world.collects if world else [], "table_log": world.table_log if world else [],
        "tables": world.final_tables() if world else [],
        "inner_changes": world.inner_changes if world else [], "inner_appends": world.inner_appends if world else 0,
    }
    return obs


def type_clause_applies(spec, collects, T):
    """C12's quantifier: the key is a class without subclassed instances, or a base class without direct
    instances (checked over the whole history: `agent_types` remembers every class that ever had one)"""
    if T >= len(spec.parents):
        return False
    direct = sub = False
    for c in collects:
        for _i, ty, _v in c["types"].get(T, []):
            if ty == T:
                direct = True
            else:
                sub = True
    return not (direct and sub)


def canon_within_steps(words, loose):
    """a frame line `ok cols=n step/id:vals …` with the rows of the steps in `loose` sorted (steps stay in place)"""
    head, rows = words[:2], words[2:]
    out, i = [], 0
    while i < len(rows):
        st = rows[i].split("/")[0]
        j = i
        while j < len(rows) and rows[j].split("/")[0] == st:
            j += 1
        out += sorted(rows[i:j]) if st.isdigit() and int(st) in loose else rows[i:j]
        i = j
    return " ".join(head + out)


def oracle_collect(sc, obs):
    """C12 (and the table clause of C18) evaluated on what the implementation showed"""
    tr = sc.meta.get("trace")
    if not tr:
        return []
    spec, bad = tr["spec"], []
    collects, table_log = tr["collects"], tr["table_log"]
    for attr, x, before, after in tr.get("inner_changes", []):
        bad.append(f"inner-append: stored value changed after model.{attr}.append({x}) (an append to a list the reporter had "
                   f"handed out, possibly as the inner list of a nested value): model_vars `{before}` became `{after}`")
    for ev in tr["events"]:
        if ev[0] != "obs":
            continue
        _, ws, o, ncol, ntab = ev
        seen = collects[:ncol]
        if ws[0] != "tab" and any(silent(c) for c in seen):
            # a reporter raised inside a collect: what that call left behind is outside the property (the model follows the code)
            continue
        # a collect whose model-reporter validation failed stored nothing; one that failed in the
        # agent-type phase (unknown type) had already stored model and agent values
        stored = [c for c in seen if c["outcome"] in ("ok", "err Value")]
        if ws[0] in ("mvars", "mframe"):
            if not spec.mreps:
                want = "ok" if ws[0] == "mvars" else "err Warn"
            else:
                cols = [f"m{i}={fmt_vals([c['m'][i] for c in stored])}" for i in range(len(spec.mreps))]
                want = " ".join((["ok"] if ws[0] == "mvars" else [f"ok n={len(stored)}"]) + cols)
            if o != want:
                bad.append(f"{ws[0]}: model values are not one snapshot per collect: got `{o}` want `{want}`")
        elif ws[0] == "aframe":
            if not spec.areps:
                want = "err Warn"
            else:
                by_step = {}
                for c in stored:
                    by_step[c["step"]] = [f"{c['step']}/{i}:{fmt_vals(v)}" for i, _t, v in c["agents"]]
                want = " ".join([f"ok cols={len(spec.areps)}"] + [r for rows in by_step.values() for r in rows])
            if o != want:
                bad.append(f"aframe: agent frame is not the re-indexed records: got `{o}` want `{want}`")
        elif ws[0] == "tframe":
            T = int(ws[1])
            reps = dict(spec.treps).get(T)
            if reps is None:
                want = "ok none"
            elif not type_clause_applies(spec, seen, T):
                continue
            else:
                by_step, loose = {}, set()
                for c in seen:
                    if c["outcome"] != "ok":
                        # the agent-type phase may have been cut short; the property is silent
                        by_step.pop(c["step"], None)
                        if c["outcome"] == "err Value":
                            by_step[c["step"]] = None
                        continue
                    by_step[c["step"]] = [f"{c['step']}/{i}:{fmt_vals(v)}" for i, _t, v in c["types"][T]]
                    if c.get("reordered"):
                        # one row per agent of the class; the property does not say whether a type's rows follow
                        # model.agents or agents_by_type once the two orders differ (the model does: creation order
                        # for a class with direct instances, model.agents order for a base class)
                        loose.add(c["step"])
                if any(v is None for v in by_step.values()):
                    continue
                want = " ".join([f"ok cols={len(reps)}"] + [r for rows in by_step.values() for r in rows])
                if loose and o != want:
                    got = o.split(" ")
                    if got[:1] == want.split(" ")[:1]:
                        o = canon_within_steps(got, loose)
                        want = canon_within_steps(want.split(" "), loose)
            if o != want:
                bad.append(f"tframe: agent-type frame of C{T}: got `{o}` want `{want}`")
        elif ws[0] == "tab":
            t = int(ws[1])
            cols = dict(tr["tables"]).get(t)
            if cols is None:
                want = "err Unknown"
            else:
                rows = []
                for tt, row, mode, outcome in table_log[:ntab]:
                    if tt != t:
                        continue
                    complete = all(f"c{c}" in row for c in cols)
                    if complete or mode == "ign":
                        if outcome != "ok":
                            bad.append(f"table-reject-valid: valid row {row} for T{t} was rejected")
                        rows.append([row.get(f"c{c}") for c in cols])
                    elif outcome == "ok":
                        bad.append(f"table-accept-missing: row {row} with a missing column was accepted for T{t}")
                # (a table without columns stores nothing, whatever is added)
                want = " ".join([f"ok n={len(rows) if cols else 0}"] + [f"c{c}={fmt_vals([r[j] for r in rows])}" for j, c in enumerate(cols)])
            if o != want:
                bad.append(f"table: rows are not column-aligned / a rejected row left traces: got `{o}` want `{want}`")
    return bad


# ----------------------------------------------------------------------------------------
# `scenario batch`


def decode_tok(t):
    """the Python value a parameter token stands for"""
    k, rest = t[0], t[1:]
    if k == "i":
        return int(rest)
    if k == "s":
        return rest
    if k == "d":
        return {"k": rest}  # unhashable
    if k == "t":
        return tuple(int(x) for x in rest.split("_") if x)
    if k == "f":
        return int(rest) / 4
    if k == "n":
        return None
    if k == "l":
        return [int(x) for x in rest.split("_") if x]  # unhashable
    raise BadOp(t)


def encode_val(v):
    if v is None:
        return "n"
    if isinstance(v, bool):
        return "?" + repr(v)
    if isinstance(v, int):
        return f"i{v}"
    if isinstance(v, str):
        return "s" + v
    if isinstance(v, dict):
        return "d" + str(v.get("k"))
    if isinstance(v, tuple):
        return "t" + "_".join(map(str, v))
    if isinstance(v, list):
        return "l" + "_".join(map(str, v))
    if isinstance(v, float):
        return f"f{int(v * 4)}"
    return "?" + repr(v)


def tok_code(t):
    if t.startswith("i"):
        try:
            return int(t[1:])
        except ValueError:
            pass
    return sum(ord(c) for c in t)


def subst_word(kw, w):
    def res(part):
        if part.startswith("$") and part[1:].isdigit():
            p = int(part[1:])
            return str(tok_code(kw[p])) if p in kw else "0"
        return part

    return "=".join(res(p) for p in w.split("="))


def inst_ops(kw, tmpl):
    """instantiate op templates with the kwargs tokens {p: token}; unparsable ops are dropped (as the driver does)"""
    out = []
    for ws in tmpl:
        ws = [subst_word(kw, w) for w in ws]
        if ws and ws[0] == "rep" and len(ws) >= 3 and ws[1].isdigit():
            out += [ws[2:]] * int(ws[1])
        elif ws and ws[0] == "rep":
            continue
        else:
            out.append(ws)
    return out


def parse_spec_lines(lines):
    spec = Spec()
    for line in lines:
        ws = line.split()
        if ws[0] == "init":
            spec.init_t = split_semi(ws[1:])
        elif ws[0] == "body":
            spec.body_t = split_semi(ws[1:])
        else:
            spec.define(ws)
    return spec


class ScriptModel(mesa.Model):
    """the user's model class of a batch scenario: behaviour scripted by `_spec` (bound with
    functools.partial so that the class pickles by reference for spawn workers)"""

    instances = []  # (kwargs, model) of every construction in this process

    def __init__(self, _spec="", _late=None, **kwargs):
        super().__init__()
        self.received = dict(kwargs)
        if _late is not None:
            late_worker_schedule(_late, kwargs)
        spec = parse_spec_lines([l for l in _spec.split("\n") if l.strip()])
        self.world = World(spec, self)
        self.datacollector = self.world.dc
        kw = {int(k[1:]): encode_val(v) for k, v in kwargs.items()}
        self._body = inst_ops(kw, spec.body_t)
        self.user_steps = 0
        for ws in inst_ops(kw, spec.init_t):
            self._do(ws)
        ScriptModel.instances.append((dict(kwargs), self))

    def _do(self, ws):
        try:
            self.world.op(ws)
        except BadOp:
            pass

    # no generated run takes more than max_steps <= 6 steps: a model stepped far beyond that (a changed stepping rule) stops
    # itself, so that the run ends and the rows show the overrun instead of the scenario hitting the watchdog
    STEP_CAP = 40

    def step(self):
        self.user_steps += 1
        if self.user_steps >= self.STEP_CAP:
            self.running = False
        for ws in self._body:
            self._do(ws)


def kw_key(kwargs):
    """a design point as a string (names and value tokens), equal in the parent and in a spawn worker"""
    return ",".join(f"{k}={encode_val(v)}" for k, v in sorted(kwargs.items()))


LATE_CAP = 8.0  # a late run never waits longer for another run to start (e.g. every worker holds a late run)
LATE_EXTRA = 0.4  # ... and this much longer, so that the other run (milliseconds) is handed back first


def late_worker_schedule(late, kwargs):
    """`runp ... late=j`: the worker completion order.  Runs of the design point `late[0]` finish after some run of another
    design point that was submitted later: they wait until such a run has been constructed (marker file `late[1]`, touched
    by every other run of the batch) and a little longer.  Only the schedule changes; the model built is the same."""
    import time

    key, marker = late
    if kw_key(kwargs) != key:
        try:
            open(marker, "w").close()
        except OSError:
            pass
        return
    end = time.monotonic() + LATE_CAP
    while not os.path.exists(marker) and time.monotonic() < end:
        time.sleep(0.02)
    time.sleep(LATE_EXTRA)


def fmt_kw_tokens(items):
    return "{" + ",".join(f"{p}={t}" for p, t in items) + "}"


def fmt_batch_row(row, n_m, n_a):
    """canonical form of one row dict returned by batch_run; key order as in the dict"""
    keys = list(row)
    if keys[:3] != ["RunId", "iteration", "Step"]:
        return "?keys=" + ",".join(keys)
    kws = [(k[1:], encode_val(row[k])) for k in keys[3:] if k.startswith("p")]
    ms = [k for k in keys if k.startswith("m")]
    as_ = [k for k in keys if k.startswith("a")]
    rest = [k for k in keys[3:] if not (k.startswith("p") or k.startswith("m") or k.startswith("a") or k == "AgentID")]
    if rest or ms != [f"m{i}" for i in range(n_m)]:
        return "?keys=" + ",".join(keys)
    s = f"R{row['RunId']}/{row['iteration']}/{row['Step']}{fmt_kw_tokens(kws)}[{fmt_vals([row[k] for k in ms])}]"
    if "AgentID" in row:
        if as_ != [f"a{i}" for i in range(n_a)]:
            return "?keys=" + ",".join(keys)
        s += f"<{row['AgentID']}:{fmt_vals([row[k] for k in as_])}>"
    elif as_:
        return "?keys=" + ",".join(keys)
    return s


def build_parameters(params):
    """the `parameters` mapping handed to batch_run, from `param p kind tok…` lines"""
    d = {}
    for p, kind, toks in params:
        vals = [decode_tok(t) for t in toks]
        if kind == "str":
            if not isinstance(vals[0], str):
                raise BadOp(kind)
            d[f"p{p}"] = vals[0]
        elif kind == "scalar":
            d[f"p{p}"] = vals[0]
        elif kind == "sized":
            # list / tuple alternate (sets have no fixed order)
            d[f"p{p}"] = vals if p % 2 == 0 else tuple(vals)
        elif kind == "iter":
            if vals and all(isinstance(v, int) for v in vals) and vals == list(range(vals[0], vals[0] + len(vals))):
                d[f"p{p}"] = range(vals[0], vals[0] + len(vals))
            elif not vals:
                d[f"p{p}"] = range(0)
            elif all(isinstance(v, str | tuple | int) for v in vals) and len(set(vals)) == len(vals):
                d[f"p{p}"] = {v: 0 for v in vals}  # a dict is iterated over its keys
            else:
                raise BadOp(kind)
        elif kind == "once":
            # a one-shot iterator (outside C13's quantifier: batch_run re-reads `parameters` once per iteration, so
            # it is spent after iteration 0 — modelled, see C13_oneshot_parameters)
            d[f"p{p}"] = iter(vals) if p % 2 == 0 else (v for v in vals)
        else:
            raise BadOp(kind)
    return d


def hand_run(spec_text, kwargs, max_steps):
    """construct and step the model by hand; returns the collections it made (evaluated directly)"""
    m = ScriptModel(_spec=spec_text, **kwargs)
    while m.running and m.steps < max_steps:
        m.step()
    return m


def expected_rows(m, period):
    """rows the property asks for, from what the hand-run model's collects saw (not from its DataCollector)"""
    cs = [c for c in m.world.collects if c["outcome"] in ("ok", "err Value")]
    n = len(cs)
    idx = list(range(0, n, period)) if period > 0 else []
    if n and (not idx or idx[-1] != n - 1):
        idx.append(n - 1)
    # agent values are stored per step: a later collect at the same step replaces them
    last_at = {}
    for c in cs:
        last_at[c["step"]] = c
    out = []
    for i in idx:
        c = cs[i]
        ags = last_at[c["step"]]["agents"] if m.world.spec.areps else []
        out.append((i, c["step"], c["m"], ags))
    return out


def run_batch(sc):
    from mesa.batchrunner import _make_model_kwargs, batch_run

    spec = Spec()
    spec_lines = []
    obs = ["ok"]
    runs = []
    for line in sc.lines[1:]:
        ws = line.split()
        try:
            if not ws:
                raise BadOp(ws)
            k = ws[0]
            if k in DEF_WORDS:
                saved = copy.deepcopy(spec.__dict__)
                try:
                    spec.define(ws)
                except BadOp:
                    spec.__dict__.update(saved)
                    raise
                spec_lines.append(line)
                obs.append("ok")
            elif k in ("init", "body"):
                t = split_semi(ws[1:])
                for w in inst_ops({}, t):
                    check_op_shape(w)
                for w in t:
                    if w[0] == "rep" and (len(w) < 3 or not (w[1].isdigit() or (w[1][0] == "$" and w[1][1:].isdigit()))):
                        raise BadOp(w)
                setattr(spec, k + "_t", t)
                spec_lines = [l for l in spec_lines if l.split()[0] != k] + [line]
                obs.append("ok")
            elif k == "param":
                if len(ws) < 3:
                    raise BadOp(ws)
                p, kind, toks = to_nat(ws[1]), ws[2], ws[3:]
                if any(q == p for q, _, _ in spec.params) or kind not in ("str", "scalar", "sized", "iter", "once"):
                    raise BadOp(ws)
                if kind in ("str", "scalar") and len(toks) != 1:
                    raise BadOp(ws)
                for t in toks:
                    decode_tok(t)
                spec.params.append((p, kind, toks))
                obs.append("ok")
            elif k == "kwargs" and len(ws) == 1:
                try:
                    kws = _make_model_kwargs(build_parameters(spec.params))
                except ValueError:
                    obs.append("err Value")
                    continue
                obs.append(" ".join(["ok"] + [fmt_kw_tokens([(n[1:], encode_val(v)) for n, v in kw.items()]) for kw in kws]))
            elif k in ("run", "runp") and run_line_ok(ws):
                prog = ws[-1] == "prog"
                it, ms, per = to_nat(ws[1]), to_nat(ws[2]), to_int(ws[3])
                nproc = to_nat(ws[4]) if k == "runp" else 1
                if k == "runp" and nproc < 1:
                    raise BadOp(ws)
                late = to_nat(ws[5][5:]) if k == "runp" and len(ws) > 5 and ws[5].startswith("late=") else None
                text = "\n".join(spec_lines)
                cls = functools.partial(ScriptModel, _spec=text)
                marker_dir = None
                if late is not None and nproc != 1:
                    # the design point of run `late` of the work list (recomputed here, not taken from mesa) completes late;
                    # pointless (and a wait for nothing) unless another design point exists
                    points = [{}]
                    for p_, kind_, toks_ in spec.params:
                        points = [{**c, f"p{p_}": v} for c in points for v in param_values(kind_, toks_)]
                    keys = [kw_key(c) for c in points]
                    if late < it * len(keys) and len(set(keys)) > 1:
                        import tempfile

                        marker_dir = tempfile.mkdtemp(prefix="c13late")
                        cls = functools.partial(ScriptModel, _spec=text, _late=(keys[late % len(keys)], os.path.join(marker_dir, "started")))
                ScriptModel.instances.clear()
                rec = {"iterations": it, "max_steps": ms, "period": per, "nproc": nproc, "spec_text": text, "prog": prog,
                       "params": list(spec.params), "n_m": len(spec.mreps), "n_a": len(spec.areps)}
                runs.append(rec)
                import signal

                # starting spawn workers on a loaded machine can outlast core's per-scenario watchdog
                left = signal.alarm(0)
                if left and nproc != 1:
                    left = max(left, 180)
                signal.alarm(left)
                try:
                    import contextlib
                    import io

                    with contextlib.redirect_stderr(io.StringIO()):  # the tqdm bar
                        rows = batch_run(cls, build_parameters(spec.params), number_processes=nproc, iterations=it,
                                         data_collection_period=per, max_steps=ms, display_progress=prog)
                except ValueError:
                    rec["result"] = "err Value"
                    obs.append("err Value")
                    continue
                except IndexError:
                    rec["result"] = "err Index"
                    obs.append("err Index")
                    continue
                finally:
                    if marker_dir:
                        import shutil

                        shutil.rmtree(marker_dir, ignore_errors=True)
                if nproc == 1:
                    rec["constructed"] = [dict(kw) for kw, _ in ScriptModel.instances]
                    rec["steps_taken"] = [(m.steps, m.user_steps, bool(m.running)) for _, m in ScriptModel.instances]
                    rec["distinct_models"] = len({id(m) for _, m in ScriptModel.instances})
                ScriptModel.instances.clear()
                rec["rows"] = rows
                canon = [fmt_batch_row(r, len(spec.mreps), len(spec.areps)) for r in rows]
                if nproc != 1:
                    # completion order is not fixed: order the runs' chunks by RunId (rows of one run stay in order)
                    order = sorted(range(len(rows)), key=lambda i: rows[i].get("RunId", -1))
                    canon = [canon[i] for i in order]
                obs.append(" ".join(["ok"] + canon))
            else:
                raise BadOp(ws)
        except BadOp:
            obs.append("bad-op")
    sc.meta["trace"] = {"runs": runs}
    return obs


def run_line_ok(ws):
    """`run it ms per [prog]` | `runp it ms per np [late=j] [prog]`"""
    ws = ws[:-1] if ws[-1] == "prog" else ws
    if ws[0] == "run":
        return len(ws) == 4
    if len(ws) == 6:
        return ws[5].startswith("late=") and ws[5][5:].isdigit()
    return len(ws) == 5


OP_SHAPES = {"create": None, "remove": 2, "step": 1, "mset": 3, "mapp": 3, "mdel": 2, "aset": 4, "adel": 3,
             "collect": 1, "row": None, "stop": 2, "reorder": None}


def check_op_shape(ws):
    """syntactic check of an (instantiated) op, mirroring the driver's parser"""
    if not ws or ws[0] not in OP_SHAPES:
        raise BadOp(ws)
    n = OP_SHAPES[ws[0]]
    if n is not None and len(ws) != n:
        raise BadOp(ws)
    k = ws[0]
    if k == "create":
        if len(ws) < 2:
            raise BadOp(ws)
        to_nat(ws[1])
        for w in ws[2:]:
            parse_pair(w)
    elif k == "row":
        if len(ws) < 3 or ws[2] not in ("ign", "strict"):
            raise BadOp(ws)
        to_nat(ws[1])
        for w in ws[3:]:
            parse_pair(w)
    elif k in ("remove", "mdel", "stop"):
        to_nat(ws[1])
    elif k == "reorder":
        if not ((len(ws) == 2 and ws[1] in ("rev", "rot", "ida", "idd", "perm")) or (len(ws) == 3 and ws[1] in ("ata", "atd", "perm"))):
            raise BadOp(ws)
        if len(ws) == 3:
            for x in (ws[2].split(",") if ws[1] == "perm" else [ws[2]]):
                to_nat(x)
    elif k == "mset":
        to_nat(ws[1])
        try:
            parse_val(ws[2])
        except ValueError:
            raise BadOp(ws)
    elif k == "mapp":
        to_nat(ws[1])
        to_int(ws[2])
    elif k == "aset":
        to_nat(ws[1])
        to_nat(ws[2])
        try:
            parse_val(ws[3])
        except ValueError:
            raise BadOp(ws)
    elif k == "adel":
        to_nat(ws[1])
        to_nat(ws[2])


def param_values(kind, toks):
    """C13: strings and non-iterables are single values, everything else is iterated"""
    vals = [decode_tok(t) for t in toks]
    return [vals[0]] if kind in ("str", "scalar") else vals


def freeze(v):
    if isinstance(v, dict):
        return ("dict", tuple(sorted((k, freeze(x)) for k, x in v.items())))
    if isinstance(v, list):
        return ("list", tuple(freeze(x) for x in v))
    if isinstance(v, tuple):
        return ("tuple", tuple(freeze(x) for x in v))
    return (type(v).__name__, v)


def oracle_batch(sc, obs):
    """C13 evaluated on the rows batch_run returned, against the same model class run by hand"""
    tr = sc.meta.get("trace")
    if not tr:
        return []
    bad = []
    serial_rows = {}
    for rec in tr["runs"]:
        if "rows" not in rec:
            continue  # batch_run raised (empty sized parameter / period 0): nothing to judge
        rows, it, ms, per = rec["rows"], rec["iterations"], rec["max_steps"], rec["period"]
        if any(kind == "once" for _, kind, _ in rec["params"]):
            # a one-shot iterator is outside the quantifier from the second iteration on (it is spent): the design is
            # judged for iteration 0, which the property still covers
            it = min(it, 1)
        # results.extend(data): the rows of one run are contiguous (and RunIds ascend when run serially)
        ids = [r.get("RunId") for r in rows]
        blocks = [x for i, x in enumerate(ids) if i == 0 or ids[i - 1] != x]
        if len(blocks) != len(set(blocks)):
            bad.append("chunks: the rows of one run are not contiguous in the result")
        if rec["nproc"] == 1 and blocks != sorted(blocks):
            bad.append("chunks: serial run, but the RunIds do not ascend")
        names = [f"p{p}" for p, _, _ in rec["params"]]
        # the design: cartesian product of the value lists, times iterations
        combos = [[]]
        for p, kind, toks in rec["params"]:
            combos = [c + [(f"p{p}", v)] for c in combos for v in param_values(kind, toks)]
        design = sorted(freeze((i, dict(c))) for i in range(it) for c in combos)
        by_run = {}
        for r in rows:
            by_run.setdefault(r.get("RunId"), []).append(r)
        got = []
        for rid, rs in by_run.items():
            kws = [{k: r[k] for k in names if k in r} for r in rs]
            its = {r.get("iteration") for r in rs}
            if len(its) != 1 or any(freeze(k) != freeze(kws[0]) for k in kws):
                bad.append(f"runid: rows of RunId {rid} disagree on iteration / parameters")
            got.append(freeze((rs[0].get("iteration"), kws[0])))
        hand = {}
        expected_total = []
        produced_runs = 0
        for i in range(it):
            for c in combos:
                kw = dict(c)
                key = freeze(kw)
                if key not in hand:
                    hand[key] = hand_run(rec["spec_text"], copy.deepcopy(kw), ms)
                m = hand[key]
                exp = expected_rows(m, per)
                if exp:
                    produced_runs += 1
                for _idx, step, mv, ags in exp:
                    base = (i, key, step, fmt_vals(mv))
                    if ags:
                        expected_total += [(*base, aid, fmt_vals(av)) for aid, _t, av in ags]
                    else:
                        expected_total.append((*base, None, None))
        ScriptModel.instances.clear()
        # a reporter raised inside a collect the scripted model swallowed: the rows are outside the property (tied to the
        # model only); the construction / stepping clauses and the process-count clause are still judged
        raising = any(silent(c) for h in hand.values() for c in h.world.collects)
        # every combination x iteration exactly once (a run that never collected has no row to show)
        shown = [freeze((i, dict(c))) for i in range(it) for c in combos if expected_rows(hand[freeze(dict(c))], per)]
        if sorted(got) != sorted(shown) and not raising:
            bad.append(f"design: runs executed {sorted(got)[:4]}… are not the design {design[:4]}… once each")
        if len(by_run) != produced_runs and not raising:
            bad.append(f"runid: {len(by_run)} distinct RunIds for {produced_runs} runs")
        if rec["nproc"] == 1 and "constructed" in rec:
            if sorted(freeze(k) for k in rec["constructed"]) != sorted(freeze(dict(c)) for _ in range(it) for c in combos):
                bad.append("construct: the models were not constructed once per run with exactly the run's kwargs")
            if rec["distinct_models"] != len(rec["constructed"]):
                bad.append("construct: a model instance was reused")
            for (steps, user_steps, running), kw in zip(rec["steps_taken"], rec["constructed"]):
                h = hand.get(freeze(kw))
                if h is None:
                    continue  # not a configuration of the design: reported by the construct clause
                if (steps, user_steps) != (h.steps, h.user_steps):
                    bad.append(f"steps: batch_run stepped the model to steps={steps} ({user_steps} step() calls), by hand "
                               f"(until it stops or max_steps={ms}) it is {h.steps} ({h.user_steps})")
                    break
        n_m, n_a = rec["n_m"], rec["n_a"]
        got_rows = []
        for r in rows:
            kw = {k: r[k] for k in names if k in r}
            mv = fmt_vals([r.get(f"m{i}") for i in range(n_m)])
            if "AgentID" in r:
                got_rows.append((r.get("iteration"), freeze(kw), r.get("Step"), mv, r["AgentID"], fmt_vals([r.get(f"a{i}") for i in range(n_a)])))
            else:
                got_rows.append((r.get("iteration"), freeze(kw), r.get("Step"), mv, None, None))
        # alignment: Step label, model values and agent values of a row come from one collection of that run
        for g in ([] if raising else got_rows):
            h = hand[g[1]] if g[1] in hand else None
            if h is None:
                continue
            cs = [c for c in h.world.collects if c["outcome"] in ("ok", "err Value")]
            one = False
            for c in cs:
                if c["step"] != g[2] or fmt_vals(c["m"]) != g[3]:
                    continue
                if g[4] is None:
                    one = True
                else:
                    one = any(aid == g[4] and fmt_vals(av) == g[5] for aid, _t, av in c["agents"])
                if one:
                    break
            if not one and once_per_step(cs):
                bad.append(f"aligned: row Step={g[2]} model=[{g[3]}] agent={g[4]}:{g[5]} matches no single collection of its run")
                break
        # the last collected state is reported
        for key, h in ({} if raising else hand).items():
            cs = [c for c in h.world.collects if c["outcome"] in ("ok", "err Value")]
            if not cs:
                continue
            last = cs[-1]
            if not any(g[1] == key and g[2] == last["step"] and g[3] == fmt_vals(last["m"]) for g in got_rows):
                bad.append(f"last: the last collection (step {last['step']}, model [{fmt_vals(last['m'])}]) of a run is not among its rows")
                break
        if not raising and sorted(got_rows, key=repr) != sorted(expected_total, key=repr):
            bad.append(f"rows: {len(got_rows)} rows returned differ from the {len(expected_total)} rows of the same models stepped by hand")
        # same multiset for every number_processes
        key = (rec["spec_text"], repr(rec["params"]), it, ms, per)
        canon = sorted(map(repr, got_rows))
        if key in serial_rows and serial_rows[key] != canon:
            bad.append(f"nproc: row multiset with number_processes={rec['nproc']} differs from another process count")
        serial_rows.setdefault(key, canon)
    return bad


def once_per_step(cs):
    steps = [c["step"] for c in cs]
    return len(steps) == len(set(steps))


# ----------------------------------------------------------------------------------------
# entry points


def guarded(oracle_fn):
    """an oracle that cannot be evaluated (the implementation returned something of an unexpected shape) is a failed clause"""

    def wrapped(sc, obs):
        try:
            return oracle_fn(sc, obs)
        except Exception as e:  # noqa: BLE001
            import traceback

            return [f"unjudgeable: oracle raised {type(e).__name__}: {e} @ {traceback.format_exc().splitlines()[-3].strip()}"]

    return wrapped


def run_impl(sc):
    w0 = sc.lines[0].split()
    if w0 == ["scenario", "collect"]:
        return run_collect(sc)
    if w0 == ["scenario", "batch"]:
        return run_batch(sc)
    raise ValueError(sc.lines[0])


# ----------------------------------------------------------------------------------------
# generators

VALS = ["N", "0", "1", "2", "3", "-1", "5", "7"]
INTS = ["0", "1", "2", "3", "-1", "5", "7"]
LISTS = ["L", "L1", "L1,2", "L0,0,3"]


def gen_fn(R, kind, raising=False):
    if raising and R.random() < 0.5:
        # reads the attribute directly: raises AttributeError while it is missing
        if kind in ("F", "G"):
            return f"{'req' if kind == 'F' else 'lreq'} {R.randrange(4)}"
        return f"{'req' if kind == 'A' else 'lreq'} {R.randrange(3)}"
    if kind == "F":
        return R.choice(["count", "steps", f"sum {R.randrange(3)}", f"get {R.randrange(4)}"])
    if kind == "G":
        return R.choice([f"lin {R.randrange(4)}", "cnt"])
    if kind == "A":
        return R.choice([f"get {R.randrange(3)}", "id", f"twice {R.randrange(3)}", "steps"])
    return f"lin {R.randrange(3)}"


def gen_rep(R, level, raising=False):
    k = R.random()
    if k < 0.3:
        return f"attr {R.randrange(4 if level == 'm' else 3)}"
    if k < 0.55:
        # model level: a plain function / lambda (validated by a trial call) or a functools.partial (not validated)
        form = "part" if level == "m" and R.random() < 0.35 else "fn"
        return f"{form} " + gen_fn(R, "F" if level == "m" else "A", raising)
    if k < 0.8:
        return "meth " + gen_fn(R, "F" if level == "m" else "A", raising)
    return f"args {R.choice([1, 2, -1, 3])} {R.choice([0, 1, 5])} " + gen_fn(R, "G" if level == "m" else "AG", raising)


def mro_ok(parents):
    """Python accepts the hierarchy (C3 linearisation exists)"""
    cls = []
    try:
        for i, w in enumerate(parents):
            cls.append(type(f"K{i}", (object,) if w == "-" else tuple(cls[int(x)] for x in w.split("+")), {}))
    except TypeError:
        return False
    return True


def gen_header(R, batch=False, tables_p=0.6, raising_p=0.12):
    """class hierarchy, reporter dictionaries mixing the four forms at the three levels, tables; `raising`: some
    reporters read their attribute directly and raise while it is missing (outside C12's quantifier, tied to the model)"""
    raising = R.random() < raising_p
    ncls = R.choice([1, 2, 2, 3, 3, 4])
    parents = []
    for i in range(ncls):
        parents.append("-" if i == 0 or R.random() < 0.45 else str(R.randrange(i)))
    if ncls >= 3 and R.random() < 0.25:
        # multiple inheritance: one class gets two bases (kept only if Python finds a consistent MRO)
        i = R.randrange(2, ncls)
        q, p2 = sorted(R.sample(range(i), 2), reverse=True)
        trial = parents[:i] + [f"{q}+{p2}" if R.random() < 0.7 else f"{p2}+{q}"] + parents[i + 1:]
        if mro_ok(trial):
            parents = trial
    lines = ["classes " + " ".join(parents)]
    for _ in range(R.choice([0, 1, 1, 2, 2, 3, 4])):
        lines.append("mrep " + gen_rep(R, "m", raising))
    for _ in range(R.choice([0, 1, 1, 2, 3])):
        lines.append("arep " + gen_rep(R, "a", raising))
    if not batch:
        keys = list(range(ncls)) + ([ncls + 3] if R.random() < 0.06 else [])
        R.shuffle(keys)
        for T in keys[: R.choice([0, 0, 1, 1, 2, 3])]:
            reps = [gen_rep(R, "a", raising) for _ in range(R.choice([1, 1, 2]))]
            lines.append(f"trep {T} " + " ; ".join(reps))
    ntab = 0
    if R.random() < tables_p:
        ntab = R.choice([1, 1, 2])
        for t in range(ntab):
            cols = R.sample(range(4), R.choice([0, 1, 2, 2, 3]))
            lines.append(f"table {t} " + " ".join(map(str, cols)))
    R.shuffle(lines)  # definition order across kinds is free; within a kind it fixes the names
    return lines, ncls, ntab, raising


def gen_row(R, ntab, reject_bias=0.0):
    t = R.randrange(ntab + 1) if R.random() < 0.1 + reject_bias * 0.3 else R.randrange(max(ntab, 1))
    if R.random() < 0.35 + reject_bias * 0.4:
        cols = R.sample(range(5), R.choice([0, 1, 2]))
    else:
        cols = R.sample(range(5), R.choice([3, 4, 5]))
    mode = "ign" if R.random() < 0.3 - reject_bias * 0.2 else "strict"
    pairs = " ".join(f"{c}={R.choice(VALS)}" for c in cols)
    return f"row {t} {mode} {pairs}".rstrip()


def gen_collect_scenario(R, reject_bias=0.0, n_ops=None):
    head, ncls, ntab, raising = gen_header(R, tables_p=0.6 + 0.4 * reject_bias)
    lines = ["scenario collect", *head, "start"]
    n_agents = 0
    removed = set()
    live = set()
    list_attrs = set()
    if raising:
        # attributes the raising model reporters need: mostly present at first, so that a later `mdel` makes them raise
        need = [int(l.split()[-1]) for l in head if l.startswith("mrep") and l.split()[-2] in ("req", "lreq")]
        for a in sorted(set(need)):
            if R.random() < 0.65:
                lines.append(f"mset {a} {R.choice(INTS)}")
    # model attributes that are mutable objects and keep changing: preferably the ones the reporters read
    read = [int(l.split()[-1]) for l in head if l.startswith("mrep") and l.split()[1] in ("attr", "fn", "meth") and l.split()[-2] in ("attr", "get")]
    for a in sorted(set(read))[: R.choice([0, 1, 2, 2])]:
        lines.append(f"mset {a} {R.choice(LISTS)}")
        list_attrs.add(a)
    # in 30% of the scenarios model.agents is reordered in place between collects (shuffle / sort)
    reorders = R.random() < 0.3
    for _ in range(n_ops or R.randrange(6, 30)):
        if reorders and R.random() < 0.14:
            lines.append(gen_reorder(R, len(live)))
            continue
        k = R.random()
        if k < 0.16:
            n_attrs = 3 if raising and R.random() < 0.7 else R.choice([0, 1, 2, 3])
            attrs = " ".join(f"{a}={R.choice(VALS)}" for a in R.sample(range(3), n_attrs))
            lines.append(f"create {R.randrange(ncls)} {attrs}".rstrip())
            n_agents += 1
            live.add(n_agents)
        elif k < 0.22 and n_agents:
            i = R.randrange(1, n_agents + 2)  # sometimes an id that never existed, sometimes twice
            lines.append(f"remove {i}")
            removed.add(i)
            live.discard(i)
        elif k < 0.34:
            lines.append("step")
        elif k < 0.42:
            a = R.randrange(4)
            if R.random() < 0.5:
                lines.append(f"mset {a} {R.choice(LISTS)}")
                list_attrs.add(a)
            else:
                lines.append(f"mset {a} {R.choice(VALS)}")
                list_attrs.discard(a)
        elif k < 0.50:
            a = R.choice(sorted(list_attrs)) if list_attrs and R.random() < 0.85 else R.randrange(4)
            lines.append(f"mapp {a} {R.choice(INTS)}")
        elif k < 0.53:
            a = R.randrange(4)
            lines.append(f"mdel {a}")
            list_attrs.discard(a)
        elif k < 0.61 and n_agents:
            lines.append(f"aset {R.randrange(1, n_agents + 1)} {R.randrange(3)} {R.choice(VALS)}")
        elif k < 0.64 and n_agents:
            lines.append(f"adel {R.randrange(1, n_agents + 1)} {R.randrange(3)}")
        elif k < 0.80 - 0.1 * reject_bias:
            lines.append("collect")
        elif k < 0.88 + 0.05 * reject_bias:
            lines.append(gen_row(R, ntab, reject_bias))
        else:
            lines.append(R.choice(["mvars", "mframe", "aframe", f"tframe {R.randrange(ncls + 1)}", f"tab {R.randrange(ntab + 1)}"]))
    lines += ["mvars", "mframe", "aframe"]
    lines += [f"tframe {T}" for T in range(ncls)]
    lines += [f"tab {t}" for t in range(ntab + (1 if R.random() < 0.2 else 0))]
    return core.Scenario(lines, {})


def gen_reorder(R, n=None):
    """`n` = number of agents registered at that point, if the generator knows it (a shuffle may draw any order)"""
    k = R.choice(["rev", "rot", "perm", "perm", "ida", "idd", "ata", "atd"])
    if k == "perm":
        m = n if n is not None and R.random() < 0.9 else R.randrange(5)
        p = list(range(m))
        R.shuffle(p)
        if p and R.random() < 0.08:
            p[R.randrange(len(p))] = R.randrange(len(p) + 1)  # (mostly) not a permutation: the order stays
        return ("reorder perm " + ",".join(map(str, p))).rstrip()
    return f"reorder {k}" + (f" {R.randrange(3)}" if k in ("ata", "atd") else "")


PARAM_TOKS = ["i0", "i1", "i2", "i3", "i5", "sab", "s", "sx", "dk", "dq", "t1_2", "t", "f5", "n", "l1_2", "i-1"]


def gen_param(R, p):
    k = R.random()
    if k < 0.2:
        return f"param {p} scalar {R.choice([t for t in PARAM_TOKS if t[0] in 'ifn'])}"
    if k < 0.32:
        return f"param {p} str {R.choice(['sab', 's', 'sx', 'shello'])}"
    if k < 0.75:
        n = R.choice([0, 1, 1, 2, 2, 3]) if R.random() < 0.12 else R.choice([1, 1, 2, 2, 3])
        return f"param {p} sized " + " ".join(R.choice(PARAM_TOKS) for _ in range(n))
    kind = R.random()
    if k > 0.94:
        # a generator / iter(...): spent after the first iteration
        return f"param {p} once " + " ".join(R.choice(PARAM_TOKS) for _ in range(R.choice([0, 1, 2, 2, 3])))
    if kind < 0.5:
        a, n = R.choice([0, 1, 2]), R.choice([0, 1, 2, 3]) if R.random() < 0.15 else R.choice([1, 2, 3])
        toks = [f"i{a + j}" for j in range(n)]
    elif kind < 0.75:
        toks = R.sample(["sab", "sx", "sq", "shello"], R.choice([1, 2]))
    else:
        toks = R.sample(["t1_2", "t", "sab", "t3"], R.choice([1, 2]))
    return f"param {p} iter " + " ".join(toks)


def gen_batch_scenario(R, nprocs=(1,), small=False):
    head, ncls, ntab, _raising = gen_header(R, batch=True, tables_p=0.2, raising_p=0.05)
    if not any(l.startswith("mrep") for l in head) and R.random() < 0.8:
        head.append("mrep fn steps")
    nparams = R.choice([0, 1, 1, 2, 2, 3]) if not small else R.choice([0, 1, 2])
    pnames = R.sample(range(6), nparams)
    plines = [gen_param(R, p) for p in pnames]
    # parameters whose every value is a small int may drive repeat counts (keeps the programs small)
    small_ints = [p for p, l in zip(pnames, plines) if all(t in ("i0", "i1", "i2", "i3") for t in l.split()[3:])]

    def arg(default, count=False):
        # an int position fed by a parameter (or a literal)
        pool = small_ints if count else pnames
        if pool and R.random() < 0.5:
            return f"${R.choice(pool)}"
        return str(default)

    init = []
    if R.random() < 0.7:
        init.append(f"mset {R.randrange(4)} {arg(R.choice([0, 1, 5]))}")
    if R.random() < 0.3:
        init.append(f"mset {R.randrange(4)} {R.choice(LISTS)}")
    if R.random() < 0.85:
        n = R.choice(["0", "1", "2", "3", arg(2, count=True)])
        init.append(f"rep {n} create {R.randrange(ncls)} 0={arg(1)} 1={R.choice(INTS)}")
    collect_init = R.random() < 0.5
    if collect_init:
        init.append("collect")
    if R.random() < 0.08:
        # a model that is already stopped when its constructor returns: batch_run must not step it at all
        init.insert(R.randrange(len(init) + 1), "stop 0")
    body = []
    collect_step = R.random() < 0.85 or not collect_init
    pre = R.random() < 0.5
    if collect_step and pre:
        body.append("collect")
    for _ in range(R.choice([0, 1, 1, 2, 3])):
        k = R.random()
        if k < 0.3:
            body.append(f"create {R.randrange(ncls)} 0={R.choice(INTS)}")
        elif k < 0.45:
            body.append(f"remove {R.randrange(1, 5)}")
        elif k < 0.65:
            body.append(f"aset {R.randrange(1, 4)} {R.randrange(3)} {arg(3)}")
        elif k < 0.8:
            body.append(f"mapp {R.randrange(4)} {R.choice(INTS)}")
        else:
            body.append(f"mset {R.randrange(4)} {arg(7)}")
    if R.random() < 0.5:
        body.insert(R.randrange(len(body) + 1), f"stop {arg(R.choice([0, 1, 2, 3, 4]))}")
    if collect_step and not pre:
        body.append("collect")
    if R.random() < 0.12:
        # model.agents reordered in place while stepping (rows of a collection follow the order at that collect)
        body.insert(R.randrange(len(body) + 1), gen_reorder(R))
    if R.random() < 0.06:
        body.append("collect")  # twice per step: outside C13's quantifier, still tied to the model
    lines = ["scenario batch", *head, "init " + " ; ".join(init), "body " + " ; ".join(body)]
    lines += plines
    lines.append("kwargs")
    its = R.choice([1, 1, 2, 3]) if not small else R.choice([1, 2])
    ms = R.choice([0, 1, 2, 3, 4, 5, 6])
    per = R.choice([-1, -1, 1, 1, 2, 3, 0 if R.random() < 0.1 else 2])
    if R.random() < 0.1:
        per = R.choice([7, 50])  # larger than any run: first and last collection
    prog = " prog" if R.random() < 0.15 else ""
    for np_ in nprocs:
        # a worker completion order other than the submission order: the runs of one design point (mostly the first) finish late
        late = f" late={0 if R.random() < 0.6 else R.randrange(4)}" if np_ != 1 and R.random() < 0.7 else ""
        lines.append((f"run {its} {ms} {per}" if np_ == 1 else f"runp {its} {ms} {per} {np_}{late}") + prog)
    if R.random() < 0.3 and nprocs == (1,):
        lines.append(f"run {R.choice([1, 2])} {R.choice([0, 2, 4])} {R.choice([-1, 1, 2, 9])}")
    return core.Scenario(lines, {})
