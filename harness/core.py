"""Shared machinery of the /verif checks (see DESIGN.md §3-§5, BUILDING.md).

A property module (harness/cXX.py) provides

    PROP            "C14"
    DRIVER          "drv_devs"                    lean_exe holding the executable model
    LEAN_MODULES    ["MesaModel.Props.C14"]       modules whose theorems decide the property
    THEOREMS        ["Mesa.Devs.C14_...", ...]    theorem names that must exist and be axiom-clean
    TRUSTED         [...]                         modelled-not-verified parts (evidence.trusted_base)
    RULE            str                           how cases are generated / what is non-trivial
    def generate(rng, tier) -> iterable[Scenario] well-founded, terminating scenarios only
    def run_impl(sc) -> list[str]                 one canonical observation per scenario line (real mesa)
    def oracle(sc, obs) -> list[str]              property clauses violated by the *implementation* trace
    def tags(sc, obs) -> iterable[str]            branches reached (input distribution)   [optional]
    def nontrivial(sc, obs) -> bool               [optional]
    def gen_tables() -> {relative lean path: content}   regenerated model part [optional]
    KNOWN = {finding_id: {"scenario": [lines], "matches": fn(sc, failure) -> bool}}  open findings [optional]
    def extra(ctx) -> None                        extra per-property checks (may call ctx.violation) [optional]

and `core.main(module)` does: regenerate tables, build proofs + driver (flock), audit axioms,
run corpus + generated scenarios on implementation and model, diff, run the oracle, decide,
write evidence, print VIOLATION / KNOWN-FINDING lines, set the exit code.
Exit codes: 0 held, 1 violation, 2 infrastructure problem / timeout (never a violation).
"""
from __future__ import annotations

import argparse
import fcntl
import hashlib
import json
import multiprocessing as mp
import os
import random
import re
import signal
import subprocess
import sys
import time
import traceback
import warnings

VERIF = os.path.dirname(os.path.dirname(os.path.abspath(__file__)))
LEAN = os.path.join(VERIF, "lean")
REPO = os.environ.get("MESA_REPO", "/repo")
ALLOWED_AXIOMS = {"propext", "Classical.choice", "Quot.sound"}
FORBIDDEN = re.compile(r"\b(sorry|admit|native_decide|bv_decide|implemented_by|unsafe)\b|^\s*axiom\s|maxHeartbeats\s+0\b")

# make sure `import mesa` is /repo's (or MESA_REPO's) current working tree
if REPO not in sys.path[:1]:
    sys.path.insert(0, REPO)
os.environ.setdefault("MPLBACKEND", "Agg")
# 16 scenario workers with multi-threaded BLAS starve the machine
for _v in ("OPENBLAS_NUM_THREADS", "OMP_NUM_THREADS", "MKL_NUM_THREADS"):
    os.environ.setdefault(_v, "1")
warnings.simplefilter("ignore")


def import_mesa():
    import mesa  # noqa

    here = os.path.realpath(os.path.dirname(os.path.dirname(mesa.__file__)))
    if here != os.path.realpath(REPO):
        raise Infra(f"mesa imported from {here}, expected {REPO}")
    return mesa


class Infra(Exception):
    """infrastructure problem: exit 2"""


class ScenarioTimeout(Exception):
    pass


class Scenario:
    __slots__ = ("lines", "meta")

    def __init__(self, lines, meta=None):
        self.lines = list(lines)
        self.meta = meta or {}

    def key(self):
        return hashlib.sha1("\n".join(self.lines).encode()).hexdigest()


# ----------------------------------------------------------------------------------------
# build + audit


def _lock():
    os.makedirs(os.path.join(LEAN, ".lake"), exist_ok=True)
    f = open(os.path.join(LEAN, ".lake", "verif.lock"), "w")
    fcntl.flock(f, fcntl.LOCK_EX)
    return f


def write_if_changed(path, content):
    try:
        with open(path) as f:
            if f.read() == content:
                return False
    except FileNotFoundError:
        pass
    os.makedirs(os.path.dirname(path), exist_ok=True)
    with open(path, "w") as f:
        f.write(content)
    return True


def lake_build(targets, timeout=3000):
    """returns (ok, output)"""
    lk = _lock()
    try:
        p = subprocess.run(["lake", "build", *targets], cwd=LEAN, capture_output=True, text=True, timeout=timeout)
        return p.returncode == 0, p.stdout + p.stderr
    finally:
        lk.close()


def lean_sources(modules):
    """transitive MesaModel.* sources of the given modules"""
    seen, todo = {}, list(modules)
    while todo:
        m = todo.pop()
        if m in seen or not m.startswith("MesaModel."):
            continue
        path = os.path.join(LEAN, m.replace(".", "/") + ".lean")
        try:
            src = open(path).read()
        except FileNotFoundError:
            seen[m] = None
            continue
        seen[m] = src
        for mm in re.findall(r"^\s*(?:public\s+)?import\s+([\w.]+)", src, re.M):
            todo.append(mm)
    return seen


def strip_comments(src):
    src = re.sub(r"/-.*?-/", lambda m: "\n" * m.group(0).count("\n"), src, flags=re.S)
    return re.sub(r"--.*", "", src)


def audit(modules, theorems, leanchecker=False):
    """`#print axioms` for each theorem; returns dict(obligations, discharged, problems, axioms)"""
    problems = []
    srcs = lean_sources(modules)
    for m, src in srcs.items():
        if src is None:
            problems.append(f"missing module {m}")
            continue
        for i, line in enumerate(strip_comments(src).splitlines(), 1):
            if FORBIDDEN.search(line):
                problems.append(f"forbidden token in {m}:{i}: {line.strip()[:80]}")
    body = "\n".join(f"import {m}" for m in modules) + "\n" + "\n".join(f"#print axioms {t}" for t in theorems) + "\n"
    tmp = os.path.join(LEAN, ".lake", f"audit_{os.getpid()}.lean")
    os.makedirs(os.path.dirname(tmp), exist_ok=True)
    with open(tmp, "w") as f:
        f.write(body)
    try:
        p = subprocess.run(["lake", "env", "lean", tmp], cwd=LEAN, capture_output=True, text=True, timeout=900)
    finally:
        os.unlink(tmp)
    out = p.stdout + p.stderr
    axioms_used = set()
    ok = {}
    for t in theorems:
        short = t
        m = re.search(r"'" + re.escape(short) + r"' depends on axioms: \[([^\]]*)\]", out, re.S)
        if m:
            ax = {a.strip() for a in m.group(1).replace("\n", " ").split(",") if a.strip()}
            axioms_used |= ax
            bad = ax - ALLOWED_AXIOMS
            ok[t] = not bad
            if bad:
                problems.append(f"theorem {t} depends on non-standard axioms {sorted(bad)}")
        elif re.search(r"'" + re.escape(short) + r"' does not depend on any axioms", out):
            ok[t] = True
        else:
            ok[t] = False
            problems.append(f"theorem {t} not found / not checked")
    res = {
        "obligations": len(theorems),
        "discharged": sum(1 for t in theorems if ok.get(t)),
        "problems": problems,
        "axioms": sorted(axioms_used),
        "raw": out[-2000:] if problems else "",
    }
    if leanchecker:
        p = subprocess.run(["lake", "env", "leanchecker", *modules], cwd=LEAN, capture_output=True, text=True, timeout=3000)
        res["leanchecker"] = "ok" if p.returncode == 0 else "FAILED: " + (p.stdout + p.stderr)[-500:]
        if p.returncode != 0:
            problems.append("leanchecker rejected the compiled modules")
    return res


def run_driver(driver, lines, timeout=600):
    exe = os.path.join(LEAN, ".lake", "build", "bin", driver)
    p = subprocess.run([exe], input="\n".join(lines) + "\n", capture_output=True, text=True, timeout=timeout)
    if p.returncode != 0:
        raise Infra(f"driver {driver} exited {p.returncode}: {p.stderr[-500:]}")
    return p.stdout.splitlines()


def drivers_of(mod):
    return list(getattr(mod, "DRIVERS", None) or ([mod.DRIVER] if mod.DRIVER else []))


def model_obs_mod(mod, scenarios):
    """model observations; a module may route scenarios to different drivers with `driver_for(sc)`"""
    pick = getattr(mod, "driver_for", lambda sc: mod.DRIVER)
    groups = {}
    for i, sc in enumerate(scenarios):
        groups.setdefault(pick(sc), []).append(i)
    res = [None] * len(scenarios)
    for drv, idxs in groups.items():
        if drv is None:
            continue
        for i, o in zip(idxs, model_obs(drv, [scenarios[i] for i in idxs])):
            res[i] = o
    return res


def model_obs(driver, scenarios):
    all_lines = []
    for sc in scenarios:
        all_lines += sc.lines
    if not all_lines:
        return []
    out = run_driver(driver, all_lines)
    if len(out) != len(all_lines):
        raise Infra(f"driver {driver}: {len(out)} output lines for {len(all_lines)} input lines")
    res, i = [], 0
    for sc in scenarios:
        res.append(out[i : i + len(sc.lines)])
        i += len(sc.lines)
    return res


# ----------------------------------------------------------------------------------------
# implementation side


def _alarm(signum, frame):
    raise ScenarioTimeout()


def guarded_impl(mod, sc, seconds=None):
    """run one scenario on the implementation under a watchdog"""
    seconds = seconds or getattr(mod, "WATCHDOG", 90)
    old = signal.signal(signal.SIGALRM, _alarm)
    signal.alarm(seconds)
    try:
        return mod.run_impl(sc)
    finally:
        signal.alarm(0)
        signal.signal(signal.SIGALRM, old)
        _forget_models()


def safe_oracle(mod, sc, obs):
    """the property oracle of the module; an oracle that cannot evaluate what a (changed) implementation returned must not
    end the check with a traceback: an unevaluable observation is a failed clause"""
    try:
        return list(mod.oracle(sc, obs))
    except Exception as e:  # noqa: BLE001
        return [f"unevaluable: the oracle could not evaluate the implementation's observations ({type(e).__name__}: {e})"]


def _forget_models():
    """mesa keeps every Model that ever created an agent alive for the life of the process (`Agent._ids`, a class-level dict
    keyed by the model object) and with it the model's spaces and arrays: a worker that runs thousands of scenarios grows by
    gigabytes.  The models of a finished scenario are never used again, so their counters are dropped here."""
    try:
        from mesa.agent import Agent

        Agent._ids.clear()
    except Exception:
        pass


def _worker(args):
    modname, seed, chunk, tier, count = args
    import importlib

    mod = importlib.import_module(modname)
    rng = random.Random(f"{mod.PROP}/{seed}/{chunk}")
    out = []
    gen = iter(mod.generate(rng, tier, count) if count is not None else [])
    while True:
        try:
            sc = next(gen)
        except StopIteration:
            break
        except Exception:
            # a generator that drives the implementation while it generates and crashes there (e.g. a changed translated
            # function): recorded like a crashing scenario, so that the decision procedure runs instead of a traceback
            out.append((["# scenario generator crashed on the implementation"], {}, None, "crash: " + traceback.format_exc()[-1500:]))
            break
        try:
            obs = guarded_impl(mod, sc)
        except ScenarioTimeout:
            out.append((sc.lines, sc.meta, None, "timeout"))
            continue
        except Exception:
            out.append((sc.lines, sc.meta, None, "crash: " + traceback.format_exc()[-1500:]))
            continue
        out.append((sc.lines, sc.meta, obs, None))
    return out


def run_generated(mod, seed, tier, total, chunks=16):
    per = [total // chunks + (1 if i < total % chunks else 0) for i in range(chunks)]
    jobs = [(mod.__name__, seed, i, tier, per[i]) for i in range(chunks) if per[i] > 0]
    nproc = min(len(jobs), int(os.environ.get("VERIF_JOBS", "16")))
    if nproc <= 1 or getattr(mod, "SERIAL", False):
        results = [_worker(j) for j in jobs]
    else:
        ctx = mp.get_context("fork")
        with ctx.Pool(nproc) as pool:
            results = pool.map(_worker, jobs)
    return [r for chunk in results for r in chunk]


# ----------------------------------------------------------------------------------------
# shrinking


def ddmin(lines, still_fails, keep_first=1, budget=400):
    """classic ddmin over scenario lines (first `keep_first` lines are the header)"""
    head, body = lines[:keep_first], lines[keep_first:]
    n = 2
    calls = 0
    while len(body) >= 2 and calls < budget:
        size = max(1, len(body) // n)
        chunks = [body[i : i + size] for i in range(0, len(body), size)]
        reduced = False
        for i in range(len(chunks)):
            cand = [x for j, c in enumerate(chunks) if j != i for x in c]
            calls += 1
            if still_fails(head + cand):
                body = cand
                n = max(n - 1, 2)
                reduced = True
                break
        if not reduced:
            if n >= len(body):
                break
            n = min(len(body), n * 2)
    return head + body


# ----------------------------------------------------------------------------------------
# known findings


def load_known():
    """known_findings.txt lines:
       open: property=Cxx <id> <what fails>
       fixed: property=Cxx <commit> <id> <what failed>"""
    res = []
    path = os.path.join(VERIF, "known_findings.txt")
    if not os.path.exists(path):
        return res
    for line in open(path):
        line = line.strip()
        if not line or line.startswith("#"):
            continue
        m = re.match(r"(open|fixed): property=(C\d+) (\S+) (.*)$", line)
        if not m:
            continue
        status, prop, a, rest = m.groups()
        if status == "open":
            res.append({"status": "open", "property": prop, "id": a, "what": rest})
        else:
            fid, _, what = rest.partition(" ")
            res.append({"status": "fixed", "property": prop, "commit": a, "id": fid, "what": what})
    return res


# ----------------------------------------------------------------------------------------
# the check


class Ctx:
    def __init__(self, mod, tier, seed):
        self.mod, self.tier, self.seed = mod, tier, seed
        self.violations = []  # (replay_path, suffix)
        self.known_lines = []
        self.notes = []
        self.t0 = time.time()
        self.cov = {}

    def replay_path(self, name):
        d = os.path.join(VERIF, "replays")
        os.makedirs(d, exist_ok=True)
        return os.path.join(d, f"{self.mod.PROP}-{name}.json")

    def violation(self, name, payload, no_input=False):
        path = self.replay_path(name)
        payload = dict(payload)
        payload.setdefault("property", self.mod.PROP)
        payload.setdefault("seed", self.seed)
        payload.setdefault("how_to_replay", f"./check {self.mod.PROP} --replay replays/{os.path.basename(path)}")
        with open(path, "w") as f:
            json.dump(payload, f, indent=1, default=str)
        rel = os.path.relpath(path, VERIF)
        self.violations.append((rel, " no-failing-input-found" if no_input else ""))


def compare(mod, sc_lines, meta):
    """run one scenario on impl and model; returns (impl_obs, model_obs, first_diff_index or None)"""
    sc = Scenario(sc_lines, meta)
    obs = guarded_impl(mod, sc)
    mobs = model_obs_mod(mod, [sc])[0]
    if mobs is None:
        return obs, None, None
    diff = next((i for i in range(len(sc_lines)) if i >= len(obs) or obs[i] != mobs[i]), None)
    if diff is None and len(obs) != len(sc_lines):
        diff = len(sc_lines)
    return obs, mobs, diff


def shrink_disagreement(mod, lines, meta):
    def still(ls):
        try:
            _, _, d = compare(mod, ls, meta)
            return d is not None
        except Infra:
            raise
        except Exception:
            return False

    try:
        return ddmin(lines, still, keep_first=getattr(mod, "HEADER_LINES", 1))
    except Infra:
        return lines


def shrink_oracle(mod, lines, meta, clause_prefix):
    def still(ls):
        try:
            sc = Scenario(ls, meta)
            obs = guarded_impl(mod, sc)
            return any(c.split(":")[0] == clause_prefix for c in safe_oracle(mod, sc, obs))
        except Exception:
            return False

    return ddmin(lines, still, keep_first=getattr(mod, "HEADER_LINES", 1))


def load_corpus(prop):
    d = os.path.join(VERIF, "corpus", prop)
    res = []
    if os.path.isdir(d):
        for fn in sorted(os.listdir(d)):
            if fn.endswith(".ops"):
                lines = [l.rstrip("\n") for l in open(os.path.join(d, fn)) if l.strip() and not l.startswith("#")]
                res.append(Scenario(lines, {"corpus": fn}))
    return res


def main(mod, argv=None):
    ap = argparse.ArgumentParser()
    ap.add_argument("--tier", default=os.environ.get("VERIF_TIER", "quick"), choices=["quick", "thorough"])
    ap.add_argument("--replay")
    ap.add_argument("--count", type=int)
    args = ap.parse_args(argv)
    seed = int(os.environ.get("VERIF_SEED", "0") or 0)
    ctx = Ctx(mod, args.tier, seed)
    try:
        code = _main(ctx, args)
    except (Infra, subprocess.TimeoutExpired) as e:
        print(f"INFRA-ERROR property={mod.PROP}: {e}", flush=True)
        code = 2
    sys.exit(code)


def _main(ctx, args):
    mod, tier, seed = ctx.mod, ctx.tier, ctx.seed
    prop = mod.PROP
    import_mesa()
    known = [k for k in load_known() if k["property"] == prop]
    open_ids = {k["id"] for k in known if k["status"] == "open"}

    # 1. regenerate the generated model part from the current source
    gen_changed = False
    gen_crash = None
    if hasattr(mod, "gen_tables"):
        try:
            tables = mod.gen_tables()
        except Infra:
            raise
        except Exception as e:      # noqa: BLE001 — the probe of the checked code itself raises: a broken obligation, not a traceback
            tables, gen_crash = {}, f"gen_tables() raised on the checked source: {type(e).__name__}: {str(e)[:300]}"
        for rel, content in tables.items():
            gen_changed |= write_if_changed(os.path.join(LEAN, rel), content)
    # 1b. functions translated from the current source (harness/xlate_registry.py, harness/py2lean.py)
    from . import xlate_registry as XR
    xl = XR.REGISTRY.get(prop)
    xl_broken, xl_infos = None, []
    if xl:
        xl_files, xl_infos, xl_problems = XR.regenerate(prop, REPO)
        for rel, content in xl_files.items():
            gen_changed |= write_if_changed(os.path.join(LEAN, rel), content)
        if xl_problems:
            xl_broken = {"reason": "; ".join(xl_problems), "theorems": list(xl["theorems"])}

    # 2. proof obligations
    ok, out = lake_build(list(mod.LEAN_MODULES) + drivers_of(mod))
    build_broken = None
    if not ok:
        # was it the generated part (tied to the source) or our own files?
        if hasattr(mod, "gen_tables"):
            build_broken = out[-3000:]
        else:
            raise Infra("lake build failed:\n" + out[-3000:])
    if gen_crash and not build_broken:
        build_broken = gen_crash
    if xl and not xl_broken:
        # the generated definitions and the equivalence theorems `generated = model` (a failure here is a broken tie)
        ok2, out2 = lake_build(list(xl["lean_modules"]))
        if not ok2:
            xl_broken = dict(XR.diagnose(prop, out2, LEAN), build_output=out2[-3000:])
    xl_mods, xl_thms = (list(xl["lean_modules"]), list(xl["theorems"])) if xl and not xl_broken else ([], [])
    aud = {"obligations": len(mod.THEOREMS) + len(xl_thms), "discharged": 0, "problems": ["build failed"], "axioms": []}
    if not build_broken:
        aud = audit(list(mod.LEAN_MODULES) + xl_mods, list(mod.THEOREMS) + xl_thms, leanchecker=(tier == "thorough"))
        if aud["problems"] and not hasattr(mod, "gen_tables") and not xl:
            raise Infra("proof audit failed (not caused by /repo): " + "; ".join(aud["problems"]) + "\n" + aud.get("raw", ""))
    if xl_broken:
        aud["obligations"] += len(xl["theorems"])
        aud["problems"] = list(aud["problems"]) + ["translated functions (py2lean): " + xl_broken["reason"]]

    # replay mode
    if args.replay:
        return _replay(ctx, args.replay)

    # 3. correspondence: corpus first, then generated
    total = args.count if args.count is not None else mod.COUNTS[tier]
    records = []  # (lines, meta, obs, err)
    for sc in load_corpus(prop) + list(getattr(mod, "builtin_corpus", lambda: [])()):
        try:
            records.append((sc.lines, sc.meta, guarded_impl(mod, sc), None))
        except ScenarioTimeout:
            records.append((sc.lines, sc.meta, None, "timeout"))
        except Exception:
            records.append((sc.lines, sc.meta, None, "crash: " + traceback.format_exc()[-1500:]))
    n_corpus = len(records)
    records += run_generated(mod, seed, tier, total)

    timeouts = [r for r in records if r[3] == "timeout"]
    if timeouts:
        p = ctx.replay_path("timeout")
        json.dump({"lines": timeouts[0][0], "meta": timeouts[0][1]}, open(p, "w"), indent=1, default=str)
        raise Infra(f"{len(timeouts)} scenario(s) hit the watchdog; first saved to {p}")
    crashes = [r for r in records if r[3]]
    good = [r for r in records if not r[3]]

    scenarios = [Scenario(l, m) for (l, m, _, _) in good]
    mobs = model_obs_mod(mod, scenarios) if (drivers_of(mod) and not build_broken) else [None] * len(good)

    disagreements, failures = [], []
    seen, nontrivial, hist = set(), 0, {}
    for (lines, meta, obs, _), mo, sc in zip(good, mobs, scenarios):
        k = sc.key()
        fresh = k not in seen
        seen.add(k)
        for t in getattr(mod, "tags", lambda s, o: [])(sc, obs):
            hist[t] = hist.get(t, 0) + 1
        if fresh and getattr(mod, "nontrivial", lambda s, o: len(s.lines) > 2)(sc, obs):
            nontrivial += 1
        if mo is not None:
            d = next((i for i in range(len(lines)) if i >= len(obs) or obs[i] != mo[i]), None)
            if d is None and len(obs) != len(lines):
                d = len(lines)
            if d is not None:
                disagreements.append((lines, meta, obs, mo, d))
        for clause in safe_oracle(mod, sc, obs):
            failures.append((lines, meta, obs, clause))
    for lines, meta, _, err in crashes:
        # a harness crash on a generated scenario: the implementation raised something the harness
        # does not map to an observation -> treat as disagreement with the model (which never crashes)
        disagreements.append((lines, meta, [err], None, 0))

    # 4. decision
    KN = getattr(mod, "KNOWN", {})
    unknown_fail = []
    known_hit = {}
    for lines, meta, obs, clause in failures:
        fid = next((i for i, k in KN.items() if i in open_ids and k["matches"](Scenario(lines, meta), clause)), None)
        if fid:
            known_hit[fid] = known_hit.get(fid, 0) + 1
        else:
            unknown_fail.append((lines, meta, obs, clause))

    # open findings: replay their witness
    for k in known:
        if k["status"] != "open":
            continue
        w = KN.get(k["id"])
        if not w:
            ctx.notes.append(f"open finding {k['id']} has no witness in the harness")
            continue
        sc = Scenario(w["scenario"], {"witness": k["id"]})
        try:
            obs = guarded_impl(mod, sc)
            still = any(w["matches"](sc, c) for c in safe_oracle(mod, sc, obs))
        except Exception:
            still = True
        if still:
            ctx.known_lines.append(f"KNOWN-FINDING: property={prop} {k['id']} {k['what']}")
        else:
            ctx.notes.append(f"known finding {k['id']} no longer reproduces on the implementation")

    if unknown_fail:
        lines, meta, obs, clause = unknown_fail[0]
        small = shrink_oracle(mod, lines, meta, clause.split(":")[0])
        sc = Scenario(small, meta)
        sobs = guarded_impl(mod, sc)
        ctx.violation("impl-counterexample", {
            "kind": "impl-counterexample", "oracle_clause": [c for c in safe_oracle(mod, sc, sobs)] or [clause],
            "ops": small, "meta": meta, "impl_observations": sobs,
            "model_observations": model_obs_mod(mod, [sc])[0] if (drivers_of(mod) and not build_broken) else None,
            "other_failures": len(unknown_fail) - 1})
    elif disagreements or build_broken or aud["problems"]:
        # the tie or a proof obligation broke, the oracle found nothing so far: search harder
        found = None
        if hasattr(mod, "generate"):
            extra = run_generated(mod, seed + 7919, tier, 10 * total)
            for lines, meta, obs, err in extra:
                if err:
                    continue
                sc = Scenario(lines, meta)
                cl = [c for c in safe_oracle(mod, sc, obs)
                      if not any(i in open_ids and k["matches"](sc, c) for i, k in KN.items())]
                if cl:
                    found = (lines, meta, obs, cl[0])
                    break
        if found:
            lines, meta, obs, clause = found
            small = shrink_oracle(mod, lines, meta, clause.split(":")[0])
            sc = Scenario(small, meta)
            sobs = guarded_impl(mod, sc)
            ctx.violation("impl-counterexample", {
                "kind": "impl-counterexample", "oracle_clause": safe_oracle(mod, sc, sobs) or [clause], "ops": small,
                "meta": meta, "impl_observations": sobs})
        else:
            payload = {"kind": "no-failing-input", "theorem_or_stream": None}
            if build_broken:
                payload["theorem_or_stream"] = "lake build of " + ", ".join(mod.LEAN_MODULES) + " (generated tables changed)"
                payload["build_output"] = build_broken
            elif aud["problems"]:
                payload["theorem_or_stream"] = aud["problems"]
            if xl_broken:
                payload["translated_functions"] = xl_broken
            if disagreements:
                lines, meta, obs, mo, d = disagreements[0]
                small = shrink_disagreement(mod, lines, meta) if mo is not None else lines
                try:
                    sobs, smo, sd = compare(mod, small, meta)
                except Exception:
                    sobs, smo, sd = obs, mo, d
                payload.update({
                    "theorem_or_stream": payload["theorem_or_stream"] or f"correspondence stream of {prop} (implementation vs Lean model {drivers_of(mod)})",
                    "ops": small, "meta": meta, "first_diff_line": sd, "impl_observations": sobs,
                    "model_observations": smo, "disagreeing_scenarios": len(disagreements)})
            ctx.violation("broken-tie", payload, no_input=True)

    if hasattr(mod, "extra"):
        mod.extra(ctx)
    if xl and not xl_broken:
        from . import xlate_selftest
        xlate_selftest.run(ctx, prop)

    # 5. evidence
    samples = [{"ops": l, "impl": o} for (l, _, o, _) in good[n_corpus : n_corpus + 2]] or [{"ops": l, "impl": o} for (l, _, o, _) in good[:2]]
    cov = {
        "obligations": aud["obligations"],
        "discharged": aud["discharged"],
        "checker_cmd": "cd lean && lake build " + " ".join(list(mod.LEAN_MODULES) + xl_mods) + " && lake env lean <#print axioms of each theorem>" + (" && lake env leanchecker " + " ".join(list(mod.LEAN_MODULES) + xl_mods) if tier == "thorough" else ""),
        "trusted_base": ["Lean 4.33.0 kernel", "axioms used: " + (", ".join(aud["axioms"]) or "none"),
                         "harness/core.py + harness/%s.py (correspondence check, generators, canonicalisers)" % mod.__name__.split(".")[-1],
                         "lean/Driver (line parser)"] + list(mod.TRUSTED) + (list(XR.TRUSTED) if xl else []),
        "theorems": list(mod.THEOREMS) + (list(xl["theorems"]) if xl else []),
        "evaluations": len(records),
        "distinct_nontrivial": nontrivial,
        "rule": mod.RULE,
        "samples": samples,
        "traces_validated_against_impl": len(good) - len([d for d in disagreements if d[3] is not None]),
        "disagreements_checked": len(disagreements),
        "oracle_failures": len(failures),
        "known_finding_hits": known_hit,
        "corpus_scenarios": n_corpus,
        "input_distribution": dict(sorted(hist.items())),
        "op_lines": sum(len(r[0]) for r in records),
        "notes": ctx.notes,
        "exhaustive": bool(getattr(mod, "EXHAUSTIVE", {}).get(tier, False)),
    }
    if "leanchecker" in aud:
        cov["leanchecker"] = aud["leanchecker"]
    if xl:
        cov["translated_functions"] = [i for i in xl_infos if i["function"] in xl["functions"]]
    cov.update(ctx.cov)
    ev = {
        "property_id": prop, "tier": tier, "seed": seed, "level": "proof", "coverage": cov,
        "assumptions": list(getattr(mod, "ASSUMPTIONS", [])), "wall_s": round(time.time() - ctx.t0, 2),
        "violations": len(ctx.violations),
    }
    os.makedirs(os.path.join(VERIF, "evidence"), exist_ok=True)
    with open(os.path.join(VERIF, "evidence", f"{prop}.json"), "w") as f:
        json.dump(ev, f, indent=1, default=str)

    for l in ctx.known_lines:
        print(l)
    for path, suffix in ctx.violations:
        print(f"VIOLATION property={prop} replay={path}{suffix}")
    print(f"{prop} {tier}: theorems {aud['discharged']}/{aud['obligations']}, scenarios {len(records)} "
          f"(nontrivial {nontrivial}), disagreements {len(disagreements)}, oracle failures {len(failures)} "
          f"(known {sum(known_hit.values())}), {ev['wall_s']}s", flush=True)
    return 1 if ctx.violations else 0


def _replay(ctx, path):
    mod = ctx.mod
    if not os.path.isabs(path):
        path = os.path.join(VERIF, path)
    data = json.load(open(path))
    lines = data.get("ops")
    if not lines:
        print(f"replay {path}: no operation sequence stored ({data.get('kind')}); broken: {data.get('theorem_or_stream')}")
        return 1
    sc = Scenario(lines, data.get("meta") or {})
    obs = guarded_impl(mod, sc)
    mo = model_obs_mod(mod, [sc])[0] if drivers_of(mod) else None
    cl = safe_oracle(mod, sc, obs)
    for i, l in enumerate(lines):
        mark = "" if mo is None or (i < len(obs) and obs[i] == mo[i]) else "   <-- differs"
        print(f"{l:40s} impl: {obs[i] if i < len(obs) else None}   model: {mo[i] if mo else None}{mark}")
    print("oracle:", cl or "no clause violated")
    bad = bool(cl) or (mo is not None and list(obs) != list(mo))
    if bad:
        print(f"VIOLATION property={mod.PROP} replay={os.path.relpath(path, VERIF)}")
    return 1 if bad else 0
