"""C09 — legacy neighbourhood queries return exactly the cells/agents in range."""
from . import core, legacy_common as L

PROP = "C09"
DRIVER = "drv_legacy"
WATCHDOG = 900  # seconds per scenario: the chained exhaustive scenarios have > 10^4 lines; the shared machine is often overloaded
LEAN_MODULES = ["MesaModel.Props.C09"]
THEOREMS = [
    "Mesa.Legacy.C09_orth_spec",
    "Mesa.Legacy.C09_in_range_is_distance",
    "Mesa.Legacy.C09_orth_defined_iff_in_grid",
    "Mesa.Legacy.C09_fast_eq_slow",
    "Mesa.Legacy.C09_cache_transparent",
    "Mesa.Legacy.C09_hex_cache_transparent",
    "Mesa.Legacy.C09_cache_key_is_every_argument",
    "Mesa.Legacy.C09_hex_spec",
    "Mesa.Legacy.C09_hex_touching_symmetric",
    "Mesa.Legacy.C09_hex_cells_in_grid",
    "Mesa.Legacy.C09_hex_tables_are_hexagonal",
    "Mesa.Legacy.C09_cached_neighbors_with_moves",
    "Mesa.Legacy.C09_hex_get_neighbors_exact",
    "Mesa.Legacy.C09_neighbors_whatever_truth_value",
    "Mesa.Legacy.C09_contents_read_by_comparison_with_default",
    "Mesa.Legacy.C09_truthiness_test_loses_falsy_agents",
    "Mesa.Legacy.C09_neighbors_spec",
    "Mesa.Legacy.C09_get_neighbors_exact",
    "Mesa.Legacy.C09_network_spec",
    "Mesa.Legacy.C09_network_all_simple_graphs",
    "Mesa.Legacy.C09_cell_list_contents_any_integers",
    "Mesa.Legacy.C09_network_contents_spec",
    "Mesa.Legacy.C09_network_neighbors_exact",
]
COUNTS = {"quick": 1200, "thorough": 80000}
TRUSTED = [
    "CPython dict keeps insertion order and ignores re-insertion of a present key (modelled: append-if-absent list)",
    "collections.deque pop() / extendleft() (modelled as the FIFO queue they amount to); sorted() of a set of int pairs",
    "networkx: Graph.neighbors(v) lists neighbours in edge-insertion order; single_source_shortest_path_length(G, v, r) has exactly "
    "the nodes within r hops as keys (theorem C09_network_spec takes this as its hypothesis; the driver uses a proved expansion)",
    "numpy fancy indexing in get_neighborhood_mask (modelled: mask[c] = c in neighbourhood)",
    "the hex offset tables, the parameter lists of the two get_neighborhood functions and their cache-key tuples are regenerated from mesa/space.py on every run (Gen/LegacyTables.lean; AST cross-checked by probing) and the table theorems re-checked",
]
ASSUMPTIONS = ["hexagonal tori have an even width (the property's quantifier); hex centres outside the grid are modelled and tied but not judged by the oracle",
               "NetworkGrid graphs are simple undirected graphs on nodes 0..n-1"]
RULE = ("(a) exhaustive small scope, run first on every check: every (centre, radius, moore, include_center) on every SingleGrid up to "
        "4x4 (thorough 6x6), radii {1,2,3,7}, torus on/off, and every (centre, radius, include_center) on every HexMultiGrid of that size "
        "(tori: even width), radii {1,2,3,5}; each grid is queried forward and then in a strided reverse order, so the second pass is "
        "answered from the cache; every simple graph on up to 4 (thorough 5) labelled nodes in two edge-insertion orders x every node x "
        "include_center x radius 0..n for NetworkGrid; (b) random scenarios: the four grid classes at sizes 1..7 with random placements, 8-30 queries from "
        "{get_neighborhood, iter_neighborhood, get_neighbors, iter_neighbors, get_neighborhood_mask, get_cell_list_contents (list and bare "
        "tuple), iter_cell_list_contents} with repeated keys (30%), out-of-grid centres, radii up to beyond the grid size, moves between "
        "queries, radius 0, hex centres outside the grid (5%), cell lists with arbitrary integers (20% of the lists), get_neighborhood_mask on hex "
        "classes (TypeError), half of the MultiGrid scenarios with 2-4 agents stacked on one cell that is then queried with both include_center values; (c) NetworkGrid on random simple graphs with 1..8 nodes, radii 0..n+1, 4% of the queries on a node that is not in the graph. "
        "non-trivial = at least 4 successful neighbourhood queries of which one has radius >= 2")


def generate(rng, tier, count):
    for i in range(count):
        if rng.random() < 0.78:
            yield L.gen_c09_grid(rng, tier)
        else:
            yield L.gen_c09_net(rng, tier)


def builtin_corpus():
    # core gives this hook no tier argument: read it from the command line
    if L.tier_from_argv() == "thorough":
        return L.truth_scenarios_c09() + L.exhaustive_c09(6, (1, 2, 3, 4, 7), (1, 2, 3, 5)) + L.exhaustive_c09_net(5)
    return L.truth_scenarios_c09() + L.exhaustive_c09(4, (1, 2, 3, 7), (1, 2, 3, 5)) + L.exhaustive_c09_net(4)


run_impl = L.run_impl
oracle = L.guarded(L.oracle_c09)
gen_tables = L.gen_tables
EXHAUSTIVE = {"quick": False, "thorough": False}

Q = ("nbhd", "inbhd", "nbrs", "inbrs", "nmask", "hnbhd", "ihnbhd", "hnbrs", "ihnbrs", "nnbhd", "nnbrs")


def nontrivial(sc, obs):
    qs = [l.split() for l, o in zip(sc.lines, obs) if l.split()[0] in Q and o.startswith("ok")]
    return len(qs) >= 4 and any(int(q[-1]) >= 2 for q in qs)


def tags(sc, obs):
    w = sc.lines[0].split()
    if w[1] == "net":
        yield "kind:network"
    else:
        if sc.meta.get("oq"):
            yield "stream:outside-quantifier(odd-width hex torus, tie only)"
        yield "kind:" + w[2]
        yield "torus:" + w[5]
        W, H = int(w[3]), int(w[4])
    seen = set()
    for l, o in zip(sc.lines[1:], obs[1:]):
        t = l.split()
        k = t[0]
        if k in ("dump", "place", "nplace"):
            continue
        yield "op:" + k
        if o.startswith("err"):
            yield f"reject:{k}:{o.split()[1]}"
        if k in Q and w[1] != "net":
            if not (0 <= int(t[1]) < W and 0 <= int(t[2]) < H):
                yield "branch:centre-outside-grid"
            if int(t[-1]) == 0:
                yield "branch:radius-0"
        if k in Q:
            key = " ".join(t[1:])
            if key in seen:
                yield "branch:cache-hit"
            seen.add(key)
        if k in ("nbhd", "inbhd", "nbrs", "inbrs", "nmask") and o.startswith("ok"):
            x, y, r = int(t[1]), int(t[2]), int(t[5])
            interior = x >= r and W - x > r and y >= r and H - y > r
            yield "branch:" + ("fast-path" if interior else "slow-path")
            if r >= W or r >= H:
                yield "branch:radius>=side"


if __name__ == "__main__":
    import sys
    core.main(sys.modules[__name__])
