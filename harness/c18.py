"""C18 — a mutating call that raises leaves all observable state unchanged.

No model of its own: it aggregates the rejecting branches of the other model groups.  Each part module provides
  generate_rejecting(rng, tier, count), run_impl, oracle, C18_DRIVER, C18_LEAN_MODULES, C18_THEOREMS
and C18 adds the *twin oracle*: the scenario with every rejected line deleted must produce, on the implementation,
exactly the remaining observations ("every later operation behaves as if the rejected call had never been made").
"""
from __future__ import annotations

import importlib

from . import core

PROP = "C18"
PART_MODULES = {"devs": "harness.devs_common"}
# parts contributed by the other groups: the first module of each candidate list that offers generate_rejecting
for _name, _cands in (("cells", ("harness.c06", "harness.cells_common")), ("legacy", ("harness.c08", "harness.legacy_common")),
                      ("cont", ("harness.c10", "harness.cont_common")), ("layers", ("harness.c11", "harness.layers_common")),
                      ("collect", ("harness.c12", "harness.collect_common")), ("signals", ("harness.c16", "harness.signals_common"))):
    for _mod in _cands:
        try:
            _m = importlib.import_module(_mod)
        except ModuleNotFoundError as _e:
            # only a candidate module that does not exist in this tree may be skipped; a module that exists but cannot be
            # imported (a missing dependency, a syntax error) must not silently drop a whole part of the property
            if _e.name != _mod:
                raise
            continue
        if hasattr(_m, "generate_rejecting"):
            PART_MODULES[_name] = _mod
            break
    else:
        raise ImportError(f"C18: no module of {_cands} offers generate_rejecting (part '{_name}' would be dropped)")


# the kinds of rejection the property lists (a rejection of another kind — e.g. moving an agent that is not in the space,
# a negative radius — stays in both runs and is not judged by the twin oracle)
LISTED_KINDS = {
    "devs": {"Past", "Unit"},
    "cont": {"OutOfBounds"},
    "cells": {"Full", "NoCell", "Fixed"},
    "legacy": {"Full", "OutOfBounds"},
    "layers": {"attach:Value", "create:Value"},
    "collect": {"Missing", "Unknown"},
    "signals": {"observe:Value"},
}


class Part:
    def __init__(self, name, m):
        self.name, self.m = name, m
        self.C18_DRIVER = getattr(m, "C18_DRIVER", None) or m.DRIVER
        self.C18_LEAN_MODULES = getattr(m, "C18_LEAN_MODULES", None) or [x for x in m.LEAN_MODULES if "C18" in x]
        self.C18_THEOREMS = getattr(m, "C18_THEOREMS", None) or [t for t in m.THEOREMS if ".C18_" in t or t.startswith("C18_")]
        self.generate_rejecting = m.generate_rejecting
        self.run_impl = m.run_impl
        self.oracle = getattr(m, "oracle", lambda sc, obs: [])
        self.HEADER_LINES = getattr(m, "HEADER_LINES", 1)


PARTS = {k: Part(k, importlib.import_module(v)) for k, v in PART_MODULES.items()}

DRIVER = None
DRIVERS = sorted({p.C18_DRIVER for p in PARTS.values()})
LEAN_MODULES = sorted({m for p in PARTS.values() for m in p.C18_LEAN_MODULES})
THEOREMS = [t for p in PARTS.values() for t in p.C18_THEOREMS]
COUNTS = {"quick": 120 * len(PARTS), "thorough": 12000 * len(PARTS)}
TRUSTED = ["the rejecting branches are those of the part models (see the TRUSTED lists of C06, C08, C10, C11, C12, C14, C16)",
           "observations are the canonical per-op observations of each part; state not covered by them is not compared"]
ASSUMPTIONS = ["the program catches the exception and continues (the harness does exactly that)"]
RULE = ("per subsystem, scenarios biased towards rejected calls (full/occupied cell, out of bounds, no cell in that direction, second "
        "cell for a fixed agent, missing table column / unknown table, past / wrong-unit scheduling, unknown observable / signal type, "
        "clashing / mis-shaped layer) followed by further valid operations; every scenario is run twice on the implementation (with and "
        "without the rejected lines) and against the Lean model; non-trivial = at least one call was rejected and at least one valid "
        "operation followed it; distinct by sha1 of op lines")


def _listed(part, line, o):
    """is this observation a rejection of one of the kinds the property lists?"""
    if not o.startswith("err"):
        return False
    kinds = LISTED_KINDS.get(part)
    if kinds is None:
        return True
    kind = (o.split() + ["?"])[1]
    return kind in kinds or f"{line.split()[0]}:{kind}" in kinds


def driver_for(sc):
    return PARTS[_part(sc)].C18_DRIVER


def _part(sc):
    if "part" not in sc.meta:
        sc.meta["part"] = _corpus_part(sc)
    return sc.meta["part"]


def _corpus_part(sc):
    """corpus/C18/<part>__<name>.ops: the part is named by the file"""
    fn = sc.meta.get("corpus", "")
    part = fn.split("__", 1)[0]
    if part not in PARTS:
        raise core.Infra(f"corpus/C18/{fn}: unknown part '{part}' (file names are <part>__<name>.ops)")
    return part


def generate(rng, tier, count):
    names = sorted(PARTS)
    per = max(1, count // len(names))
    for name in names:
        for sc in PARTS[name].generate_rejecting(rng, tier, per):
            sc.meta["part"] = name
            yield sc


def run_impl(sc):
    return PARTS[_part(sc)].run_impl(sc)


def _hdr(part):
    return getattr(part, "HEADER_LINES", 1)


def oracle(sc, obs):
    part = PARTS[_part(sc)]
    bad = list(part.oracle(sc, obs))
    rej = [i for i, o in enumerate(obs) if _listed(sc.meta["part"], sc.lines[i], o)]
    if rej and not sc.meta.get("twin"):
        keep = [i for i in range(len(sc.lines)) if i not in set(rej)]
        meta = {k: v for k, v in sc.meta.items() if k not in ("trace",)}
        meta["twin"] = True
        twin = core.Scenario([sc.lines[i] for i in keep], meta)
        try:
            tobs = part.run_impl(twin)
        except Exception as e:  # noqa: BLE001
            return bad + [f"twin-crash: the run without the rejected calls crashed: {type(e).__name__}: {e}"]
        want = [obs[i] for i in keep]
        if tobs != want:
            j = next((k for k in range(min(len(tobs), len(want))) if tobs[k] != want[k]), min(len(tobs), len(want)))
            bad.append(f"twin: after rejected call(s) at line(s) {rej[:3]}, op '{twin.lines[j] if j < len(twin.lines) else '?'}' observed "
                       f"'{want[j] if j < len(want) else None}' but '{tobs[j] if j < len(tobs) else None}' when the rejected calls are never made")
    return bad


def nontrivial(sc, obs):
    rej = [i for i, o in enumerate(obs) if _listed(sc.meta["part"], sc.lines[i], o)]
    return bool(rej) and rej[0] < len(obs) - 1


def tags(sc, obs):
    yield "part:" + sc.meta["part"]
    for l, o in zip(sc.lines, obs):
        if o.startswith("err"):
            yield f"{sc.meta['part']}:reject:{l.split()[0]}:{o.split()[1] if len(o.split()) > 1 else ''}"
