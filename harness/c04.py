"""C04 — one activation calls each surviving member exactly once, even under churn."""
from . import agents_common as A, core

PROP = "C04"
DRIVER = "drv_agents"
LEAN_MODULES = ["MesaModel.Props.C04"]
THEOREMS = ["Mesa.Agents." + t for t in (
    "C04_log_is_invocations", "C04_never_twice_only_members_in_order", "C04_invoked_iff_alive_at_turn",
    "C04_survivor_invoked_exactly_once", "C04_removed_unheld_never_invoked", "C04_created_during_call_never_invoked",
    "C04_shuffle_do_order", "C04_map_results_aligned", "C04_groupby_do_is_regrouped_walk",
    "C04_groupby_map_like_do", "C04_exactly_once_all_histories",
    "C04_exception_ends_the_call_at_the_raiser", "C04_map_and_groupby_under_exceptions",
    "C04_set_edits_invisible_to_the_walk", "C04_every_visiting_order_never_twice_survivors_once",
    "C04_shuffle_do_and_groupby_do_exactly_once", "C04_activation_leaves_program_made_sets_as_they_are",
    "C04_groupby_map_results_aligned")]
COUNTS = {"quick": 1000, "thorough": 150000}
TRUSTED = [
    "CPython refcounting + weakref: an agent dies (its weak references clear) at the moment its model deregisters it and the program holds no reference; no reference cycles through agents",
    "WeakKeyDictionary.keyrefs() lists exactly the live keys in insertion order",
    "CPython random.shuffle is built on _randbelow only (scripted generator, Base/Rng.lean follows it draw by draw)",
    "agent callbacks are scripts (remove self / remove other / create / drop reference / add to or discard from a program-made set, "
    "the activated one included / raise at the end); arbitrary Python side effects are not modelled",
]
ASSUMPTIONS = ["callbacks terminate", "callbacks edit only program-made sets directly (add / discard), never the registry's own sets "
               "(documented as unsupported by mesa)"]
RULE = ("random histories: 1-2 models, agents held by the program or not, per-agent callback scripts (nothing / remove self / "
        "remove an earlier or later agent / create 0-2 agents in any model / drop a reference / add an agent to or discard one from "
        "a program-made set, often the activated one / finally raise an exception), activations do / shuffle_do / map / "
        "GroupBy.do / GroupBy.map by method name (plain method, per-instance override, staticmethod, classmethod) and by callable, "
        "arguments positional / keyword (one activation in two with further keyword arguments of the program's own, one of them "
        "named `agent`), over model.agents, agents_by_type[T] and program-made sets of truthy and falsy agents; "
        "plus, exhaustively, every single-action script family over n <= 3 agents x every held/unheld pattern (quick: do; "
        "thorough: do, shuffle_do, map, GroupBy.do, and n = 4 for do), and every family over a program-made activated set of "
        "n <= 3 agents in which each agent does nothing / raises / removes itself (and raises) / discards agent j from the activated "
        "set / removes and discards j / adds an outsider (quick: do, and n <= 2 for the other four kinds; thorough: all five kinds); "
        "non-trivial = an activation during which an agent was removed or created and at least two callbacks ran")


def generate(rng, tier, count):
    for _ in range(count):
        yield A.gen_world(rng, "c04")


def builtin_corpus():
    """exhaustive small scope, run on every check: quick n <= 3 with `do` (1 836 scenarios); thorough adds
    shuffle_do / map / GroupBy.do for n <= 3 and all single-action script families for n = 4; plus the families of
    `exhaustive_edits` (callbacks that raise / edit the activated program-made set)"""
    import os
    import sys

    thorough = "thorough" in sys.argv or os.environ.get("VERIF_TIER") == "thorough"
    if thorough:
        return list(A.exhaustive_activation(3, ["do", "shuffledo", "map", "gdo"], True, n4=True)) \
            + list(A.exhaustive_edits(3, ["do", "shuffledo", "map", "gdo", "gmap"]))
    return list(A.exhaustive_activation(3, ["do"], True)) + list(A.exhaustive_edits(3, ["do"])) \
        + list(A.exhaustive_edits(2, ["shuffledo", "map", "gdo", "gmap"]))


EXHAUSTIVE = {"quick": True, "thorough": True}
run_impl = A.run_impl
oracle = A.oracle_c04
tags = A.world_tags


def nontrivial(sc, obs):
    for line, events, st in A.split_ops(sc.meta.get("trace") or []):
        if line.split()[0] in ("do", "shuffledo", "map", "gdo", "gmap"):
            k = [e[0] for e in events]
            if k.count("invoke") >= 2 and ("remove" in k or "create" in k):
                return True
    return False


if __name__ == "__main__":
    import sys
    core.main(sys.modules[__name__])
