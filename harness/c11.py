"""C11 — property layers and cell attributes are one value; selection is exact."""
from . import core, layers_common as L

PROP = "C11"
DRIVER = "drv_layers"
LEAN_MODULES = ["MesaModel.Props.C11"]
THEOREMS = []
COUNTS = {"quick": 1500, "thorough": 40000}
TRUSTED = []
ASSUMPTIONS = []
RULE = ""


def generate(rng, tier, count):
    for i in range(count):
        yield L.gen_scenario(rng, rejecting=(i % 8 == 7))


def generate_rejecting(rng, tier, count):
    for _ in range(count):
        yield L.gen_scenario(rng, rejecting=True)


run_impl = L.run_impl
oracle = L.oracle
tags = L.tags
nontrivial = L.nontrivial

if __name__ == "__main__":
    import sys
    core.main(sys.modules[__name__])
