"""C11 — property layers and cell attributes are one value; selection is exact."""
from . import core, layers_common as L

PROP = "C11"
DRIVER = "drv_layers"
LEAN_MODULES = ["MesaModel.Props.C11", "MesaModel.Props.C11Ball", "MesaModel.Props.C18Layers"]
_T = [
    "C11_reach_iff_history", "C11_layers_never_share_an_array", "C11_descriptors_are_the_layer_dict", "C11_two_views_one_value", "C11_cell_write_read_through_layer",
    "C11_layer_write_read_through_cell", "C11_write_frame_by_array", "C11_rebound_layers_are_one_value",
    "C11_single_cell_write_accepted_iff", "C11_value_changes_only_by_writes", "C11_read_after_write_persists",
    "C11_set_cells_pointwise", "C11_modify_cells_pointwise", "C11_attached_layers_have_entries",
    "C11_set_in_place_modify_repoints", "C11_modify_cell_pointwise", "C11_write_through_live_reference",
    "C11_create_default", "C11_detach_keeps_values",
    "C11_attach_exposes_layer", "C11_empty_view_is_emptiness", "C11_empties_readout_agrees", "C11_empty_view_wrong_at_most_where_written",
    "C11_unsafe_write_is_the_only_way",
    "C11_cells_exact", "C11_select_exact", "C11_select_filters_only", "C11_select_one_extreme",
    "C11_select_list_is_mask", "C11_only_empty_is_actual_emptiness",
    "C11_reserved_names_are_cell_class_attributes", "C11_cell_protocol_names_reserved",
    "C11_builtin_empty_is_created_layer", "C11_layer_never_shadows_cell_attribute",
    "C11_assignment_cast_value", "C11_typed_cell_write_one_value", "C11_typed_layer_write_one_value",
    "C11_set_cells_typed", "C11_modify_promotes_dtype", "C11_ufunc_result_types", "C11_modify_ufunc_typed", "C11_ufunc_mul_exact",
    "C11_dtype_changes_only_by_modify", "C11_modify_cell_typed", "C11_from_data_copies",
    "C11_within_radius_symmetric", "C11_neighborhood_mask_exact", "C11_neighborhood_mask_is_hop_closure_partial",
    "C11_select_within_saved_mask",
    "C11_shared_layer_second_grid", "C11_set_cells_array_pointwise",
    "C11_create_typed_default", "C11_new_layer_typed_default",
    "C11_layer_select_exact", "C11_layer_select_reads_cell_values", "C11_aggregate_exact",
    "C11_cast_rules_match_numpy", "C11_ufunc_types_match_numpy", "C11_cast_values_match_numpy",
    "C11_grid_attribute_is_layer", "C11_grid_attribute_assignment_refused", "C11_grid_attribute_never_replaces_layer",
    "C18_layers_add_reject_unchanged", "C18_layers_create_reject_unchanged", "C18_layers_add_rejects_exactly",
    "C18_layers_step_reject_unchanged", "C18_layers_rebind_reject_unchanged", "C18_layers_rejected_calls_invisible",
]
THEOREMS = ["Mesa.Layers." + t for t in _T]
COUNTS = {"quick": 6000, "thorough": 150000}
TRUSTED = [
    "numpy: np.copyto / np.where / np.vectorize / ufuncs / np.logical_and / masked max,min / np.where->zip apply the "
    "element-wise function point-wise, in row-major order, on the values used (bool 0/1, small ints, floats that are "
    "multiples of 1/4: exact in binary64); entries are Ints in the encoding of the array's dtype",
    "numpy's casts and result types are *modelled* (castTo = assignment cast, sameKind = np.copyto's rule, UOp.result / "
    "DType.join = result type of ufunc(array, Python scalar) and of np.where among bool_/int64/float64); the rules "
    "(every pair of types, every ufunc of the op language) and the values on a sample grid are probed from the running "
    "numpy into Gen/NumpyTables.lean on every check (~100 lines of probing code in harness/layers_common.py) and the "
    "model is proved equal to these tables; beyond the grid they are compared with numpy through typed writes, typed "
    "constructor defaults, typed set_cells / modify_cells and dtype read-outs of the generated scenarios; other dtypes "
    "(int32, float32, uint8, object), NaN/inf, integer overflow, np.vectorize's choice of the output type from the "
    "*first* result when a Python function returns values of different types are not modelled",
    "numpy arrays are objects with identity (the model's heap): `a[...] = v` and np.copyto mutate, np.where allocates",
    "Python attribute lookup: a data descriptor on the class wins over the instance dict (PropertyDescriptor), hasattr() "
    "for the clash check; the model's list of Cell attribute names is generated (Gen/LayersTables.lean: AST of class Cell "
    "and of the dynamic GridCell class dict, ~100 lines of `ast` code in harness/layers_common.py, plus dir() of a bare "
    "Python class) and proved equal to dir(grid.cell_klass) of the running code on every check; the generator draws "
    "clashing names from that table",
    "occupancy is modelled minimally (who is in which cell); get_neighborhood_mask is modelled as the metric ball "
    "(Moore: every axis distance <= r, von Neumann: their sum <= r, shorter way round on a torus) and compared with the "
    "running code — the neighbourhood machinery itself (connections, recursion, caches, hex grids) is C07/C09; random "
    "cell selection, copy/pickle of grids with layers (C19) are not modelled here",
    "a second grid is modelled only as far as its cells see a shared layer (cset2/cget2 build it, add the layer, use one "
    "cell); set_cells with an array value only for arrays of the layer's shape (another shape is answered by the harness: "
    "numpy would broadcast or raise); unary ufuncs called with an out-array, user-written masks of the wrong shape, "
    "from_data of an empty array beyond its IndexError are outside the op language",
]
ASSUMPTIONS = [
    "protocol preconditions answered by the harness without calling mesa (mirrored by the model): placing a placed agent, "
    "moving/removing an unplaced one, entering an occupied SingleGrid cell by move_agent (half-done moves are C06/C08/C18 "
    "material of other model groups; on a cell space the call is made and the cell's own refusal observed), "
    "cell-attribute access to names of the Cell class, unknown ids",
    "the emptiness theorems and the oracle's emptiness clause assume the *user* does not overwrite, re-point or remove the "
    "built-in `empty` layer / write through a reference that aliases the emptiness array (safeHist: judged in the state each "
    "op is issued in; taking such a reference — grid.empty.data, legacy grid.empty_mask — and reading through it is allowed); "
    "unsafe histories are still generated and compared with the model",
    "values: Python bools, small ints and multiples of 1/4 of any type into layers of any dtype (numpy casts them; the "
    "model says how); untyped operands of modify_cells are of the layer's own dtype (logical ops on bool layers, "
    "arithmetic on numeric layers), typed operands of any type with + - * max min and or xor (* only with integral "
    "operands, Python-function form only for operators whose result type does not depend on the value); magnitudes stay "
    "far below 2^53; a user-made layer called `empty` (after removing the built-in one) is bool or int and is not "
    "written with foreign-typed scalars, because the grid itself writes raw True/False into it",
    "grid.<name>: layer names of the scenarios are not attributes of the Grid object itself (a layer called `torus` "
    "would be hidden by that attribute; the model's grid starts without own attributes); `gset` assigns a plain object, "
    "never `empty` while that name is free; the emptiness read-out takes the layer from the grid's dict, `dumpn` reads "
    "the attribute path (HasPropertyLayers.__getattr__)",
]
RULE = ("random scenarios over the three grid families (new cell spaces: Moore/VonNeumann/Hex, 1-3 dimensions, sizes 1-4, "
        "capacity None/0/1/2, torus or not; legacy SingleGrid/MultiGrid up to 4x4): 1-3 initial layers of dtype bool/int/float, "
        "then 8-35 ops from {create / free-standing layer (well- or mis-shaped, one in ten with a zero dimension and then a burst of bulk ops / reads on it: np.vectorize refuses conditions and Python functions there) / attach / detach, single-cell writes and "
        "reads through the layer and through the cell attribute, set_cells and modify_cells with and without condition, "
        "ufunc and Python-function operations, ~30% of all written values and modify operands being Python scalars of an "
        "arbitrary type (bool / int / float incl. non-integral floats: casts, refused casts, dtype promotion), dtype "
        "read-outs, layer names drawn from the generated table of cell-class attributes, legacy modify_cell (also typed), "
        "PropertyLayer.from_data of a held array, get_neighborhood_mask (radius 0-3, centre or not, Moore / von Neumann, "
        "torus or not, 1-3 dimensions) kept and combined with the other filters of later selections, set_cells / set_property / "
        "layer.data = <held array> with and without condition, reads and writes through the cells of a second grid the layer "
        "is added to, numeric layers lifted to magnitude 10^7 (distinct values become near ties for the extreme values), references to layer.data read and written before/after "
        "bulk ops, agent place/move/remove, emptiness read-outs, layer.select_cells, aggregate, assignments to and reads of grid.<name>, grid.select_cells over all "
        "16 combinations of {conditions, masks (literal, saved earlier mask-form results), only_empty, extreme values "
        "(1-2 entries, ties frequent)}}, every 8th scenario from the rejecting-call generator; each scenario ends with a full "
        "read-out; 9 hand-written probes (near-tie extremes, positional array set, dtype tour, copy / second grid / "
        "neighbourhood mask, typed defaults with the layer's own select_cells / aggregate, grid attribute) run first. non-trivial = at least two successful state-changing ops and one read through a view; distinct = distinct "
        "op-line sequences (sha1)")
HEADER_LINES = 1


_PROBES = {
    # distinct values that are near ties at magnitude 10^7: the extreme is one cell, not all of them
    "near-tie-extremes-legacy": """scenario single 2x2 0 - 0
create a int 0
lset 0 0.0 3
lset 0 1.1 4
modify 0 ufunc add 10000000 -
select oe=0 conds=- ext=a:hi masks=- save=-
select oe=0 conds=- ext=a:lo masks=- save=-
create b float 0
lset 1 0.1 1
modify 1 ufunc add 40000000 -
select oe=1 conds=- ext=b:hi masks=- save=-
select oe=0 conds=a:ge:10000003 ext=b:lo masks=- save=-""",
    "near-tie-extremes-new": """scenario new 2x3 0 moore 1
create a int 0
cset a 0.2 1
cset a 1.0 2
modify 1 fn add 10000000 -
select oe=0 conds=- ext=a:hi masks=- save=-
select oe=0 conds=- ext=a:lo masks=- save=-""",
    # conditional set_cells with an array value is positional (value[coordinate], not value.flat[k])
    "array-set-positional": """scenario new 1x3 0 moore 0
create a int 1
create b float 0
lset 1 0.0 5
lset 1 0.2 7
lset 2 0.1 4
grab 0 1
setfrom 2 0 eq:0
dump 2
cget b 0.2
grab 1 2
setfrom 1 1 -
setfrom 1 0 gt:5
dump 1""",
    "array-set-positional-legacy": """scenario multi 2x2 0 - 0
create a int 1
create b int 0
lset 0 0.0 5
lset 0 1.1 7
lset 1 0.1 4
grab 0 0
setfrom 1 0 eq:0
dump 1""",
    # casts on writes, refused casts, promotion by modify_cells; the cell attribute follows the re-pointed layer
    "dtype-tour": """scenario new 2x2 0 vonneumann 0
create a int 3
cset a 0.0 f:11
lget 1 0.0
cset a 0.1 f:-11
cget a 0.1
setcells 1 f:8 -
setcells 1 b:1 gt:2
dtype 1
grab 0 1
modify 1 ufunc add f:2 eq:1
dtype 1
dump 1
hdump 0
cset a 0.0 f:11
lget 1 0.0
hget 0 0.0
modify 0 ufunc sub b:1 -
cset a 1.1 b:1
modify 1 ufunc and i:0 gt:5
dump 1
dtype 1""",
    # from_data copies; the same layer on a second grid; neighbourhood mask feeding a selection
    "copy-second-grid-nbmask": """scenario new 3x3 0 vonneumann 1
create a float 3
grab 0 1
fromdata b 0
hset 0 0.1 9
dump 2
dtype 2
attach 2
cget b 0.1
cset2 1 1.1 f:-6
cget a 1.1
cget2 1 1.1
cget2 0 0.0
lset 1 1.1 36
lset 1 0.1 20
lset 1 2.0 20
nbmask 0 0.0 0 1
select oe=0 conds=- ext=a:hi masks=s0 save=-
nbmask 1 0.0 1 0
nbmask 1 3.0 1 1""",
    # defaults of another Python type are cast by np.full (2.75 -> 2, -0.5 -> True, True -> 1.0); the layer's own
    # select_cells / aggregate read the current values
    "typed-defaults-layer-select-aggregate": """scenario new 1x3 0 moore 0
create a int f:11
cget a 0.1
lget 1 0.2
dtype 1
create b bool f:-2
cget b 0.0
create c float b:1
dump 3
new d 1x3 int f:-11
attach 4
cget d 0.0
lset 1 0.1 5
lsel 1 gt:2
agg 1 sum
agg 1 max
agg 1 min
agg 2 sum""",
    # grid.<name>: the attached layer; assignment refused while attached; an earlier attribute shadows it (code's caveat)
    "grid-attribute": """scenario new 1x2 0 moore 0
gset a
create a int 3
dumpn a
cget a 0.1
create b int 4
gset b
dumpn b
detach b
gset b
gset empty
dumpn empty
dumpn zz""",
    "typed-defaults-legacy": """scenario multi 2x2 0 - 0
create a int f:11
cget a 0.1
create b bool i:3
dump 1
dtype 1
lset 0 1.0 -1
agg 0 sum
agg 0 min
lsel 0 lt:2""",
}


def builtin_corpus():
    """hand-written probes of the extended coverage (run first, like the corpus): seed-independent"""
    return [core.Scenario(text.split("\n"), {"probe": name}) for name, text in _PROBES.items()]


def generate(rng, tier, count):
    for i in range(count):
        yield L.gen_scenario(rng, rejecting=(i % 8 == 7))


def generate_rejecting(rng, tier, count):
    """scenarios rich in rejected calls (clashing / duplicate / mis-shaped layers, unknown names, out-of-range
    writes, ufuncs without operand, bad selections, full cells) followed by valid ops — for C18"""
    for _ in range(count):
        yield L.gen_scenario(rng, rejecting=True)


gen_tables = L.gen_tables


def extra(ctx):
    """says in the evidence where the reserved-name table came from: when the AST extractor does not recognise the shape of
    `class Cell` it falls back to the probe (so that a harmless refactoring raises no alarm) and
    C11_reserved_names_are_cell_class_attributes then compares the probe with itself"""
    if L.TABLES_FROM == "unknown":
        L.gen_tables()
    ctx.cov["reserved_table_source"] = L.TABLES_FROM
    if L.TABLES_FROM != "ast":
        ctx.notes.append("reserved-name table taken from the probe (" + L.TABLES_FROM + "): "
                         "C11_reserved_names_are_cell_class_attributes is circular in this run")
run_impl = L.run_impl
oracle = L.oracle
tags = L.tags
nontrivial = L.nontrivial

if __name__ == "__main__":
    import sys
    core.main(sys.modules[__name__])
