"""C11 — property layers and cell attributes are one value; selection is exact."""
from . import core, layers_common as L

PROP = "C11"
DRIVER = "drv_layers"
LEAN_MODULES = ["MesaModel.Props.C11", "MesaModel.Props.C18Layers"]
_T = [
    "C11_reach_iff_history", "C11_two_views_one_value", "C11_cell_write_read_through_layer",
    "C11_layer_write_read_through_cell", "C11_value_changes_only_by_writes", "C11_read_after_write_persists",
    "C11_set_cells_pointwise", "C11_modify_cells_pointwise",
    "C11_set_in_place_modify_repoints", "C11_modify_cell_pointwise", "C11_write_through_live_reference",
    "C11_create_default", "C11_detach_keeps_values",
    "C11_attach_exposes_layer", "C11_empty_view_is_emptiness", "C11_empties_readout_agrees",
    "C11_cells_exact", "C11_select_exact", "C11_select_filters_only", "C11_select_one_extreme",
    "C11_select_list_is_mask", "C11_only_empty_is_actual_emptiness",
    "C11_reserved_names_are_cell_class_attributes", "C11_cell_protocol_names_reserved",
    "C11_builtin_empty_is_created_layer", "C11_layer_never_shadows_cell_attribute",
    "C18_layers_add_reject_unchanged", "C18_layers_create_reject_unchanged", "C18_layers_add_rejects_exactly",
    "C18_layers_step_reject_unchanged", "C18_layers_rejected_calls_invisible",
]
THEOREMS = ["Mesa.Layers." + t for t in _T]
COUNTS = {"quick": 6000, "thorough": 150000}
TRUSTED = [
    "numpy: np.copyto / np.where / np.vectorize / ufuncs / np.logical_and / masked max,min / np.where->zip apply the "
    "element-wise function point-wise, in row-major order, without changing dtype on the values used (bool 0/1, small ints, "
    "floats that are multiples of 1/4: exact in binary64); the model is untyped Int",
    "numpy arrays are objects with identity (the model's heap): `a[...] = v` and np.copyto mutate, np.where allocates",
    "Python attribute lookup: a data descriptor on the class wins over the instance dict (PropertyDescriptor), hasattr() "
    "for the clash check; the model's list of Cell attribute names is generated (Gen/LayersTables.lean: AST of class Cell "
    "and of the dynamic GridCell class dict, ~100 lines of `ast` code in harness/layers_common.py, plus dir() of a bare "
    "Python class) and proved equal to dir(grid.cell_klass) of the running code on every check; the generator draws "
    "clashing names from that table",
    "occupancy is modelled minimally (who is in which cell); neighbourhoods, get_neighborhood_mask, random cell "
    "selection, copy/pickle of grids with layers (C19) are not modelled here",
    "layers shared between two grids, `layer.data = array` on legacy layers, unary ufuncs called with an out-array, "
    "user-written masks of the wrong shape (numpy broadcasting) are outside the op language",
]
ASSUMPTIONS = [
    "protocol preconditions answered by the harness without calling mesa (mirrored by the model): placing a placed agent, "
    "moving/removing an unplaced one, entering a full cell (half-done moves are C06/C08/C18 material of other model groups), "
    "cell-attribute access to names of the Cell class, unknown ids",
    "the emptiness theorems and the oracle's emptiness clause assume the *user* does not overwrite, re-point, alias or "
    "remove the built-in `empty` layer (Op.safe); such histories are still generated and compared with the model",
    "dtype-respecting values: bools into bool layers, ints into int layers, multiples of 1/4 into float layers; "
    "logical ops on bool layers, arithmetic on numeric layers; magnitudes stay far below 2^53; a user-made layer "
    "called `empty` (after removing the built-in one) is bool or int, because the grid writes raw True/False into it",
]
RULE = ("random scenarios over the three grid families (new cell spaces: Moore/VonNeumann/Hex, 1-3 dimensions, sizes 1-4, "
        "capacity None/1/2, torus or not; legacy SingleGrid/MultiGrid up to 4x4): 1-3 initial layers of dtype bool/int/float, "
        "then 8-35 ops from {create / free-standing layer (well- or mis-shaped) / attach / detach, single-cell writes and "
        "reads through the layer and through the cell attribute, set_cells and modify_cells with and without condition, "
        "ufunc and Python-function operations, legacy modify_cell, references to layer.data read and written before/after "
        "bulk ops, agent place/move/remove, emptiness read-outs, layer.select_cells, aggregate, grid.select_cells over all "
        "16 combinations of {conditions, masks (literal, saved earlier mask-form results), only_empty, extreme values "
        "(1-2 entries, ties frequent)}}, every 8th scenario from the rejecting-call generator; each scenario ends with a full "
        "read-out. non-trivial = at least two successful state-changing ops and one read through a view; distinct = distinct "
        "op-line sequences (sha1)")
HEADER_LINES = 1


def generate(rng, tier, count):
    for i in range(count):
        yield L.gen_scenario(rng, rejecting=(i % 8 == 7))


def generate_rejecting(rng, tier, count):
    """scenarios rich in rejected calls (clashing / duplicate / mis-shaped layers, unknown names, out-of-range
    writes, ufuncs without operand, bad selections, full cells) followed by valid ops — for C18"""
    for _ in range(count):
        yield L.gen_scenario(rng, rejecting=True)


gen_tables = L.gen_tables
run_impl = L.run_impl
oracle = L.oracle
tags = L.tags
nontrivial = L.nontrivial

if __name__ == "__main__":
    import sys
    core.main(sys.modules[__name__])
