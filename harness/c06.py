"""C06 — cell spaces: agent.cell and cell.agents mirror each other; capacity; emptiness views."""
from . import cells_common as C
from . import core

PROP = "C06"
DRIVER = "drv_cells"
LEAN_MODULES = ["MesaModel.Props.C06", "MesaModel.Props.C18Cells", "MesaModel.Props.C01Cells"]
THEOREMS = ["Mesa.Cells." + t for t in (
    "C06_spaces_wellformed", "C06_mirror", "C06_capacity", "C06_capacity_write", "C06_views", "C06_select_random_empty_cell",
    "C06_remove_leaves_cell", "C06_direction_map_generated", "C06_invariant_all_histories",
    "C06_histories_with_connection_edits", "C06_collection_views", "C06_select_spec", "C06_select_random_spec",
    "C06_hex_direction_names", "C06_voronoi_default_capacity",
    "C06_assignment_exact", "C06_unplace_and_fixed_exact", "C06_select_random_empty_exact", "C06_clear_cell", "C06_cell_empty_attribute",
    "C18_cells_setCell_reject_unchanged", "C18_cells_moveTo_reject_unchanged", "C18_cells_moveRelative_reject_unchanged",
    "C18_cells_gridMove_reject_unchanged", "C18_cells_rejected_call_is_noop", "C18_cells_rejected_call_is_noop_with_edits",
    # C01 on the cells model (Props/C01Cells.lean; also to be listed by harness/c01.py): audited here so that they cannot rot
    "C01_cells_collections_carry_the_space_generator", "C01_cells_selection_determined", "C01_cells_random_empty_determined")]
COUNTS = {"quick": 1500, "thorough": 100000}
TRUSTED = [
    "Python object identity of cells/agents is modelled by names (cell key in space._cells, agent creation index)",
    "list.append/list.remove/len on Cell._agents, dict insertion order of Cell.connections and space._cells",
    "numpy: the bool `empty` PropertyLayer stores and returns the value written through the cell descriptor",
    "random.Random.choice = seq[_randbelow(len(seq))] (CPython 3.12); draws come from a scripted _randbelow",
    "AgentSet construction from an iterable keeps first occurrences in order (C03)",
    "CellCollection: dict iteration order of `_cells`, generators consumed once by the dict comprehension of a new collection, "
    "float arithmetic of `int(len * at_most)` (the harness uses fractions with denominators 1, 2, 4: exact in binary64)",
    "VoronoiGrid default capacities: the model takes the exact cell areas (generator: exact Delaunay of centroids + frame corners, "
    "circumcentres as Fractions, shoelace) and applies int(500 * area); the code's float polygon areas are only compared through the "
    "capacities they yield, on point sets where int(area * 500) is not within 1e-6 of a rounding edge",
    "that a collection carries the space's generator is checked on the implementation (`coll.random is space.random`, draws "
    "consumed from the script), not modelled: the model receives the draws explicitly",
]
ASSUMPTIONS = [
    "capacities are None or integers >= 0 (0: a cell that takes nobody, repair SC3; the property's quantifier lists None, 1, k >= 1); float "
    "capacities (Grid accepts them: 2.5 holds 3 agents and is never `is_full`) are not modelled; cells are only reached through the space they belong to",
    "Cell.connect / Cell.disconnect are called on cells of the space they belong to (connections never lead out of the space)",
]
RULE = ("random histories on random spaces: Moore/von Neumann grids with 1-3 axes of size 1-4(6), hex grids, Network on random "
        "graphs <= 8 nodes (some directed), VoronoiGrid on 3-7 integer points in general position (half of them clusters in units of 1/16..1/64 with the default "
        "capacity_function, so that inner cells hold 1-8 agents); torus on/off; capacity None/1/2/3; "
        "2-8 agents of the three classes; 10-45 ops from {set (incl. None, own cell, non-cell), move_to, move_relative (existing and "
        "missing keys), Grid2DMovingAgent.move (all names, random case, distances -1..5), remove, new, _try_random on/off, "
        "select_random_empty_cell with scripted draws (misses then a hit), select_random_cell, the CellCollection API (cells, agents, len, "
        "in, [cell], select with filter_func none/is_empty/occupied/is_full/not full and at_most inf/int (also <= 0)/float fractions/"
        "floats > 1, chained, select_random_cell / select_random_agent with 0-3 scripted draws) on all_cells, empties, "
        "get_neighborhood(r, ic), neighborhood and selections of these — ~12% of the ops; ~4%: `cell.agents` handed out and cleared (a copy: "
        "nothing may change) / a cell emptied by `for a in cell.agents: a.remove()`; ~4% on every space family: `cell.capacity = k` written by hand "
        "(None, 0, 1-3, the occupancy -1 / +0 / +1; mostly on occupied cells; rarely no such cell), the capacities of all cells are part of every observation}; 45% of the networks are not simple (self loops, repeated / "
        "antiparallel edges, MultiGraph / MultiDiGraph), capacity 0 in 1 of 7 headers, 40% of the default-capacity Voronoi grids are also given a "
        "`capacity` argument (overwritten by the function); every third scenario also with "
        "Cell.connect / Cell.disconnect edits (existing, new and default keys, non-cells) at the cells of movable agents; the full observation (agent.cell, "
        "cell.agents, is_empty, is_full, empty layer, cell.empty, empties, space.agents, model.agents) is compared after every op; "
        "non-trivial = at least 3 accepted placements and one rejected call or emptiness query; distinct = distinct op-line sequences")
HEADER_LINES = 1


def gen_tables():
    return C.gen_tables()


def generate(rng, tier, count):
    for i in range(count):
        yield C.gen_c06(rng, rejecting=(i % 5 == 4), edits=(i % 3 == 0), default_caps=True, rich=True)


def generate_rejecting(rng, tier, count):
    """(C18) scenarios rich in rejected placing calls followed by valid ops"""
    for _ in range(count):
        yield C.gen_c06(rng, rejecting=True)


run_impl = C.run_impl


def oracle(sc, obs):
    return C.oracle_c06(sc, obs)


def nontrivial(sc, obs):
    placed = sum(1 for l, o in zip(sc.lines, obs) if l.split()[0] in C.PLACING and o.startswith("ok"))
    other = any(o.startswith("err") or l.startswith("randempty") for l, o in zip(sc.lines[1:], obs[1:]))
    return placed >= 3 and other


tags = C.tags_c06

if __name__ == "__main__":
    import sys

    core.main(sys.modules[__name__])
