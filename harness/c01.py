"""C01 — a seeded run is reproducible in every process, hash seed and history (partial: see TRUSTED).

Deciding parts:
 * generated table `lean/MesaModel/Gen/RngSites.lean` (every stochastic call site of mesa/**/*.py, classified by
   receiver) + theorem `C01_no_global_sites` (decide) re-proved against the current source on every run;
 * Lean theorems on the scripted-generator model (`Props/C01.lean`): hash-order independence of sort-then-pick,
   shuffle is a permutation determined by (list, draws), re-seeding replays;
 * runtime matrix on the real generators (this module): same spec run in-process, in-process after unrelated
   history, and in fresh subprocesses under several PYTHONHASHSEEDs; process-global generator states compared
   before/after; generator identity of every derived collection; re-seeding replays.
"""
from __future__ import annotations

import ast
import json
import os
import subprocess
import sys

from . import core
from . import c01_runner as RUN
import numpy as np

PROP = "C01"
DRIVER = None
LEAN_MODULES = ["MesaModel.Props.C01", "MesaModel.Props.C01Legacy", "MesaModel.Props.C01Cells", "MesaModel.Props.C01Agents"]
THEOREMS = ["Mesa.Rng." + t for t in (
    "C01_no_global_sites", "C01_sites_nonempty", "C01_sorted_pick_hashorder_independent",
    "C01_shuffle_perm", "C01_shuffle_deterministic", "C01_reseed_replays", "C01_derived_carry_generator")] + [
    # the hash-order and draw-count clauses proved on the models of the stochastic API themselves (not on the toy of Model/Repro.lean)
    "Mesa.Legacy." + t for t in (
        "C01_legacy_sorted_set_order_independent", "C01_legacy_move_to_empty_pick_order_independent",
        "C01_legacy_move_to_empty_draws_by_size", "C01_legacy_move_to_empty_is_the_model",
        "C01_legacy_hex_neighborhood_set_order_independent")] + [
    # of Props/C01Cells.lean only the theorem with content beyond its definitions is claimed here (second review: the other two
    # are an induction over a hand-written table and a congruence of equality; they stay compiled and audited under C06)
    "Mesa.Cells." + t for t in ("C01_cells_random_empty_determined",)] + [
    # shuffle / shuffle_do draw counts and determinism, generator handles of program-made sets, on the AgentSet / world models
    "Mesa.ASet.C01_agents_shuffle_draws", "Mesa.ASet.C01_agents_shuffle_function_of_members_and_script",
    "Mesa.ASet.C01_agents_history_draws", "Mesa.Agents.C01_agents_shuffle_do_draws", "Mesa.Agents.C01_agents_only_shuffles_draw",
    "Mesa.Agents.C01_agents_sets_keep_their_generator"]
COUNTS = {"quick": 24, "thorough": 240}
WATCHDOG = 400
HEADER_LINES = 0
TRUSTED = [
    "Mersenne Twister / PCG64 and CPython's random.Random algorithms above _randbelow; numpy, networkx, scipy internals",
    "CPython set/dict iteration order as a function of PYTHONHASHSEED (exercised by the subprocess matrix, not modelled beyond 'an arbitrary permutation')",
    "harness/c01.py AST extractor's notion of a stochastic call site (callee names, receiver classification)",
    "a hidden draw from a global generator inside a C extension cannot be seen by the static table; only the before/after state comparison can see it",
]
ASSUMPTIONS = ["same interpreter, same numpy/networkx versions in all compared processes",
               "models are seeded (seed= or rng= given); unseeded models are outside the property"]
RULE = ("specs = nine bundled example models + generated API programs (7 space kinds x 12 stochastic op codes x 5 seed/rng forms (int seed, rng int / SeedSequence / Generator, a str seed numpy rejects)); "
        "each spec is executed in-process, in-process after 2 unrelated warm-up programs, and in subprocesses with PYTHONHASHSEED "
        "0, 1 and 4242 (thorough: also 'random'); non-trivial = the per-step digest changed at least twice during the run; distinct by spec")

STOCH = {"random", "randint", "randrange", "choice", "choices", "shuffle", "sample", "uniform", "gauss", "normalvariate",
         "triangular", "betavariate", "expovariate", "getrandbits", "integers", "normal", "permutation", "permuted", "binomial",
         "poisson", "standard_normal", "exponential", "rand", "randn", "random_sample", "seed"}
NX_RANDOM = {"erdos_renyi_graph", "gnp_random_graph", "fast_gnp_random_graph", "gnm_random_graph", "barabasi_albert_graph",
             "watts_strogatz_graph", "newman_watts_strogatz_graph", "random_regular_graph", "powerlaw_cluster_graph",
             "random_geometric_graph", "connected_watts_strogatz_graph", "random_tree", "binomial_graph", "spring_layout"}


def _recv_text(node):
    try:
        return ast.unparse(node)
    except Exception:
        return "?"


def extract_sites(repo=None):
    """[(file, line, callee, receiver text, class)]   class in modelGen | globalPy | globalNp | fallback | unknown"""
    repo = repo or core.REPO
    sites = []
    root = os.path.join(repo, "mesa")
    for dp, _, fns in sorted(os.walk(root)):
        for fn in sorted(fns):
            if not fn.endswith(".py") or fn in ("app.py", "st_app.py"):
                continue
            path = os.path.join(dp, fn)
            rel = os.path.relpath(path, repo)
            try:
                tree = ast.parse(open(path).read())
            except SyntaxError:
                continue
            imports_random = any(isinstance(n, ast.Import) and any(a.name == "random" and a.asname is None for a in n.names)
                                 for n in ast.walk(tree))

            def visit(node, params, guards=frozenset()):
                if isinstance(node, (ast.FunctionDef, ast.AsyncFunctionDef, ast.Lambda)):
                    a = node.args
                    params = params | {x.arg for x in a.args + a.kwonlyargs + a.posonlyargs}
                    guards = frozenset()
                if isinstance(node, ast.If):
                    # `if <parameter> is None:` - the body runs only when the caller passed no generator
                    t = node.test
                    g = None
                    if (isinstance(t, ast.Compare) and isinstance(t.left, ast.Name) and len(t.ops) == 1 and isinstance(t.ops[0], ast.Is)
                            and isinstance(t.comparators[0], ast.Constant) and t.comparators[0].value is None and t.left.id in params
                            and t.left.id in ("random", "rng", "seed")):
                        g = t.left.id
                    visit(t, params, guards)
                    for ch in node.body:
                        visit(ch, params, guards | {g} if g else guards)
                    for ch in node.orelse:
                        visit(ch, params, guards)
                    return
                if isinstance(node, ast.Call) and isinstance(node.func, ast.Attribute):
                    callee, recv = node.func.attr, node.func.value
                    rt = _recv_text(recv)
                    cls = None
                    if callee == "shuffle" and not node.args:
                        cls = "modelGen"  # AgentSet.shuffle(): Mesa API, draws from the set's own generator
                    elif callee in STOCH:
                        if isinstance(recv, ast.Name) and recv.id == "random":
                            cls = "modelGen" if "random" in params else ("globalPy" if imports_random else "unknown")
                        elif rt in ("np.random", "numpy.random"):
                            cls = "globalNp"
                        elif isinstance(recv, ast.Name) and recv.id in ("rng",) and recv.id in params:
                            cls = "modelGen"
                        elif isinstance(recv, ast.Attribute) and recv.attr in ("random", "rng", "_random"):
                            cls = "modelGen"
                        elif isinstance(recv, ast.Name) and recv.id in ("rng", "random_gen", "generator"):
                            cls = "modelGen"
                        elif callee in ("random", "seed", "choice", "sample", "shuffle", "randint", "uniform", "choices", "randrange"):
                            cls = "unknown"
                    elif callee == "Random" and isinstance(recv, ast.Name) and recv.id == "random" and not node.args and not node.keywords:
                        cls = "fallback"
                    elif callee == "default_rng" and rt in ("np.random", "numpy.random") and not node.args and not node.keywords:
                        cls = "fallback"
                    elif callee in NX_RANDOM and isinstance(recv, ast.Name) and recv.id in ("nx", "networkx"):
                        cls = "modelGen" if any(k.arg == "seed" for k in node.keywords) else "globalPy"
                    if cls:
                        sites.append((rel, node.lineno, callee, rt, cls, bool(guards)))
                if (isinstance(node, ast.Call) and isinstance(node.func, ast.Name) and node.func.id == "Random"
                        and not node.args and not node.keywords):
                    sites.append((rel, node.lineno, "Random", "", "fallback", bool(guards)))
                for ch in ast.iter_child_nodes(node):
                    visit(ch, params, guards)

            visit(tree, frozenset())
    return sites


def gen_tables():
    sites = extract_sites()
    files = sorted({s[0] for s in sites})
    fidx = {f: i for i, f in enumerate(files)}
    L = ["/- GENERATED by harness/c01.py from the current mesa source on every check run. Do not edit. -/",
         "namespace Mesa.Rng", "",
         "inductive Recv where | modelGen | globalPy | globalNp | fallback | unknown", "deriving DecidableEq, Repr", "",
         "/-- `guarded`: the call sits in the body of `if <random|rng|seed parameter> is None:` (taken only when the caller passed no generator) -/",
         "structure Site where", "  file : Nat", "  line : Nat", "  callee : String", "  recv : Recv", "  guarded : Bool", "deriving Repr", "",
         "def siteFiles : List String := [" + ", ".join(json.dumps(f) for f in files) + "]", "",
         "def sites : List Site := ["]
    L += [f"  ⟨{fidx[f]}, {ln}, {json.dumps(c)}, .{k}, {'true' if g else 'false'}⟩," + f"  -- {f}:{ln} {r}.{c}" for (f, ln, c, r, k, g) in sites]
    if sites:
        L[-1] = L[-1].replace("⟩,", "⟩ ", 1)
    L += ["]", "", "end Mesa.Rng", ""]
    return {"MesaModel/Gen/RngSites.lean": "\n".join(L)}


# --------------------------------------------------------------------------------------

OPS = ["shuffle_do", "do", "shuffle_inplace", "select_frac", "select_rich", "groupby", "create", "remove", "by_type", "np_rng",
       "cell_agents", "sort"]
GRIDS = ["moore", "vn", "hex", "network", "network_str", "single", "multi", "none"]
FORMS = ["seed", "rng_int", "rng_seq", "rng_gen", "seed_str"]


def rand_seed(R):
    """all seeds: the boundary seed 0 (falsy!) one time in five"""
    return 0 if R.random() < 0.2 else R.randrange(1, 10**6)


def rand_spec(R, examples_first=None):
    if examples_first is not None:
        return {"prog": "example:" + examples_first, "seed": rand_seed(R), "form": "seed", "steps": 3}
    return {"prog": "api", "grid": R.choice(GRIDS), "n": R.randrange(3, 8), "seed": rand_seed(R),
            "form": R.choice(FORMS), "steps": R.randrange(2, 5), "ops": [R.choice(OPS) for _ in range(R.randrange(2, 6))]}


def generate(rng, tier, count):
    names = list(RUN.EXAMPLES)
    for i in range(count):
        if rng.random() < 0.34:
            spec = rand_spec(rng, examples_first=rng.choice(names))
        else:
            spec = rand_spec(rng)
        warm = [rand_spec(rng), rand_spec(rng, examples_first=rng.choice(names))]
        if spec["prog"].startswith("example:"):
            # the same model class built earlier in this process with other constructor arguments
            warm.append(dict(rand_spec(rng, examples_first=spec["prog"].split(":", 1)[1]), alt=True))
        hs = ["0", "1", "4242"] + (["random"] if tier == "thorough" else [])
        yield core.Scenario(["spec " + json.dumps(spec, sort_keys=True)], {"warm": warm, "hashseeds": hs})


def builtin_corpus():
    """every bundled example once with the same class built first with other constructor arguments (class-level state that one
    instance leaves behind changes a later default run of the same class), default seed form, seed 0 for every third"""
    out = []
    for i, name in enumerate(RUN.EXAMPLES):
        spec = {"prog": "example:" + name, "seed": 0 if i % 3 == 0 else 1000 + i, "form": "seed", "steps": 3}
        warm = [{"prog": "example:" + name, "seed": 77 + i, "form": "seed", "steps": 2, "alt": True}]
        out.append(core.Scenario(["spec " + json.dumps(spec, sort_keys=True)], {"warm": warm, "hashseeds": ["0", "1"]}))
    return out


def _sub(spec, hashseed):
    env = dict(os.environ, PYTHONHASHSEED=hashseed, MESA_REPO=core.REPO)
    p = subprocess.run([sys.executable, "-m", "harness.c01_runner", json.dumps(spec)], cwd=core.VERIF, env=env,
                       capture_output=True, text=True, timeout=300)
    if p.returncode != 0:
        return {"error": p.stderr[-800:]}
    return json.loads(p.stdout.strip().splitlines()[-1])


def run_impl(sc):
    spec = json.loads(sc.lines[0].split(" ", 1)[1])
    res = {"inproc": RUN.run_spec(spec), "warm": RUN.run_spec(dict(spec, warm=sc.meta.get("warm", [])))}
    for hs in sc.meta.get("hashseeds", ["0"]):
        res["hash" + hs] = _sub(spec, hs)
    sc.meta["results"] = res
    ref = res["inproc"]["digests"]
    return ["ok steps=%d changed=%d" % (len(ref) - 1, len(set(ref)))]


def oracle(sc, obs):
    res = sc.meta.get("results") or {}
    bad = []
    ref = res["inproc"]
    for k, r in res.items():
        if "error" in r:
            bad.append(f"run-error: configuration {k}: {r['error'][-300:]}")
            continue
        if r["digests"] != ref["digests"]:
            i = next(j for j, (a, b) in enumerate(zip(r["digests"], ref["digests"])) if a != b) if len(r["digests"]) == len(ref["digests"]) else -1
            bad.append(f"trajectory: configuration {k} differs from the in-process run at step {i}")
        if not r["global_py_unchanged"]:
            bad.append(f"global-py: configuration {k} disturbed the process-global random generator")
        if not r["global_np_unchanged"]:
            bad.append(f"global-np: configuration {k} disturbed numpy's global generator")
        if r["derived_bad"]:
            bad.append(f"derived: collections without the model's generator: {r['derived_bad']}")
        if not r.get("same_obj_ok", True):
            bad.append(f"same-seed-object: configuration {k}: two models built from the same SeedSequence object differ")
        if not r["reseed_ok"]:
            bad.append(f"reseed: configuration {k}: reset_randomizer()/reset_rng() did not replay the stream")
    return bad


def nontrivial(sc, obs):
    return int(obs[0].split("changed=")[1]) >= 3


def tags(sc, obs):
    spec = json.loads(sc.lines[0].split(" ", 1)[1])
    yield "prog:" + spec["prog"]
    yield "form:" + spec["form"]
    if spec["prog"] == "api":
        yield "grid:" + spec["grid"]
        for o in spec["ops"]:
            yield "op:" + o


def extra(ctx):
    """batch_run with 1 vs 2 worker processes must give the same rows (thorough: 3 examples, quick: 1)"""
    import mesa
    from mesa.examples.basic.boltzmann_wealth_model.model import BoltzmannWealth
    from mesa.examples.basic.schelling.model import Schelling

    jobs = [(BoltzmannWealth, {"n": 8, "width": 4, "height": 4, "seed": [3, 4]}),
            (RUN.BatchProbeModel, {"n": 5, "rng": [np.random.SeedSequence(77)]})]
    if ctx.tier == "thorough":
        jobs.append((Schelling, {"height": 6, "width": 6, "density": 0.7, "seed": [11, 12, 13]}))
    n = 0
    for klass, params in jobs:
        rows = []
        for procs in (1, 2):
            r = mesa.batch_run(klass, params, number_processes=procs, iterations=2, max_steps=4, data_collection_period=1,
                               display_progress=False)
            rows.append(sorted(json.dumps({k: v for k, v in x.items() if k != "rng"}, sort_keys=True, default=str) for x in r))
            # iterations of identical, identically seeded kwargs must coincide
            def strip(x, it):
                return sorted(json.dumps({k: v for k, v in y.items() if k not in ("RunId", "iteration", "rng")}, sort_keys=True, default=str)
                              for y in x if y["iteration"] == it)
            if len(list(params.get("seed", params.get("rng", [0])))) == 1 and strip(r, 0) != strip(r, 1):
                ctx.violation("batch-iterations", {"kind": "impl-counterexample", "oracle_clause": ["batch-iterations: two iterations with the same seed object differ"],
                                                   "model": klass.__name__, "procs": procs, "it0": strip(r, 0)[:4], "it1": strip(r, 1)[:4]})
        n += 1
        if rows[0] != rows[1]:
            ctx.violation("batch-procs", {"kind": "impl-counterexample", "oracle_clause": ["batch-procs: rows differ between number_processes=1 and 2"],
                                          "model": klass.__name__, "params": params, "rows_1": rows[0][:5], "rows_2": rows[1][:5]})
    ctx.cov["batch_run_process_comparisons"] = n
    ctx.cov["rng_call_sites"] = len(extract_sites())
