"""World scenarios of the `agents` group: implementation runner, generator and trace oracles
shared by C02 (registry) and C04 (activation).  Protocol: see lean/Driver/Agents.lean.

Agents are named by their global creation serial (`aid`).  The harness itself keeps **no strong
reference** to an agent unless the scenario says so (`h=1` at creation, dropped by `unhold`):
everything else goes through a table of weak references, so that "removed from its model and not
held by the program" really means dead (CPython refcounting), as the property C04 requires.
"""
from __future__ import annotations

import weakref

from . import core
from .scripted_random import ScriptedRandom, scripted_model

NTYPES = 4


def _mesa():
    core.import_mesa()
    import mesa.agent as magent
    from mesa import Agent, Model

    return Model, Agent, magent.AgentSet


_CLASSES = None


class CallbackRaised(Exception):
    """what a callback whose script says `raise` raises; nothing in mesa may catch it"""


class _Override:
    """a per-instance replacement of the method `act` (strategy pattern: `agent.act = something`).  It holds the agent
    weakly - an instance attribute referring back to its owner strongly would be a reference cycle, and the harness
    relies on refcounting deaths"""

    __slots__ = ("ref",)

    def __init__(self, agent):
        self.ref = weakref.ref(agent)

    def __call__(self, arg, tag=None, **extra):
        agent = self.ref()
        return agent.model.world.callback(agent, arg, tag, via="instance", extra=extra)


def classes():
    """Model subclass + agent hierarchy  T0 <- T1 <- T3,  T2 apart (exact-class grouping must not merge them).
    Properties the correct code must not depend on: agents of class T2 are *falsy* (`__bool__`), those of T3 are empty
    containers (`__len__` = 0); agents whose x is a multiple of 3 carry a per-instance `act`; `ping` is a staticmethod
    and `census` a classmethod (activated by name next to `act`)."""
    global _CLASSES
    if _CLASSES is None:
        Model, Agent, AgentSet = _mesa()

        class WModel(Model):
            world = None

        class T0(Agent):
            def __init__(self, model, x=0, y=None):
                super().__init__(model)
                self.x = x
                self.y = y
                self.aid = model.world.new_aid(self)
                if isinstance(x, int) and x % 3 == 0:
                    self.act = _Override(self)

            def act(self, arg, tag=None, **extra):
                return self.model.world.callback(self, arg, tag, via="class", extra=extra)

            @staticmethod
            def ping(world, arg, tag=None, **extra):
                world.named_calls.append(("ping", arg, (tag, fmt_extra(extra))))

            @classmethod
            def census(cls, world, arg, tag=None, **extra):
                world.named_calls.append(("census", arg, (tag, fmt_extra(extra)), cls))
                return cls

        class T1(T0):
            pass

        class T2(T0):
            def __bool__(self):
                return False

        class T3(T1):
            def __len__(self):
                return 0

        _CLASSES = (WModel, [T0, T1, T2, T3], AgentSet)
    return _CLASSES


def fmt_extra(extra):
    """the keyword arguments a callback received beyond `arg` and `tag`, canonical"""
    return tuple(sorted(extra.items()))


def extra_kw(arg, n):
    """glue ("arguments are passed through unchanged"): further pass-through keyword arguments of an activation.  Their
    names are the program's business - one is called `agent` (a trading partner, say), one `method`-like names are
    reserved by do/shuffle_do/map themselves and are not used"""
    return {"agent": arg + 11, "ref": arg + 13} if (arg // 3 + n) % 2 else {}


def fmt_val(v):
    """what an agent's constructor received: an int, or a whole sequence (list / tuple / ndarray)"""
    if isinstance(v, (int,)) or type(v).__module__ == "numpy" and getattr(v, "ndim", 1) == 0:
        return str(int(v))
    return "[" + ".".join(str(int(e)) for e in v) + "]"


def fmt_payload(x, y):
    return fmt_val(x) + ("" if y is None else "/" + fmt_val(y))


def parse_arg(tok):
    """`s:<v>` -> int, `l:<v1,..>` -> list of ints"""
    kind, _, vals = tok.partition(":")
    if kind == "s":
        return int(vals)
    return [int(v) for v in vals.split(",")] if vals != "-" else []


def as_sequence(xs, form):
    """glue: the same per-agent values as a list, a tuple or a numpy array"""
    if form % 3 == 0:
        return list(xs)
    if form % 3 == 1:
        return tuple(xs)
    import numpy as np

    return np.array(xs, dtype=int)


def parse_script(rest):
    acts = []
    for part in " ".join(rest).split(";"):
        w = part.split()
        if w:
            acts.append((w[0], *map(int, w[1:])))
    return acts


class WorldImpl:
    def __init__(self):
        self.WModel, self.CLS, self.AgentSet = classes()
        self.models, self.wr, self.info = [], [], []
        self.held, self.sets, self.scripts = {}, [], {}
        self.log, self.trace = [], []
        self.named_calls = []
        self.pending_hold = False
        self.dropped_at = set()  # id() of the models the program dropped: addresses the runtime may hand out again
        _, Agent, _ = _mesa()
        self.ids_before = set(Agent._ids.keys())  # (class-level state that is there before this scenario starts)

    # -- agents ---------------------------------------------------------------------------
    def new_aid(self, agent):
        aid = len(self.wr)
        tr = self.trace
        self.wr.append(weakref.ref(agent, lambda r, aid=aid: tr.append(("dead", aid))))
        m = self.models.index(agent.model)
        ty = self.CLS.index(type(agent))
        self.info.append((m, ty, agent.unique_id, fmt_payload(agent.x, agent.y)))
        if self.pending_hold:
            self.held[aid] = agent
        tr.append(("create", aid, m, ty, agent.unique_id, self.pending_hold))
        return aid

    def live_classes(self, aids):
        res = []
        for a in aids:
            o = self.deref(a)
            if o is not None:
                res.append(type(o))
            del o
        return res

    def deref(self, aid):
        return self.wr[aid]() if aid < len(self.wr) else None

    def create(self, m, ty, h, xs, scalar=None):
        """constructor for one agent, Agent.create_agents otherwise"""
        self.pending_hold = bool(h)
        try:
            cls, model = self.CLS[ty], self.models[m]
            if len(xs) == 1 and scalar is None:
                cls(model, xs[0])
            elif scalar is not None:
                cls.create_agents(model, len(xs), scalar)
            else:
                cls.create_agents(model, len(xs), list(xs))
        finally:
            self.pending_hold = False

    def remove(self, aid):
        o = self.deref(aid)
        if o is not None:
            self.trace.append(("remove", aid))
            o.remove()
        del o

    def unhold(self, aid):
        self.trace.append(("unhold", aid))
        self.held.pop(aid, None)

    # -- callbacks ------------------------------------------------------------------------
    def callback(self, agent, arg, tag=None, via=None, extra=None):
        aid = agent.aid
        self.log.append((aid, arg))
        self.trace.append(("invoke", aid, arg, tag, fmt_extra(extra or {})))
        if via == "class" and "act" in agent.__dict__:
            # the class-level method ran although this agent carries its own `act`: not `agent.act(...)`
            self.trace.append(("bypassed", aid))
        for act in self.scripts.get(aid, ()):
            k = act[0]
            if k == "rmself":
                self.trace.append(("remove", aid))
                agent.remove()
            elif k == "rm":
                self.remove(act[1])
            elif k == "create":
                _, m, ty, n, h = act
                self.create(m, ty, h, [0] * n, scalar=None if n == 1 else 0)
            elif k == "unhold":
                self.unhold(act[1])
            elif k in ("add", "discard"):
                # the callback edits a program-made set - possibly the one being activated
                _, ks, b = act
                if ks < len(self.sets):
                    o = self.deref(b)
                    if o is not None:
                        self.trace.append(("setedit", ks, k, b))
                        getattr(self.sets[ks][0], k)(o)
                    del o
            elif k == "raise":
                self.trace.append(("raise", aid))
                raise CallbackRaised(aid)
            else:
                raise ValueError(act)
        self.trace.append(("return", aid))
        return aid * 100 + arg

    # -- targets --------------------------------------------------------------------------
    def target(self, tok):
        w = tok.split(":")
        if w[0] == "all":
            return self.models[int(w[1])].agents, int(w[1])
        if w[0] == "type":
            return self.models[int(w[1])].agents_by_type[self.CLS[int(w[2])]], int(w[1])
        if w[0] == "set":
            return self.sets[int(w[1])]
        raise ValueError(tok)

    def ids(self, aset):
        return [a.aid for a in aset]

    # -- observation ----------------------------------------------------------------------
    def state(self):
        ms = []
        for model in self.models:
            if model is None:  # dropped by the program (`dropmodel`): nothing to look at
                ms.append({"A": [], "T": [], "K": [], "len": 0, "gone": True})
                continue
            A = [(a.aid, a.unique_id) for a in model.agents]
            T = [(self.CLS.index(c), [a.aid for a in s]) for c, s in model.agents_by_type.items()]
            K = [self.CLS.index(c) for c in model.agent_types]
            ms.append({"A": A, "T": T, "K": K, "len": len(model.agents)})
        S = [[a.aid for a in s[0]] for s in self.sets]
        live = [i for i, r in enumerate(self.wr) if r() is not None]
        return {"M": ms, "S": S, "live": live}

    @staticmethod
    def fmt_state(st):
        parts = []
        for i, m in enumerate(st["M"]):
            a = ",".join(f"{x}:{u}" for x, u in m["A"])
            t = ",".join(f"{ty}:{'.'.join(map(str, l))}" for ty, l in m["T"])
            k = ",".join(map(str, m["K"]))
            parts.append(f"M{i} gone" if m.get("gone") else f"M{i} A={a} T={t} K={k}")
        for k, s in enumerate(st["S"]):
            parts.append(f"S{k}=" + ",".join(map(str, s)))
        parts.append("live=" + ",".join(map(str, st["live"])))
        return " | ".join(parts)

    def ok(self, res=""):
        st = self.state()
        self.trace.append(("state", st))
        return (f"ok {res} || " if res else "ok || ") + self.fmt_state(st)

    def take_log(self):
        s = ",".join(f"{a}@{x}" for a, x in self.log)
        self.log = []
        return s

    # -- one protocol line ----------------------------------------------------------------
    def line(self, w):
        """an exception the protocol does not name becomes an observation (never a harness crash), so that
        a broken implementation yields a replayable disagreement"""
        self.trace.append(("op", " ".join(w)))
        try:
            return self._line(w)
        except (AssertionError, core.ScenarioTimeout):
            raise
        except IndexError:
            # a reference to a model / set / class that does not exist (only the shrinker produces these):
            # the driver answers bad-op as well
            self.log = []
            return "bad-op"
        except Exception as e:  # noqa: BLE001
            self.log = []
            return "err Unexpected " + type(e).__name__

    @staticmethod
    def line_models(w):
        """the models a line names (as lean/Driver/Agents.lean `lineModels`)"""
        def num(t):
            return [int(t)] if t.isdigit() else []

        if w[0] == "script":
            return [m for part in " ".join(w[2:]).split(";") if len(a := part.split()) == 5 and a[0] == "create" for m in num(a[1])]
        if len(w) < 2:
            return []
        if w[0] in ("create", "createn", "setagents", "removeall", "mkset", "dropmodel"):
            return num(w[1])
        if w[0] in ("shuffle", "sort", "copyset", "items", "do", "shuffledo", "map", "gdo", "gmap"):
            t = w[1].split(":")
            return num(t[1]) if (t[0] == "all" and len(t) == 2) or (t[0] == "type" and len(t) == 3) else []
        return []

    def drop_model(self, m):
        """the program forgets model m and every reference to one of its agents; after the next collection of the cycle
        collector the model and its agents are garbage.  Glue: unpatched mesa keeps every model alive for ever as a key
        of the class-level `Agent._ids` (DESIGN: defect outside the quantifier), so the harness deletes that entry - as it
        does at the end of every scenario - to let the model die at all; an implementation whose counters are not keyed
        by the model object is not affected by this."""
        import gc

        _, Agent, _ = _mesa()
        model = self.models[m]
        self.trace.append(("dropmodel", m))
        for aid in [a for a in self.held if self.info[a][0] == m]:
            del self.held[aid]
        for aid, acts in self.scripts.items():
            self.scripts[aid] = [act for act in acts if not (act[0] == "create" and len(act) == 5 and act[1] == m)]
        Agent._ids.pop(model, None)
        model.world = None
        self.models[m] = None
        self.dropped_at.add(id(model))
        ref = weakref.ref(model)
        del model
        for _ in range(3):
            if ref() is None:
                break
            gc.collect()
        if ref() is not None:
            # something outside the scenario still refers to the model (seen once, cause unknown): its address cannot be
            # reused, so the next model is simply not steered onto it — the scenario stays valid, only less sharp
            self.dropped_at.discard(id(ref()))
            self.trace.append(("dropmodel-alive", m))
            if getattr(self, "strict_drop", False):
                raise AssertionError("a dropped model is still referenced (the generator ends the scenario before this line)")

    def new_model(self, script):
        """`Model()`.  Glue: where the runtime places the object is its own business - CPython is free to give a new model
        the address (`id()`) of a model that died before, and usually does so sooner or later in a long sweep.  After the
        program dropped models the harness makes that happen now."""
        if not self.dropped_at:
            return scripted_model(self.WModel, script)
        # `WModel()` = `object.__new__(WModel)` (mesa's Model defines no `__new__`) + `__init__`: uninitialised instances
        # are taken until one lies where a dropped model lay; that one is initialised
        cands, pick = [], None
        for _ in range(4000):
            c = object.__new__(self.WModel)
            if id(c) in self.dropped_at:
                pick = c
                break
            cands.append(c)
        del cands
        if pick is None:
            return scripted_model(self.WModel, script)
        from unittest import mock

        with mock.patch("random.Random", lambda *a, **k: ScriptedRandom(script)):
            pick.__init__(seed=0)
        return pick

    def _line(self, w):
        k = w[0]
        if any(m < len(self.models) and self.models[m] is None for m in self.line_models(w)):
            return "bad-op"  # a dropped model cannot be named any more
        if k == "dropmodel":
            m = int(w[1])
            if m >= len(self.models) or any(ms == m for _s, ms in self.sets):
                return "bad-op"
            self.drop_model(m)
            return self.ok()
        if k == "model":
            script = [] if w[1] == "-" else [int(x) for x in w[1].split(",")]
            m = self.new_model(script)
            m.world = self
            self.models.append(m)
            return self.ok(f"m={len(self.models) - 1}")
        if k == "create":
            m, ty, h, x = map(int, w[1:])
            n0 = len(self.wr)
            self.create(m, ty, h, [x])
            return self.ok("new=" + self.fmt_new(n0))
        if k == "createn":
            m, ty, h, n = map(int, w[1:5])
            args = [parse_arg(t) for t in w[5:]]
            if len(args) not in (1, 2):
                return "bad-op"
            n0 = len(self.wr)
            # glue: sequences travel as list / tuple / ndarray, the arguments positionally or by keyword
            form = n + len(w[5])
            vals = [a if isinstance(a, int) else as_sequence(a, form + i) for i, a in enumerate(args)]
            self.pending_hold = bool(h)
            try:
                cls, model = self.CLS[ty], self.models[m]
                if len(vals) == 1:
                    cls.create_agents(model, n, vals[0]) if form % 2 else cls.create_agents(model, n, x=vals[0])
                elif form % 2:
                    cls.create_agents(model, n, vals[0], vals[1])
                else:
                    cls.create_agents(model, n, vals[0], y=vals[1])
            finally:
                self.pending_hold = False
            return self.ok("new=" + self.fmt_new(n0))
        if k == "setagents":
            model = self.models[int(w[1])]
            try:
                model.agents = []
            except AttributeError:
                return "err Attr"
            return self.ok("assigned")
        if k == "remove":
            self.remove(int(w[1]))
            return self.ok()
        if k == "register":
            # the program calls model.register_agent(agent) itself (Agent.__init__ already did, unless it was removed since)
            o = self.deref(int(w[1]))
            if o is not None:
                self.trace.append(("register", int(w[1])))
                o.model.register_agent(o)
            del o
            return self.ok()
        if k == "deregister":
            o = self.deref(int(w[1]))
            if o is None:
                return self.ok()
            self.trace.append(("remove", int(w[1])))  # (before the call: the death callback, if any, must come after it)
            try:
                o.model.deregister_agent(o)
            except KeyError:
                self.trace.append(("rejected", int(w[1])))
                del o
                return "err Key"
            del o
            return self.ok()
        if k == "removeall":
            self.trace.append(("removeall", int(w[1])))
            self.models[int(w[1])].remove_all_agents()
            return self.ok()
        if k == "unhold":
            self.unhold(int(w[1]))
            return self.ok()
        if k in ("shuffle", "sort"):
            try:
                s, m = self.target(w[1])
            except KeyError:
                return "err Key"
            before = self.ids(s)
            if k == "shuffle":
                rem = list(self.models[m].random.remaining())
                r = s.shuffle(inplace=True)
                self.trace.append(("reorder", w[1], "shuffle", before, rem))
            else:
                if w[2] == "asc":
                    r = s.sort("unique_id", ascending=True, inplace=True)
                else:
                    r = s.sort(lambda a: a.unique_id, inplace=True)
                self.trace.append(("reorder", w[1], w[2], before, None))
            assert r is s
            return self.ok()
        if k == "mkset":
            m = int(w[1])
            s = self.AgentSet([o for b in map(int, w[2:]) if (o := self.deref(b)) is not None], random=self.models[m].random)
            self.sets.append((s, m))
            return self.ok(f"set={len(self.sets) - 1}")
        if k == "copyset":
            # the program takes a copy of a set (what the Model docstring tells users to do before changing the composition):
            # `select()` without criteria / `copy.copy`; the copy is a program-made set from then on
            try:
                s, m = self.target(w[1])
            except KeyError:
                return "err Key"
            if w[2] not in ("sel", "copy"):
                return "bad-op"
            import copy

            c = s.select() if w[2] == "sel" else copy.copy(s)
            assert c is not s and c.random is s.random
            self.sets.append((c, m))
            return self.ok(f"set={len(self.sets) - 1}")
        if k in ("sadd", "sdiscard"):
            # the program edits one of its own sets (outside any activation)
            s, _m = self.sets[int(w[1])]
            o = self.deref(int(w[2]))
            if o is not None:
                self.trace.append(("setedit", int(w[1]), k[1:], int(w[2])))
                getattr(s, k[1:])(o)
            del o
            return self.ok()
        if k == "items":
            # the set read by position: every index, and the full slice
            try:
                s, m = self.target(w[1])
            except KeyError:
                return "err Key"
            n = len(s)
            idx = [s[i].aid for i in range(n)]
            sl = [a.aid for a in s[:]]
            last = s[-1].aid if n else None
            self.trace.append(("items", w[1], idx, sl, last))
            return self.ok("idx=" + ",".join(map(str, idx)) + " slice=" + ",".join(map(str, sl)))
        if k == "script":
            self.scripts[int(w[1])] = parse_script(w[2:])
            return "ok"
        if k in ("do", "shuffledo", "map", "gdo", "gmap"):
            return self.activate(w)
        raise ValueError(w)

    def fmt_new(self, n0):
        return ",".join(f"{a}:{self.info[a][2]}:{self.info[a][3]}" for a in range(n0, len(self.wr)))

    def activate(self, w):
        k = w[0]
        try:
            s, m = self.target(w[1])
        except KeyError:
            return "err Key"
        grouped = k in ("gdo", "gmap")
        key = w[2] if grouped else None
        arg, how = int(w[-2]), w[-1]
        before = self.ids(s)
        rem = list(self.models[m].random.remaining())
        # glue ("arguments are passed through unchanged"): the argument travels positionally or by keyword, alone or
        # with a second keyword argument `tag` = arg + 7 that the callback reports back
        form = (arg + len(before)) % 3
        pa, kw = ((arg,), {}) if form == 0 else ((), {"arg": arg, "tag": arg + 7}) if form == 1 else ((arg,), {"tag": arg + 7})
        # ... and, one time in two, with further keyword arguments of the program's own choosing (one of them named `agent`)
        xkw = extra_kw(arg, len(before))
        kw = {**kw, **xkw}
        self.trace.append(("call", k, w[1], before, rem, arg, key, [self.info[a][1:3] for a in before], kw.get("tag"),
                           fmt_extra(xkw)))
        method = "act" if how == "str" else (lambda a, arg, tag=None, **extra: a.model.world.callback(a, arg, tag, extra=extra))
        res = ""
        if how == "str" and k in ("do", "map") and (arg + len(before)) % 2:
            # the same activation with a staticmethod / classmethod name first: `agent.ping(...)` / `agent.census(...)`
            # once per member, arguments unchanged; they do nothing, so the real activation below starts from the same state
            self.named_calls = []
            classes_ = self.live_classes(before)  # (no walrus here: it would leave the last agent referenced by this frame)
            try:
                if k == "do":
                    s.do("ping", self, *pa, **kw)
                    got = None
                else:
                    got = s.map("census", self, *pa, **kw)
                err = None
            except Exception as e:  # noqa: BLE001
                got, err = None, type(e).__name__
            ix = self.CLS.index  # (class objects do not travel between the worker processes: indices)
            self.trace.append(("named", "ping" if k == "do" else "census",
                               [c[:3] + ((ix(c[3]),) if len(c) > 3 else ()) for c in self.named_calls],
                               [ix(c) for c in classes_], None if got is None else [ix(c) for c in got], err, arg,
                               (kw.get("tag"), fmt_extra(xkw))))
            self.named_calls = []
            del classes_, got
        raised = False
        try:
            res = self._dispatch(k, s, key, how, method, pa, kw)
        except CallbackRaised:
            # (the exception is not bound to a name: its traceback would keep the frames - and the agents in them - alive)
            raised = True
        after = self.ids(s)
        self.trace.append(("endcall", after, raised))
        return self.ok("log=" + self.take_log() + (" raised" if raised else res))

    def _dispatch(self, k, s, key, how, method, pa, kw):
        res = ""
        if k == "do":
            r = s.do(method, *pa, **kw)
            assert r is s
        elif k == "shuffledo":
            r = s.shuffle_do(method, *pa, **kw)
            assert r is s
        elif k == "map":
            r = s.map(method, *pa, **kw)
            res = " res=" + ",".join(map(str, r))
            self.trace.append(("result", list(r)))
        else:
            CLS = self.CLS
            by = {"ty": (lambda a: CLS.index(type(a))), "mod2": (lambda a: a.unique_id % 2),
                  "mod3": (lambda a: a.unique_id % 3)}[key]
            gb = s.groupby(by)
            if k == "gdo":
                r = gb.do("do", method, *pa, **kw) if how == "str" else gb.do(lambda g, *a, **k2: g.do(method, *a, **k2), *pa, **kw)
                assert r is gb
            else:
                r = gb.map("map", method, *pa, **kw) if how == "str" else gb.map(lambda g, *a, **k2: g.map(method, *a, **k2), *pa, **kw)
                res = " res=" + ";".join(f"{kk}:{'.'.join(map(str, v))}" for kk, v in r.items())
                self.trace.append(("result", [(kk, list(v)) for kk, v in r.items()]))
            del gb, r
        return res

    def close(self):
        """mesa keeps every model forever in the class-level `Agent._ids`; do not leak across scenarios"""
        _, Agent, _ = _mesa()
        for m in self.models:
            if m is not None:
                Agent._ids.pop(m, None)
                m.world = None
        for key in [k for k in Agent._ids if k not in self.ids_before]:
            del Agent._ids[key]  # whatever the counters are keyed by: what this scenario added goes with it
        self.held.clear()


def run_impl(sc):
    assert sc.lines[0].split() == ["scenario", "world"]
    impl = WorldImpl()
    obs = ["ok"]
    try:
        for line in sc.lines[1:]:
            obs.append(impl.line(line.split()))
    finally:
        impl.close()
    sc.meta["trace"] = impl.trace
    return obs


# --------------------------------------------------------------------------------------------
# generator


def gen_script_rng(R):
    n = R.choice([0, 3, 8, 8, 20])
    return ",".join(str(R.randrange(0, 50)) for _ in range(n)) if n else "-"


def gen_actions(R, n_agents, n_models, live=None, n_sets=0, models=None):
    acts = []
    models = list(range(n_models)) if models is None else models
    for _ in range(R.choice([0, 1, 1, 1, 2, 3])):
        k = R.random()
        if n_sets and R.random() < 0.2:
            # the callback edits a program-made set (one time in two the first one, which activations favour)
            ks = 0 if R.random() < 0.5 else R.randrange(n_sets + 1)
            b = R.choice(live) if live and R.random() < 0.85 else R.randrange(0, n_agents + 3)
            acts.append(f"{R.choice(['add', 'discard', 'discard'])} {ks} {b}")
        elif k < 0.25:
            acts.append("rmself")
        elif k < 0.65:
            # mostly agents that exist now (earlier or later members of the sets being activated)
            acts.append(f"rm {R.choice(live) if live and R.random() < 0.8 else R.randrange(0, n_agents + 3)}")
        elif k < 0.85:
            acts.append(f"create {R.choice(models)} {R.randrange(NTYPES)} {R.choice([0, 1, 1, 2])} {R.choice([0, 0, 1])}")
        else:
            acts.append(f"unhold {R.randrange(0, n_agents + 1)}")
    if R.random() < 0.12:
        acts.append("raise")  # the callback ends by raising: the activation stops there
    return " ; ".join(acts)


def gen_world(R, flavor="c04", size=None):
    """flavor 'c02': registry churn over several models; 'c04': activations under churn"""
    impl = WorldImpl()
    impl.strict_drop = True     # a `dropmodel` whose model does not die ends the generated scenario before that line
    lines = ["scenario world"]

    def emit(l):
        lines.append(l)
        return impl.line(l.split())

    nm = 0
    try:
        nm = R.choice([1, 2, 2, 3]) if flavor == "c02" else R.choice([1, 1, 2])
        for _ in range(nm):
            emit("model " + gen_script_rng(R))
        hold_p = R.choice([0.0, 0.2, 0.5, 1.0])

        def models():
            """the models the program still has (not dropped)"""
            return [i for i in range(nm) if impl.models[i] is not None]

        def a_model():
            return R.choice(models())

        def hold():
            return 1 if R.random() < hold_p else 0

        def tgt():
            k = R.random()
            if k < 0.5 or (k >= 0.8 and not impl.sets):
                return f"all:{a_model()}"
            if k >= 0.8 and R.random() < 0.5:
                return "set:0"
            if k < 0.8:
                m = a_model()
                present = [impl.CLS.index(c) for c in impl.models[m].agent_types]
                ty = R.choice(present) if present and R.random() < 0.9 else R.randrange(NTYPES)
                return f"type:{m}:{ty}"
            return f"set:{R.randrange(len(impl.sets))}"

        def an_agent():
            n = len(impl.wr)
            if n == 0:
                return 0
            live = [i for i, r in enumerate(impl.wr) if r() is not None]
            if live and R.random() < 0.8:
                return R.choice(live)
            return R.randrange(n)

        def create_line():
            m = a_model()
            if R.random() < 0.6:
                return f"create {m} {R.randrange(NTYPES)} {hold()} {R.randrange(-3, 9)}"
            n = R.choice([0, 1, 2, 3, 4])

            def an_arg():
                if R.random() < 0.4:
                    return f"s:{R.randrange(-3, 9)}"
                # a per-agent sequence (length n) or a sequence of another length, which every agent receives whole
                k = n if R.random() < 0.6 else R.choice([0, 1, 2, 3, 5])
                return "l:" + (",".join(str(R.randrange(-3, 9)) for _ in range(k)) or "-")

            args = an_arg() + (" " + an_arg() if R.random() < 0.35 else "")
            return f"createn {m} {R.randrange(NTYPES)} {hold()} {n} {args}"

        for _ in range(R.randrange(1, 7) if flavor == "c04" else R.randrange(0, 5)):
            emit(create_line())
        n_ops = size or (R.randrange(4, 26) if flavor == "c02" else R.randrange(3, 16))
        for _ in range(n_ops):
            k = R.random()
            na = len(impl.wr)
            if flavor == "c02":
                wts = [("create", .22), ("remove", .20), ("removeall", .04), ("unhold", .03), ("reorder", .08),
                       ("mkset", .02), ("script", .11), ("direct", .04), ("copyset", .04), ("items", .07), ("newmodel", .02),
                       ("dropmodel", .03), ("act", .10)]
            else:
                wts = [("create", .12), ("remove", .06), ("removeall", .01), ("unhold", .05), ("reorder", .06),
                       ("mkset", .08), ("script", .25), ("direct", .02), ("copyset", .02), ("items", .02), ("act", .31)]
            acc, op = 0.0, wts[-1][0]
            for name, p in wts:
                acc += p
                if k < acc:
                    op = name
                    break
            if op == "create":
                emit(create_line())
            elif op == "remove":
                a = an_agent()
                emit(f"remove {a}")
                if R.random() < 0.25:
                    emit(f"remove {a}")  # idempotence
            elif op == "direct":
                # register_agent / deregister_agent called by the program itself (also twice in a row)
                a = an_agent()
                kind = "register" if R.random() < 0.5 else "deregister"
                emit(f"{kind} {a}")
                if R.random() < 0.3:
                    emit(f"{kind} {a}")
            elif op == "removeall":
                emit(f"removeall {a_model()}" if R.random() < 0.7 else f"setagents {a_model()}")
            elif op == "unhold":
                emit(f"unhold {an_agent()}")
            elif op == "reorder":
                emit(f"shuffle {tgt()}" if R.random() < 0.6 else f"sort {tgt()} {R.choice(['asc', 'desc'])}")
            elif op == "copyset":
                # a copy of a registry set (or of any set), then - mostly - the copy is changed in place
                emit(f"copyset {tgt()} {R.choice(['sel', 'copy'])}")
                ks = len(impl.sets) - 1
                if ks >= 0 and R.random() < 0.75:
                    how = R.random()
                    emit(f"shuffle set:{ks}" if how < 0.3 else f"sdiscard {ks} {an_agent()}" if how < 0.75 else f"sadd {ks} {an_agent()}")
            elif op == "items":
                # read by position; one time in two again after as many removals as creations (constant population)
                t = tgt()
                emit(f"items {t}")
                if R.random() < 0.5:
                    for _ in range(R.choice([1, 1, 2])):
                        emit(f"remove {an_agent()}")
                        emit(create_line())
                    emit(f"items {t}")
            elif op == "newmodel":
                # another Model is constructed in mid-history - mostly at a moment when an existing one has just been
                # emptied, which then goes on creating agents
                if nm >= 5:
                    continue
                m = a_model()
                emptied = R.random() < 0.6
                if emptied:
                    emit(f"removeall {m}")
                emit("model " + gen_script_rng(R))
                nm += 1
                if emptied:
                    emit(f"create {m} {R.randrange(NTYPES)} {hold()} {R.randrange(-3, 9)}")
            elif op == "dropmodel":
                # a parameter sweep / batch run: the program is done with a model, drops it (the model and its agents become
                # garbage) and builds the next one, which must number its agents from 1 - one to four rounds in a row
                for _ in range(R.choice([1, 2, 3, 4])):
                    can = [m for m in models() if not any(ms == m for _s, ms in impl.sets)]
                    if not can or nm >= 9:
                        break
                    m = can[-1] if R.random() < 0.7 else R.choice(can)  # mostly the youngest: the one of the previous round
                    if not impl.models[m].agents and R.random() < 0.8:
                        emit(f"createn {m} {R.randrange(NTYPES)} {hold()} {R.choice([1, 2, 3])} s:{R.randrange(-3, 9)}")
                    try:
                        emit(f"dropmodel {m}")
                    except AssertionError:
                        # the model did not become garbage (something outside the scenario still refers to it): the
                        # scenario ends before this line
                        lines.pop()
                        return core.Scenario(lines, {})
                    emit("model " + gen_script_rng(R))
                    nm += 1
                    emit(f"createn {nm - 1} {R.randrange(NTYPES)} {hold()} {R.choice([1, 2, 3])} s:{R.randrange(-3, 9)}")
            elif op == "mkset":
                ids = [an_agent() for _ in range(R.randrange(0, 7))]
                emit(f"mkset {a_model()} " + " ".join(map(str, ids)))
            elif op == "script":
                for _ in range(R.choice([1, 2, 3])):
                    a = an_agent() if R.random() < 0.85 else na + R.randrange(0, 3)
                    live = [i for i, r in enumerate(impl.wr) if r() is not None]
                    emit(f"script {a} " + gen_actions(R, na, nm, live, len(impl.sets), models()))
            else:
                kind = R.choice(["do", "do", "shuffledo", "shuffledo", "map", "gdo", "gmap"])
                how = R.choice(["str", "fn"])
                arg = R.randrange(0, 10)
                if kind in ("gdo", "gmap"):
                    emit(f"{kind} {tgt()} {R.choice(['ty', 'mod2', 'mod3'])} {arg} {how}")
                else:
                    emit(f"{kind} {tgt()} {arg} {how}")
    finally:
        impl.close()
    return core.Scenario(lines, {})


def exhaustive_activation(max_n, kinds, all_held_patterns, n4=False):
    """every script family over n agents in which each agent, on its turn, does nothing / removes itself /
    removes agent j (any j: earlier, later, itself) / creates an agent — for every pattern of which agents the
    program holds, and each activation kind"""
    import itertools

    def scen(n, combo, held, kind):
        lines = ["scenario world", "model 3,1,4,1,5,9,2,6"]
        lines += [f"create 0 {[0, 2, 1, 3][i % 4]} {h} {i}" for i, h in enumerate(held)]  # T2, T3: falsy agents; x = 0, 3: own `act`
        lines += [f"script {i} {a}" for i, a in enumerate(combo) if a]
        lines.append(f"{kind} all:0 1 str" if not kind.startswith("g") else f"{kind} all:0 ty 1 str")
        return core.Scenario(lines, {"exhaustive": True})

    for n in range(1, max_n + 1):
        acts = ["", "rmself"] + [f"rm {j}" for j in range(n)] + ["create 0 0 1 0"]
        helds = list(itertools.product([0, 1], repeat=n)) if all_held_patterns else [(0,) * n, (1,) * n]
        for combo in itertools.product(acts, repeat=n):
            for held in helds:
                for kind in kinds:
                    yield scen(n, combo, held, kind)
    if n4:
        n = 4
        acts = ["", "rmself"] + [f"rm {j}" for j in range(n)] + ["create 0 0 1 0"]
        for combo in itertools.product(acts, repeat=n):
            for held in [(0,) * n, (0, 1, 0, 1)]:
                yield scen(n, combo, held, "do")


def exhaustive_edits(max_n, kinds):
    """the activated set is a program-made set of n agents; every family in which each agent, on its turn, does nothing /
    raises / removes itself (and raises) / discards agent j from the activated set / removes and discards j / adds an
    outsider to it — with all agents held by the program or none"""
    import itertools

    for n in range(1, max_n + 1):
        acts = ["", "raise", "rmself", "rmself ; raise", f"add 0 {n}"] + [f"discard 0 {j}" for j in range(n)] \
            + [f"rm {j} ; discard 0 {j}" for j in range(n)]
        for combo in itertools.product(acts, repeat=n):
            for h in (0, 1):
                for kind in kinds:
                    lines = ["scenario world", "model 3,1,4,1,5,9,2,6"]
                    lines += [f"create 0 {[0, 2, 1, 3][i % 4]} {h} {i}" for i in range(n)] + [f"create 0 0 1 {n}"]
                    lines.append("mkset 0 " + " ".join(map(str, range(n))))
                    lines += [f"script {i} {a}" for i, a in enumerate(combo) if a]
                    lines.append(f"{kind} set:0 1 str" if not kind.startswith("g") else f"{kind} set:0 ty 1 str")
                    yield core.Scenario(lines, {"exhaustive": True})


# --------------------------------------------------------------------------------------------
# trace oracles: the clauses of the properties evaluated on what the implementation did


def _shuffle_reference(items, script):
    r = ScriptedRandom(script)
    l = list(items)
    r.shuffle(l)
    return l


def _canon(v):
    return tuple(_canon(e) for e in v) if isinstance(v, (list, tuple)) else v


def split_ops(trace):
    """[(op line, [events…], state or None)]"""
    ops = []
    for ev in trace:
        if ev[0] == "op":
            ops.append([ev[1], [], None])
        elif ev[0] == "state":
            ops[-1][2] = ev[1]
        else:
            ops[-1][1].append(ev)
    return ops


def oracle_c02(sc, obs):
    """registry exact / grouped by exact class / ids 1,2,3… never reused / remove idempotent and
    atomic over the three views / coexisting models independent"""
    bad = []
    tr = sc.meta.get("trace") or []
    created = {}  # aid -> (m, ty, uid)
    expect = []   # per model: expected order of model.agents
    expect_t = [] # per model: {ty: expected order of agents_by_type[ty]}
    seen_ty = []  # per model: classes that ever had an agent (agent_types may keep emptied ones)
    uids = []     # per model: uids handed out, in creation order
    prev = None
    for (line, events, st), o in zip(split_ops(tr), list(obs[1:]) + [""] * len(tr)):
        w = line.split()
        touched = set()
        removed_again = False
        if w[0] == "createn" and o.startswith("ok"):
            # create_agents(model, n, *args): n agents; the i-th receives arg[i] of a sequence of length n, and any
            # other argument (a single object, a sequence of another length) as it is
            n = int(w[4])
            args = [parse_arg(t) for t in w[5:]]
            want = ["/".join(str(a) if isinstance(a, int) else str(a[i]) if len(a) == n else "[" + ".".join(map(str, a)) + "]"
                             for a in args) for i in range(n)]
            got = [e.split(":")[2] for e in o.split(" || ")[0][len("ok new="):].split(",") if e]
            if got != want:
                bad.append(f"createn: `{line}` handed the constructors {got}, expected {want}")
            if len([e for e in events if e[0] == "create"]) != n:
                bad.append(f"createn: `{line}` created {len([e for e in events if e[0] == 'create'])} agents")
        # (register / deregister called directly: the property's clauses are the exactness clauses below; whether an
        # unregistered agent makes deregister_agent raise KeyError is the model's business, i.e. the correspondence check's)
        if w[0] == "setagents" and not o.startswith("err Attr"):
            bad.append(f"setagents: assigning model.agents was not rejected (`{o.split(' || ')[0]}`)")
        for ev in events:
            if ev[0] == "create":
                _, aid, m, ty, uid, _h = ev
                created[aid] = (m, ty, uid)
                uids[m].append(uid)
                if uids[m] != list(range(1, len(uids[m]) + 1)):
                    bad.append(f"uid: model {m} handed out ids {uids[m]} (not 1,2,3,… in creation order)")
                expect[m].append(aid)
                expect_t[m].setdefault(ty, []).append(aid)
                if ty not in seen_ty[m]:
                    seen_ty[m].append(ty)
                touched.add(m)
            elif ev[0] == "register":
                # register_agent called directly: nothing changes for a registered agent (the exactness clauses below then
                # check that no view got a duplicate or a new order); an agent that had been removed is registered again
                aid = ev[1]
                m, ty, _ = created[aid]
                touched.add(m)
                if aid not in expect[m]:
                    expect[m].append(aid)
                    expect_t[m].setdefault(ty, []).append(aid)
                    if ty not in seen_ty[m]:
                        seen_ty[m].append(ty)
            elif ev[0] == "remove":
                aid = ev[1]
                m, ty, _ = created[aid]
                touched.add(m)
                if aid in expect[m]:
                    expect[m].remove(aid)
                    expect_t[m][ty].remove(aid)
                else:
                    removed_again = True
            elif ev[0] == "items":
                # every view at once: reading by position (each index, the full slice, [-1]) shows exactly the members
                _, tok, idx, sl, last = ev
                t = tok.split(":")
                want = expect[int(t[1])] if t[0] == "all" else expect_t[int(t[1])].get(int(t[2]), []) if t[0] == "type" else None
                if want is None and st is not None and int(t[1]) < len(st["S"]):
                    want = st["S"][int(t[1])]  # a program-made set: by position = by iteration
                if want is not None and (list(idx) != want or list(sl) != want or last != (want[-1] if want else None)):
                    bad.append(f"views: {tok} read by position is {list(idx)} (slice {list(sl)}, [-1] {last}), its members are {want} "
                               f"after `{line}`")
            elif ev[0] == "dropmodel":
                # the model is gone with all its agents; nothing of it can be observed any more
                m = ev[1]
                touched.add(m)
                expect[m], expect_t[m] = [], {}
            elif ev[0] == "removeall":
                m = ev[1]
                touched.add(m)
                for aid in list(expect[m]):
                    expect_t[m][created[aid][1]].remove(aid)
                expect[m] = []
            elif ev[0] == "reorder":
                _, tok, how, before, _rem = ev
                t = tok.split(":")
                if st is not None and t[0] in ("all", "type"):
                    m = int(t[1])
                    touched.add(m)
                    # an explicit in-place reordering: the observed order becomes the reference,
                    # provided nobody was lost or duplicated
                    if t[0] == "all":
                        now = [a for a, _ in st["M"][m]["A"]]
                        if sorted(now) != sorted(expect[m]):
                            bad.append(f"exact: in-place {how} of model {m}.agents changed its members: {now} vs {expect[m]}")
                        else:
                            expect[m] = now
                    else:
                        ty = int(t[2])
                        now = dict(st["M"][m]["T"]).get(ty, [])
                        if sorted(now) != sorted(expect_t[m].get(ty, [])):
                            bad.append(f"bytype: in-place {how} of agents_by_type[{ty}] changed its members")
                        else:
                            expect_t[m][ty] = now
        if w[0] == "model":
            expect.append([])
            expect_t.append({})
            seen_ty.append([])
            uids.append([])
            touched.add(len(expect) - 1)
        if st is None:
            continue
        for m, ms in enumerate(st["M"]):
            A = [a for a, _ in ms["A"]]
            if A != expect[m]:
                bad.append(f"exact: model {m}.agents is {A}, created-and-not-removed (in order) is {expect[m]} after `{line}`")
            if ms["len"] != len(A):
                bad.append(f"exact: len(model {m}.agents) = {ms['len']} but iteration yields {len(A)}")
            for a, u in ms["A"]:
                if created[a][2] != u:
                    bad.append(f"uid: agent {a} changed unique_id {created[a][2]} -> {u}")
            if len({u for _, u in ms["A"]}) != len(ms["A"]):
                bad.append(f"uid: duplicate unique_id in model {m}")
            T = dict(ms["T"])
            for ty, l in ms["T"]:
                if l != expect_t[m].get(ty, []):
                    bad.append(f"bytype: agents_by_type[{ty}] of model {m} is {l}, agents of exactly that class are {expect_t[m].get(ty, [])} after `{line}`")
            for ty, l in expect_t[m].items():
                if l and ty not in T:
                    bad.append(f"bytype: class {ty} has live agents {l} but no entry in agents_by_type of model {m}")
                if l and ty not in ms["K"]:
                    bad.append(f"types: class {ty} has live agents but is not in agent_types of model {m}")
            if ms["K"] != [ty for ty, _ in ms["T"]]:
                bad.append(f"types: agent_types {ms['K']} != keys of agents_by_type")
        if prev is not None:
            for m, ms in enumerate(prev["M"]):
                if m not in touched and st["M"][m] != ms:
                    bad.append(f"frame: `{line}` did not concern model {m} but changed its registry")
            if w[0] == "remove" and removed_again and not [e for e in events if e[0] == "dead"]:
                if st["M"] != prev["M"]:
                    bad.append(f"idempotent: second `{line}` changed a registry")
        prev = st
    return bad


def oracle_c04(sc, obs):
    """every activation: nobody twice; only members at call start; visiting order = set order /
    shuffle order; a member is skipped only if removed from its model and not held before its turn;
    nobody is invoked while removed-and-unheld; created agents never; set order untouched; args intact;
    map results aligned"""
    bad = []
    tr = sc.meta.get("trace") or []
    registered, held = set(), set()
    created_at = {}
    model_of = {ev[1]: ev[2] for ev in tr if ev[0] == "create"}
    for l, o in zip(sc.lines, obs):
        if o.startswith("err Unexpected") and l.split()[0] in ("do", "shuffledo", "map", "gdo", "gmap"):
            # the harness' own callback raised: it was not called as callback(agent, *args, **kwargs)
            bad.append(f"args: `{l}` raised {o.split()[-1]} inside the activation: the callable was not invoked as "
                       f"callable(agent, *args) with the arguments passed through unchanged")
    for line, events, st in split_ops(tr):
        call = None
        invoked, order_seen = [], []
        dead_before_turn = {}
        snap = None  # (registered, held) at the time the previous callback returned / the call started
        result = None
        end = None
        for ev in events:
            k = ev[0]
            if k == "create":
                _, aid, m, ty, uid, h = ev
                registered.add(aid)
                if h:
                    held.add(aid)
                created_at[aid] = line
                if call is not None:
                    call["created"].add(aid)
            elif k == "remove":
                registered.discard(ev[1])
            elif k == "register":
                registered.add(ev[1])
            elif k == "removeall":
                m = ev[1]
                # every agent of model m: the state after the op tells which are gone; use create info
                registered -= {a for a in list(registered) if model_of.get(a) == m}
            elif k == "dropmodel":
                registered -= {a for a in list(registered) if model_of.get(a) == ev[1]}
                held -= {a for a in list(held) if model_of.get(a) == ev[1]}
            elif k == "unhold":
                held.discard(ev[1])
            elif k == "call":
                _, kind, tok, before, rem, arg, key, tyuid, tag = ev[:9]
                xkw = tuple(ev[9]) if len(ev) > 9 else ()
                if kind == "shuffledo":
                    visit = _shuffle_reference(before, rem)
                elif kind in ("gdo", "gmap"):
                    keyf = {"ty": lambda tu: tu[0], "mod2": lambda tu: tu[1] % 2, "mod3": lambda tu: tu[1] % 3}[key]
                    groups = {}
                    for a, tu in zip(before, tyuid):
                        groups.setdefault(keyf(tu), []).append(a)
                    visit = [a for g in groups.values() for a in g]
                    call_groups = groups
                else:
                    visit = list(before)
                call = {"kind": kind, "before": before, "visit": visit, "arg": arg, "tag": tag, "created": set(), "extra": xkw,
                        "groups": call_groups if kind in ("gdo", "gmap") else None, "raised_by": None, "tok": tok,
                        "cur": list(before)}
                if len(set(before)) != len(before):
                    bad.append(f"set: duplicate member in {tok}: {before}")
                # liveness of each member as of the last moment before its possible turn
                snap = (set(registered), set(held))
                pending = list(visit)
            elif k == "raise" and call is not None:
                call["raised_by"] = ev[1]
            elif k == "setedit" and call is not None:
                # a callback edited a program-made set; if it is the activated one, its expected content follows
                _, ks, how_, b = ev
                if call["tok"] == f"set:{ks}":
                    if how_ == "add" and b not in call["cur"]:
                        call["cur"].append(b)
                    elif how_ == "discard" and b in call["cur"]:
                        call["cur"].remove(b)
            elif k == "invoke" and call is not None:
                _, aid, arg, tag = ev[:4]
                got_extra = tuple(map(tuple, ev[4])) if len(ev) > 4 else ()
                if got_extra != tuple(map(tuple, call["extra"])):
                    bad.append(f"args: agent {aid} received the further keyword arguments {dict(got_extra)}, the call passed "
                               f"{dict(call['extra'])}")
                if call["raised_by"] is not None:
                    bad.append(f"after-raise: agent {aid} invoked by `{line}` after the callback of agent {call['raised_by']} raised")
                if tag != call["tag"]:
                    bad.append(f"args: agent {aid} received the keyword argument tag={tag}, the call passed tag={call['tag']}")
                if aid in invoked:
                    bad.append(f"twice: agent {aid} invoked twice by `{line}`")
                if aid not in call["before"]:
                    why = "created during the call" if aid in call["created"] else "not a member at call start"
                    bad.append(f"stranger: agent {aid} ({why}) invoked by `{line}`")
                if arg != call["arg"]:
                    bad.append(f"args: agent {aid} received {arg}, call passed {call['arg']}")
                if aid not in registered and aid not in held:
                    bad.append(f"zombie: agent {aid} invoked by `{line}` after it was removed from its model and the program dropped it")
                # members skipped between the previous invoked one and this one
                if aid in pending:
                    i = pending.index(aid)
                    for s in pending[:i]:
                        if s in snap[0] or s in snap[1]:
                            bad.append(f"skipped: member {s} was {'registered' if s in snap[0] else 'held'} at its turn but `{line}` did not invoke it")
                    pending = pending[i + 1:]
                else:
                    if aid in call["before"] and aid not in invoked:
                        bad.append(f"order: agent {aid} invoked out of the visiting order {call['visit']} by `{line}`")
                invoked.append(aid)
            elif k == "bypassed":
                bad.append(f"callable: `{line}` ran the class-level method on agent {ev[1]}, which carries its own `act`: "
                           f"the named method of each *agent* must be invoked")
            elif k == "named" and call is not None:
                _, name, calls, classes_, got, err, arg, tag = ev
                want_n = len(classes_)
                if err:
                    bad.append(f"args: `{line}` by the {'staticmethod' if name == 'ping' else 'classmethod'} name `{name}` raised {err}: "
                               f"agent.{name}(*args) was not called with the arguments passed through unchanged")
                elif len(calls) != want_n or any(c[1] != arg or _canon(c[2]) != _canon(tag) for c in calls):
                    bad.append(f"args: `{line}` by the name `{name}` made {len(calls)} calls {[(c[1], c[2]) for c in calls][:3]} "
                               f"for {want_n} members (argument {arg}, tag {tag})")
                elif name == "census" and (got != classes_ or [c[3] for c in calls] != classes_):
                    bad.append(f"map: `{line}` by the classmethod name `census` did not return one result per member, in order")
            elif k == "return" and call is not None:
                snap = (set(registered), set(held))
            elif k == "result":
                result = ev[1]
            elif k == "endcall":
                end = ev[1]
                raised = len(ev) > 2 and ev[2]
                if call["raised_by"] is not None and not raised:
                    bad.append(f"swallowed: the callback of agent {call['raised_by']} raised but `{line}` returned normally")
                for s in ([] if call["raised_by"] is not None else pending):
                    if s in snap[0] or s in snap[1]:
                        bad.append(f"skipped: member {s} was {'registered' if s in snap[0] else 'held'} at its turn but `{line}` did not invoke it")
                # the set's own order: surviving members keep their relative order (as edited by the callbacks themselves,
                # if they discarded from / added to the activated set); nobody new but agents the callbacks registered
                # (model.agents / by-type sets grow by registration) or added
                cur = call["cur"]
                old = [a for a in cur if a in end]
                new = [a for a in end if a in cur]
                if old != new:
                    bad.append(f"set-order: `{line}` changed the order of the set: {call['before']} -> {end} (expected order {cur})")
                for a in end:
                    if a not in cur and a not in call["created"]:
                        bad.append(f"set-order: `{line}` put {a} into the set" if a not in call["before"] else
                                   f"set-order: `{line}` kept {a}, which a callback discarded from the set")
                for a in cur:
                    # (a registry set loses a member with its deregistration, a program-made set only with its death)
                    if a not in end and (a in registered or (a in held and call["tok"].startswith("set:"))):
                        bad.append(f"set-order: `{line}` lost member {a} of the set (it is alive and nobody discarded it)")
                if call["kind"] == "map" and result is not None:
                    want = [a * 100 + call["arg"] for a in invoked]
                    if result != want:
                        bad.append(f"map: results {result} are not aligned with the invocations {invoked}")
                if call["kind"] == "gmap" and result is not None:
                    flat = [v for _, vs in result for v in vs]
                    if flat != [a * 100 + call["arg"] for a in invoked]:
                        bad.append(f"gmap: results {result} are not aligned with the invocations {invoked}")
                    if [k for k, _ in result] != list(call["groups"].keys()):
                        bad.append(f"gmap: result keys {[k for k, _ in result]} != group keys {list(call['groups'])}")
                call = None
    return bad


def world_tags(sc, obs):
    tr = sc.meta.get("trace") or []
    for line, events, st in split_ops(tr):
        w = line.split()
        yield "op:" + w[0]
        kinds = [e[0] for e in events]
        if w[0] in ("do", "shuffledo", "map", "gdo", "gmap"):
            if "remove" in kinds:
                yield "branch:remove-during-activation"
            if "create" in kinds:
                yield "branch:create-during-activation"
            if "dead" in kinds:
                yield "branch:agent-died-during-activation"
            if "raise" in kinds:
                yield "branch:callback-raised"
                yield "branch:callback-raised-" + w[0]
            if "setedit" in kinds:
                yield "branch:set-edited-during-activation"
                if any(e[0] == "setedit" and w[1] == f"set:{e[1]}" for e in events):
                    yield "branch:activated-set-edited-" + w[0]
            call = next((e for e in events if e[0] == "call"), None)
            if call:
                inv = [e[1] for e in events if e[0] == "invoke"]
                if len(inv) < len(call[3]):
                    yield "branch:member-skipped"
                yield "target:" + call[2].split(":")[0]
        if w[0] == "createn":
            n = int(w[4])
            for t in w[5:]:
                yield "createn:" + ("single-object" if t[0] == "s" else "split" if len(parse_arg(t)) == n else "whole-sequence")
            if len(w) > 6:
                yield "createn:two-arguments"
        if w[0] == "register" and "register" in kinds:
            yield "direct:register"
        if w[0] == "deregister":
            yield "direct:deregister" + ("-rejected" if "rejected" in kinds else "" if "remove" in kinds else "-of-dead-agent-noop")
        if w[0] == "remove" and "remove" in kinds and "dead" not in kinds:
            yield "branch:removed-but-held-or-already-removed"
        if w[0] == "remove" and "remove" not in kinds:
            yield "branch:remove-of-dead-agent-noop"
    for o in obs:
        if o.startswith("err"):
            yield "reject:" + o.split()[1]
    nm = sum(1 for l in sc.lines if l.startswith("model "))
    yield f"models:{nm}"
