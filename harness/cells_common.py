"""Shared by C06 / C07 (and the cells part of C18): scripted RNG, generated tables, implementation
runner for the `drv_cells` line protocol, space generators, the exact Delaunay oracle.

Protocol (see lean/Driver/Cells.lean).  Cells are named by their key in `space._cells`, written as
comma-separated ints (`1,2,0`; a network node or Voronoi index is a single int); `-` is None.

  scenario grid <moore|vn|hex> <torus 0|1> <cap|-> <d1,d2,...>
  scenario net <0|1|m0|m1> <cap|-> <n> [a-b ...]      (Graph | DiGraph | MultiGraph | MultiDiGraph on nodes 0..n-1; the edge list may
                                                       hold self loops a-a, repeated and antiparallel edges)
  scenario vor <cap|-> <n> p:x,y ... t:a,b,c ...     (t: the exact Delaunay triangles, for the model)
  scenario vor d <n> p:... t:... a:num/den ...         (default capacity_function; a: the exact Voronoi cell areas, one per cell)
  new cell|fixed|g2d | set a c|- | moveto a c | moverel a key | move a Dir k | remove a
  tryrandom 0|1 | randempty d... | randcell d...           -> result + full observation dump
  agentscopy c                                             -> `l = cell.agents; l.clear()` (a copy: nothing may change) + dump
  clearcell c                                              -> `for a in cell.agents: a.remove()` + dump
  conns c | nbhd c r ic | nbprop c | mask c r ic           -> result only
  nbagents c r ic                                          -> agents in the (memoised) neighbourhood, sorted
  connect c c2 key|- | disconnect c c2                     -> result only (`Cell.connect(other, key)` / `Cell.disconnect(other)`
                                                              after construction; `-`: the default key `other.coordinate`)
  coll <expr> cells|agents|len|same | has c | get c | randcell d... | randagent d...   -> result only (CellCollection API)
      <expr> = <base>[+<filter>:<at_most>]...   base = all | empties | nb:<c>:<r>:<ic> | nbp:<c>   (all_cells, empties,
      get_neighborhood, neighborhood); filter = none|empty|occupied|full|notfull; at_most = inf | <int> | <num>/<den> (float).
      Collections whose order the API fixes (all, empties, their selections) are compared in order, with the selected
      cell / agent; neighbourhood-based ones as sets (sorted) and random picks by position `pos=i/len` and draws `used=k`.
"""
from __future__ import annotations

import ast
import itertools
import os
import random
from fractions import Fraction

from . import core

# --------------------------------------------------------------------------------------
# scripted RNG (private, minimal): every draw comes from a script; an exhausted script raises


class ScriptExhausted(Exception):
    pass


class ScriptedRandom(random.Random):
    """`random.Random` whose integer draws are `script.pop(0) % n`"""

    def __init__(self):
        super().__init__(0)
        self.script = []

    def _randbelow(self, n):
        if not self.script:
            raise ScriptExhausted()
        return self.script.pop(0) % n

    def random(self):
        raise ScriptExhausted()

    def getrandbits(self, k):
        raise ScriptExhausted()


# --------------------------------------------------------------------------------------
# generated tables (DESIGN §4.2): AST extraction of the literals + probing the running code


def _lit(node):
    return ast.literal_eval(node)


def _find_class(tree, name):
    for n in tree.body:
        if isinstance(n, ast.ClassDef) and n.name == name:
            return n
    raise LookupError(name)


def _find_func(cls, name):
    for n in cls.body:
        if isinstance(n, ast.FunctionDef) and n.name == name:
            return n
    raise LookupError(name)


def _assigned_list(fn, var):
    for n in ast.walk(fn):
        if isinstance(n, ast.Assign) and len(n.targets) == 1 and isinstance(n.targets[0], ast.Name) and n.targets[0].id == var:
            v = _lit(n.value)
            if isinstance(v, list) and all(isinstance(t, tuple) and len(t) == 2 for t in v):
                return [tuple(int(x) for x in t) for t in v]
    raise LookupError(var)


MEMO = "memo-on-all-arguments"


def _norm_decorator(d):
    """`cache`, `functools.cache`, `lru_cache(maxsize=…)` all memoise on the full argument tuple (a bounded table only forgets):
    one name for them, so that swapping one for another stays quiet"""
    u = ast.unparse(d)
    f = d.func if isinstance(d, ast.Call) else d
    base = f.attr if isinstance(f, ast.Attribute) else f.id if isinstance(f, ast.Name) else u
    if base in ("cache", "lru_cache") and "typed=True" not in u.replace(" ", ""):
        return MEMO
    return base if base == "cached_property" else u


def ast_tables(repo):
    """the literal tables as written in the source; raises LookupError if the shape is not found"""
    res = {}
    tree = ast.parse(open(os.path.join(repo, "mesa/discrete_space/grid.py")).read())
    res["moore2d"] = _assigned_list(_find_func(_find_class(tree, "OrthogonalMooreGrid"), "_connect_cells_2d"), "offsets")
    res["vn2d"] = _assigned_list(_find_func(_find_class(tree, "OrthogonalVonNeumannGrid"), "_connect_cells_2d"), "offsets")
    hexfn = _find_func(_find_class(tree, "HexGrid"), "_connect_cells_2d")
    tabs = {"even_offsets": _assigned_list(hexfn, "even_offsets"), "odd_offsets": _assigned_list(hexfn, "odd_offsets")}
    # offsets = A if i % 2 else B     with  i = cell.coordinate[k]
    sel = axis = None
    for n in ast.walk(hexfn):
        if isinstance(n, ast.IfExp) and isinstance(n.body, ast.Name) and isinstance(n.orelse, ast.Name):
            t = n.test
            if (isinstance(t, ast.BinOp) and isinstance(t.op, ast.Mod) and isinstance(t.left, ast.Name)
                    and isinstance(t.right, ast.Constant) and t.right.value == 2):
                sel = (n.body.id, n.orelse.id, t.left.id)
    if sel is None:
        raise LookupError("hex parity selection")
    for n in ast.walk(hexfn):
        if (isinstance(n, ast.Assign) and isinstance(n.targets[0], ast.Name) and n.targets[0].id == sel[2]
                and isinstance(n.value, ast.Subscript) and isinstance(n.value.slice, ast.Constant)
                and isinstance(n.value.value, ast.Attribute) and n.value.value.attr == "coordinate"):
            axis = int(n.value.slice.value)
    if axis is None:
        raise LookupError("hex parity axis")
    res["hexWhenOdd"], res["hexWhenEven"], res["hexParityAxis"] = tabs[sel[0]], tabs[sel[1]], axis
    # n-D paths: product([-1, 0, 1], repeat=…) and `for delta in [-1, 1]`
    base = deltas = None
    for n in ast.walk(_find_func(_find_class(tree, "OrthogonalMooreGrid"), "_connect_cells_nd")):
        if isinstance(n, ast.Call) and isinstance(n.func, ast.Name) and n.func.id == "product" and n.args and isinstance(n.args[0], ast.List):
            base = [int(x) for x in _lit(n.args[0])]
    for n in ast.walk(_find_func(_find_class(tree, "OrthogonalVonNeumannGrid"), "_connect_cells_nd")):
        if isinstance(n, ast.For) and isinstance(n.target, ast.Name) and n.target.id == "delta" and isinstance(n.iter, ast.List):
            deltas = [int(x) for x in _lit(n.iter)]
    if base is None or deltas is None:
        raise LookupError("n-D offset literals")
    res["mooreNdBase"], res["vnNdDeltas"] = base, deltas
    tree = ast.parse(open(os.path.join(repo, "mesa/discrete_space/cell_agent.py")).read())
    dm = None
    for n in _find_class(tree, "Grid2DMovingAgent").body:
        if isinstance(n, ast.Assign) and isinstance(n.targets[0], ast.Name) and n.targets[0].id == "DIRECTION_MAP":
            dm = _lit(n.value)
    if dm is None:
        raise LookupError("DIRECTION_MAP")
    res["directionMap"] = [(k, tuple(int(x) for x in v)) for k, v in dm.items()]
    # the memoised neighbourhood methods of Cell: decorators and parameter lists (= the memo key of functools.cache), and the
    # arguments get_neighborhood hands on to _neighborhood
    tree = ast.parse(open(os.path.join(repo, "mesa/discrete_space/cell.py")).read())
    cell = _find_class(tree, "Cell")
    memo = []
    for name in ("get_neighborhood", "_neighborhood", "neighborhood"):
        fn = _find_func(cell, name)
        a = fn.args
        params = [x.arg for x in a.posonlyargs + a.args] + (["*" + a.vararg.arg] if a.vararg else []) + [x.arg for x in a.kwonlyargs] + (
            ["**" + a.kwarg.arg] if a.kwarg else [])
        memo.append((name, [_norm_decorator(d) for d in fn.decorator_list], params))
    res["nbhdMemo"] = memo
    inner = None
    for n in ast.walk(_find_func(cell, "get_neighborhood")):
        if isinstance(n, ast.Call) and isinstance(n.func, ast.Attribute) and n.func.attr == "_neighborhood":
            # positional arguments are bound to the parameter names, so that a positional / keyword rewrite stays quiet
            names = memo[1][2][1:]
            bound = {names[i]: ast.unparse(x) for i, x in enumerate(n.args) if i < len(names)}
            bound.update({k.arg: ast.unparse(k.value) for k in n.keywords if k.arg})
            inner = [f"{k}={bound[k]}" for k in names if k in bound] + [f"{k}={v}" for k, v in bound.items() if k not in names]
    if inner is None:
        raise LookupError("get_neighborhood -> _neighborhood call")
    res["nbhdInnerCall"] = inner
    return res


def probe_tables():
    """the same tables read off the running code (5^n non-torus grids, centre cell)"""
    core.import_mesa()
    from mesa.discrete_space import Grid2DMovingAgent, HexGrid, OrthogonalMooreGrid, OrthogonalVonNeumannGrid

    R = random.Random(0)
    res = {}
    for name, cls in (("moore", OrthogonalMooreGrid), ("vn", OrthogonalVonNeumannGrid)):
        for n in (1, 2, 3, 4):
            g = cls((5,) * n, torus=False, random=R)
            res[f"{name}Probe{n}"] = [tuple(int(x) for x in k) for k in g[(2,) * n].connections]
    g = HexGrid((5, 5), torus=False, random=R)
    res["hexProbeEven"] = [tuple(int(x) for x in k) for k in g[2, 2].connections]
    res["hexProbeOdd"] = [tuple(int(x) for x in k) for k in g[2, 1].connections]
    res["hexProbeOdd3"] = [tuple(int(x) for x in k) for k in g[2, 3].connections]
    res["directionProbe"] = [(k, tuple(int(x) for x in v)) for k, v in Grid2DMovingAgent.DIRECTION_MAP.items()]
    # the memoised methods as the running class has them: functools.cache wrappers (cache_clear) around functions with these
    # parameters, a cached_property
    import functools
    import inspect

    from mesa.discrete_space import Cell

    memo = []
    for name in ("get_neighborhood", "_neighborhood"):
        f = Cell.__dict__[name]
        how = [MEMO] if hasattr(f, "cache_clear") and hasattr(f, "__wrapped__") and not f.cache_parameters().get("typed") else ["?"]
        memo.append((name, how, list(inspect.signature(getattr(f, "__wrapped__", f)).parameters)))
    f = Cell.__dict__["neighborhood"]
    memo.append(("neighborhood", ["cached_property"] if isinstance(f, functools.cached_property) else ["?"],
                 list(inspect.signature(f.func).parameters) if isinstance(f, functools.cached_property) else []))
    res["nbhdMemoProbe"] = memo
    return res


def _lean_int(x):
    return str(x) if x >= 0 else f"({x})"


def _lean_pairs(l):
    return "[" + ", ".join(f"({_lean_int(a)}, {_lean_int(b)})" for a, b in l) + "]"


def _lean_vecs(l):
    return "[" + ", ".join("[" + ", ".join(_lean_int(x) for x in v) + "]" for v in l) + "]"


def _lean_dirs(l):
    return "[" + ",\n   ".join(f'("{k}", ({_lean_int(a)}, {_lean_int(b)}))' for k, (a, b) in l) + "]"


def _lean_strs(l):
    return "[" + ", ".join('"' + x.replace("\\", "\\\\").replace('"', '\\"') + '"' for x in l) + "]"


def _lean_memo(m):
    return "[" + ",\n   ".join(f'("{n}", {_lean_strs(d)}, {_lean_strs(a)})' for n, d, a in m) + "]"


def gen_tables():
    """{relative lean path: content} — rewritten from MESA_REPO on every check"""
    pr = probe_tables()
    try:
        at = ast_tables(core.REPO)
        how = "ast"
    except (LookupError, ValueError, SyntaxError, OSError) as e:
        # harmless refactor of the literals' shape: fall back to what the running code uses
        at = {"moore2d": pr["mooreProbe2"], "vn2d": pr["vnProbe2"], "hexWhenOdd": pr["hexProbeOdd"],
              "hexWhenEven": pr["hexProbeEven"], "hexParityAxis": 1, "mooreNdBase": [-1, 0, 1],
              "vnNdDeltas": [-1, 1], "directionMap": pr["directionProbe"], "nbhdMemo": pr["nbhdMemoProbe"],
              "nbhdInnerCall": ["radius=radius", "include_center=include_center"]}
        how = f"probe (AST shape not found: {type(e).__name__})"
    L = []
    L.append("/-! GENERATED by harness/cells_common.py `gen_tables()` from mesa/discrete_space/grid.py and")
    L.append("cell_agent.py of the checked repository — rewritten on every check, do not edit.")
    L.append("`…2d`, `hexWhen…`, `directionMap`, `mooreNdBase`, `vnNdDeltas`: the literals in the source (AST);")
    L.append("`…Probe…`: connection keys of the centre cell of a 5^n non-torus grid of the running code. -/")
    L.append("namespace Mesa.Cells.Gen")
    L.append("")
    L.append(f'def tablesFrom : String := "{how}"')
    L.append(f"def moore2d : List (Int × Int) := {_lean_pairs(at['moore2d'])}")
    L.append(f"def vn2d : List (Int × Int) := {_lean_pairs(at['vn2d'])}")
    L.append("/-- the table `HexGrid._connect_cells_2d` selects when `coordinate[hexParityAxis] % 2` is truthy -/")
    L.append(f"def hexWhenOdd : List (Int × Int) := {_lean_pairs(at['hexWhenOdd'])}")
    L.append(f"def hexWhenEven : List (Int × Int) := {_lean_pairs(at['hexWhenEven'])}")
    L.append(f"def hexParityAxis : Nat := {at['hexParityAxis']}")
    L.append(f"def mooreNdBase : List Int := [{', '.join(_lean_int(x) for x in at['mooreNdBase'])}]")
    L.append(f"def vnNdDeltas : List Int := [{', '.join(_lean_int(x) for x in at['vnNdDeltas'])}]")
    L.append(f"def directionMap : List (String × (Int × Int)) :=\n  {_lean_dirs(at['directionMap'])}")
    L.append("")
    for n in (1, 2, 3, 4):
        L.append(f"def mooreProbe{n} : List (List Int) := {_lean_vecs(pr[f'mooreProbe{n}'])}")
        L.append(f"def vnProbe{n} : List (List Int) := {_lean_vecs(pr[f'vnProbe{n}'])}")
    L.append(f"def hexProbeEven : List (List Int) := {_lean_vecs(pr['hexProbeEven'])}")
    L.append(f"def hexProbeOdd : List (List Int) := {_lean_vecs(pr['hexProbeOdd'])}")
    L.append(f"def hexProbeOdd3 : List (List Int) := {_lean_vecs(pr['hexProbeOdd3'])}")
    L.append(f"def directionProbe : List (String × (Int × Int)) :=\n  {_lean_dirs(pr['directionProbe'])}")
    L.append("/-- the memoised neighbourhood methods of `Cell` in the source: (name, decorators, parameters) — the parameters of a")
    L.append("    `functools.cache`d method are its memo key -/")
    L.append(f"def nbhdMemo : List (String × List String × List String) :=\n  {_lean_memo(at['nbhdMemo'])}")
    L.append(f"def nbhdMemoProbe : List (String × List String × List String) :=\n  {_lean_memo(pr['nbhdMemoProbe'])}")
    L.append("/-- the arguments `get_neighborhood` hands on to `_neighborhood` -/")
    L.append(f"def nbhdInnerCall : List String := {_lean_strs(at['nbhdInnerCall'])}")
    L.append("")
    L.append("end Mesa.Cells.Gen")
    return {"MesaModel/Gen/CellTables.lean": "\n".join(L) + "\n"}


# --------------------------------------------------------------------------------------
# implementation runner


def _mesa():
    core.import_mesa()
    import mesa.discrete_space as ds
    from mesa import Model

    return Model, ds


def fmt_name(k):
    """protocol name of a cell key / connection key"""
    if isinstance(k, tuple):
        return ",".join(str(int(x)) for x in k)
    return str(int(k))


def parse_tuple(s):
    return tuple(int(x) for x in s.split(","))


def parse_opt_int(s):
    return None if s == "-" else int(s)


def exc_name(e):
    if isinstance(e, ScriptExhausted):
        return "Script"
    msg = str(e)
    if type(e) is Exception and "Cell is full" in msg:
        return "Full"
    if isinstance(e, ValueError):
        if "No cell in direction" in msg:
            return "NoCell"
        if "Cannot move agent in FixedCell" in msg:
            return "Fixed"
        return "Value"
    if isinstance(e, AttributeError):
        return "Attr"
    if isinstance(e, KeyError):
        return "Key"
    if isinstance(e, IndexError):
        return "Index"
    if isinstance(e, TypeError) and "unhashable" in msg:
        return "Type"
    raise e


EDITS = ("connect", "disconnect")
QUERIES = ("conns", "nbhd", "nbprop", "mask", "nbagents", "coll") + EDITS  # lines answered with a result only (no dump)

FILTERS = {
    "none": None,
    "empty": lambda cell: cell.is_empty,
    "occupied": lambda cell: not cell.is_empty,
    "full": lambda cell: cell.is_full,
    "notfull": lambda cell: not cell.is_full,
}


def parse_at_most(m):
    """`inf` -> None (argument omitted), `<int>` -> int, `<a>/<b>` -> the float a/b"""
    if m == "inf":
        return None
    if "/" in m:
        a, b = m.split("/")
        return int(a) / int(b)
    return int(m)


class Header:
    """parsed scenario header"""

    def __init__(self, w):
        assert w[0] == "scenario"
        self.kind = w[1]
        if self.kind == "grid":
            self.grid, self.torus, self.cap, self.dims = w[2], w[3] == "1", parse_opt_int(w[4]), parse_tuple(w[5])
        elif self.kind == "net":
            # `m0` / `m1`: a MultiGraph / MultiDiGraph (parallel edges are kept by networkx; the adjacency is the same)
            self.directed, self.multi, self.cap, self.n = w[2] in ("1", "m1"), w[2].startswith("m"), parse_opt_int(w[3]), int(w[4])
            self.edges = [tuple(int(x) for x in e.split("-")) for e in w[5:]]
        elif self.kind == "vor":
            # `d`: the default `capacity_function` (capacity = int(area * 500) per cell, areas given exactly as a:num/den)
            self.default_cap = w[2] == "d"
            self.cap, self.n = (None if self.default_cap else parse_opt_int(w[2])), int(w[3])
            self.areas = [Fraction(t[2:]) for t in w[4:] if t.startswith("a:")]
            # `c:k` (only with `d`): `capacity=k` is passed too; `_build_cell_polygons` overwrites it on every cell
            self.passed_cap = next((int(t[2:]) for t in w[4:] if t.startswith("c:")), None)
            self.points = [parse_tuple(t[2:]) for t in w[4:] if t.startswith("p:")]
            # optional `s:k`: the centroids are the integer points divided by k (connections are scale-invariant,
            # the code's fixed-size Bowyer-Watson frame is not)
            self.scale = next((int(t[2:]) for t in w[4:] if t.startswith("s:")), 1)
            self.tris = [parse_tuple(t[2:]) for t in w[4:] if t.startswith("t:")]
        else:
            raise ValueError(w)

    def capof(self, name):
        """the capacity the cell named `name` must have (None: unlimited)"""
        if self.kind == "vor" and self.default_cap:
            return int(self.areas[int(name)] * 500)
        return self.cap

    def key(self, s):
        """protocol name -> key of `space._cells` / `connections`"""
        t = parse_tuple(s)
        if self.kind == "grid":
            return t
        return t[0] if len(t) == 1 else t


class Impl:
    """drives the real cell space with one scenario"""

    def __init__(self, header_words):
        Model, ds = _mesa()
        self.ds = ds
        self.h = h = Header(header_words)
        self.rng = ScriptedRandom()
        self.model = Model(seed=0)
        self.agents = []
        self.space = None
        try:
            if h.kind == "grid":
                cls = {"moore": ds.OrthogonalMooreGrid, "vn": ds.OrthogonalVonNeumannGrid, "hex": ds.HexGrid}[h.grid]
                self.space = cls(h.dims, torus=h.torus, capacity=h.cap, random=self.rng)
            elif h.kind == "net":
                import networkx as nx

                G = {(False, False): nx.Graph, (True, False): nx.DiGraph, (False, True): nx.MultiGraph,
                     (True, True): nx.MultiDiGraph}[h.directed, h.multi]()
                G.add_nodes_from(range(h.n))
                G.add_edges_from(h.edges)
                self.space = ds.Network(G, capacity=h.cap, random=self.rng)
            else:
                cap = h.cap
                pts = [[x / h.scale for x in p] for p in h.points]
                if h.default_cap:
                    self.space = ds.VoronoiGrid(pts, random=self.rng, **({} if h.passed_cap is None else {"capacity": h.passed_cap}))
                else:
                    self.space = ds.VoronoiGrid(pts, capacity=cap, random=self.rng, capacity_function=lambda area: cap)
        except ValueError:
            self.space = None
        if self.space is not None:
            self.name = {id(c): fmt_name(k) for k, c in self.space._cells.items()}

    # ------------------------------------------------------------------ observation
    def cname(self, cell):
        return "-" if cell is None else self.name[id(cell)]

    def dump(self):
        sp = self.space
        cells = list(sp.all_cells)
        ag = " ".join(f"{i}:{self.cname(a.cell)}" for i, a in enumerate(self.agents))
        occ = " ".join(f"{self.cname(c)}:{'.'.join(str(a._vidx) for a in c.agents)}" for c in cells if c.agents)
        empty = " ".join(self.cname(c) for c in cells if c.is_empty)
        full = " ".join(self.cname(c) for c in cells if c.is_full)
        if self.h.kind == "grid":
            data = sp.empty.data
            layer = " ".join(self.cname(c) for c in cells if bool(data[c.coordinate]))
            pempty = " ".join(self.cname(c) for c in cells if bool(c.empty))
            attr = "na"
        else:
            layer = pempty = "na"
            # no property layer: `cell.empty` is a plain attribute that exists only once add_agent has run on the cell
            attr = " ".join(f"{self.cname(c)}:{int(bool(c.empty))}" for c in cells if hasattr(c, "empty"))
        empties = " ".join(self.cname(c) for c in sp.empties)
        agents = " ".join(str(a._vidx) for a in sp.agents)
        reg = " ".join(str(a._vidx) for a in self.model.agents)
        cap = " ".join(f"{self.cname(c)}:{c.capacity}" for c in cells if c.capacity is not None)
        return (f"ag={ag} | occ={occ} | empty={empty} | full={full} | layer={layer} | pempty={pempty} | "
                f"empties={empties} | agents={agents} | reg={reg} | attr={attr} | cap={cap}")

    # ------------------------------------------------------------------ ops
    def mutate(self, w):
        ds, sp, k = self.ds, self.space, w[0]
        if k == "new":
            cls = {"cell": ds.CellAgent, "fixed": ds.FixedAgent, "g2d": ds.Grid2DMovingAgent}[w[1]]
            a = cls(self.model)
            a._vidx = len(self.agents)
            self.agents.append(a)
            return f"ok {a._vidx}"
        if k == "tryrandom":
            sp._try_random = w[1] == "1"
            return "ok"
        if k == "randempty":
            self.rng.script = [int(x) for x in w[1:]]
            return "ok " + self.cname(sp.select_random_empty_cell())
        if k == "randcell":
            self.rng.script = [int(x) for x in w[1:]]
            return "ok " + self.cname(sp.all_cells.select_random_cell())
        if k == "agentscopy":
            # the list `cell.agents` hands out belongs to the caller: emptying it must not empty the cell
            held = sp[self.h.key(w[1])].agents
            res = "ok " + ".".join(str(a._vidx) for a in held)
            held.clear()
            return res
        if k == "clearcell":
            # the idiom for emptying a cell: iterate over the copy while the agents leave the cell's own list
            for a in sp[self.h.key(w[1])].agents:
                a.remove()
            return "ok"
        if k == "setcap":
            # the program writes a cell's capacity by hand after construction (an int, 0 included, or None)
            sp[self.h.key(w[1])].capacity = parse_opt_int(w[2])
            return "ok"
        i = int(w[1])
        if i >= len(self.agents):
            return "err NoAgent"
        a = self.agents[i]
        if k == "set":
            a.cell = None if w[2] == "-" else sp[self.h.key(w[2])]
        elif k == "moveto":
            a.move_to(sp[self.h.key(w[2])])
        elif k == "moverel":
            a.move_relative(self.h.key(w[2]))
        elif k == "move":
            a.move(w[2], int(w[3]))
        elif k == "remove":
            a.remove()
        else:
            raise ValueError(w)
        return "ok"

    def build_coll(self, expr):
        """collection expression -> (CellCollection, order fixed by the API, last select returned its receiver)"""
        sp = self.space
        parts = expr.split("+")
        b = parts[0].split(":")
        if b[0] == "all":
            coll = sp.all_cells
        elif b[0] == "empties":
            coll = sp.empties
        elif b[0] == "nb":
            coll = sp[self.h.key(b[1])].get_neighborhood(int(b[2]), b[3] == "1")
        elif b[0] == "nbp":
            coll = sp[self.h.key(b[1])].neighborhood
        else:
            raise ValueError(expr)
        same = False
        for p in parts[1:]:
            f, m = p.split(":")
            kw = {}
            if f != "none":
                kw["filter_func"] = FILTERS[f]
            if parse_at_most(m) is not None:
                kw["at_most"] = parse_at_most(m)
            new = coll.select(**kw)
            same, coll = new is coll, new
        return coll, b[0] in ("all", "empties"), same

    def coll_line(self, w):
        coll, ordered, same = self.build_coll(w[1])
        verb = w[2]
        cells = list(coll)
        # the views of one collection must agree with each other, and it must carry the space's generator
        odd = []
        if list(coll.cells) != cells or len(coll) != len(cells):
            odd.append("cells/iter/len-differ")
        if coll.random is not self.rng:
            odd.append("other-generator")
        if any(coll[c] is not c._agents for c in cells):
            odd.append("not-the-live-agent-lists")
        tail = (" INCONSISTENT:" + ",".join(odd)) if odd else ""
        names = [self.cname(c) for c in cells]
        if verb == "cells":
            if not ordered:
                names = [fmt_name(k) for k in sorted(parse_tuple(n) for n in names)]
            return "ok " + " ".join(names) + tail
        if verb == "agents":
            ids = [a._vidx for a in coll.agents]
            return "ok " + " ".join(map(str, ids if ordered else sorted(ids))) + tail
        if verb == "len":
            return f"ok {len(coll)}" + tail
        if verb == "same":
            if len(w[1].split("+")) < 2:
                raise ValueError(w)
            return f"ok {int(same)}" + tail
        if verb == "has":
            return f"ok {int(self.space[self.h.key(w[3])] in coll)}" + tail
        if verb == "get":
            return "ok " + ".".join(str(a._vidx) for a in coll[self.space[self.h.key(w[3])]]) + tail
        if verb in ("randcell", "randagent"):
            draws = [int(x) for x in w[3:]]
            self.rng.script = list(draws)
            if verb == "randcell":
                pop = cells
                x = coll.select_random_cell()
                name = self.cname(x)
            else:
                pop = list(coll.agents)
                x = coll.select_random_agent()
                name = str(x._vidx)
            used = len(draws) - len(self.rng.script)
            pos = next((i for i, y in enumerate(pop) if y is x), None)
            if pos is None:
                tail += " INCONSISTENT:result-not-in-population"
            return ("ok " + name if ordered else "ok") + f" pos={pos}/{len(pop)} used={used}" + tail
        raise ValueError(w)

    def query(self, w):
        sp, k = self.space, w[0]
        if k == "coll":
            return self.coll_line(w)
        if k == "connect":
            sp[self.h.key(w[1])].connect(sp[self.h.key(w[2])], None if w[3] == "-" else self.h.key(w[3]))
            return "ok"
        if k == "disconnect":
            sp[self.h.key(w[1])].disconnect(sp[self.h.key(w[2])])
            return "ok"
        if k == "conns":
            cell = sp[self.h.key(w[1])]
            items = sorted((tuple(kk) if isinstance(kk, tuple) else (kk,), v) for kk, v in cell.connections.items())
            return "ok " + " ".join(f"{fmt_name(kk)}>{self.cname(v)}" for kk, v in items)
        if k == "nbprop":
            cell = sp[self.h.key(w[1])]
            return self.fmt_cells(cell.neighborhood)
        r, ic = int(w[2]), w[3] == "1"
        if k == "mask":
            m = sp.get_neighborhood_mask(self.h.key(w[1]), include_center=ic, radius=r)
            import numpy as np

            return "ok " + " ".join(fmt_name(tuple(x)) for x in sorted(map(tuple, np.argwhere(m).tolist())))
        cell = sp[self.h.key(w[1])]
        if k == "nbagents":
            return "ok " + " ".join(map(str, sorted(a._vidx for a in cell.get_neighborhood(r, ic).agents)))
        style = w[4] if len(w) > 4 else "p"
        if style == "k":
            res = cell.get_neighborhood(radius=r, include_center=ic)
        elif style == "m":
            res = cell.get_neighborhood(r, include_center=ic)
        else:
            res = cell.get_neighborhood(r, ic)
        return self.fmt_cells(res)

    def fmt_cells(self, coll):
        keys = sorted(parse_tuple(self.cname(c)) for c in coll)
        return "ok " + " ".join(fmt_name(k) for k in keys)

    def line(self, w):
        if self.space is None:
            return "err NoSpace"
        q = w[0] in QUERIES
        try:
            res = self.query(w) if q else self.mutate(w)
        except Exception as e:  # mapped to the protocol's small enum; anything else is re-raised
            res = "err " + exc_name(e)
        return res if q else res + " | " + self.dump()


def run_impl(sc):
    impl = Impl(sc.lines[0].split())
    obs = ["ok" if impl.space is not None else "err Value"]
    for l in sc.lines[1:]:
        obs.append(impl.line(l.split()))
    return obs


def parse_dump(o):
    """observation line of a mutating op -> (result, dict of sections)"""
    parts = o.split(" | ")
    d = {}
    for p in parts[1:]:
        k, _, v = p.partition("=")
        d[k] = v.split()
    return parts[0], d


# --------------------------------------------------------------------------------------
# geometry from first principles (for the oracles): who is connected to whom


def cube(i, j):
    """cube coordinates of the hexagon at (i, j) in the layout HexGrid draws: columns j, even columns
    shifted down by half a cell"""
    q = j
    r = i - (j + (j & 1)) // 2
    return q, r, -q - r


def hex_touch(a, b):
    qa, ra, sa = cube(*a)
    qb, rb, sb = cube(*b)
    return max(abs(qa - qb), abs(ra - rb), abs(sa - sb)) == 1


def spec_connections(h):
    """{cell key: {connection key: cell key}} as the property statement defines them"""
    res = {}
    if h.kind == "grid":
        n = len(h.dims)
        for c in itertools.product(*(range(d) for d in h.dims)):
            conn = {}
            for d in itertools.product((-1, 0, 1), repeat=n):
                if h.grid == "moore":
                    ok = max(abs(x) for x in d) == 1
                elif h.grid == "vn":
                    ok = sum(abs(x) for x in d) == 1
                else:
                    ok = any(d) and hex_touch(c, tuple(x + y for x, y in zip(c, d)))
                if not ok:
                    continue
                t = tuple(x + y for x, y in zip(c, d))
                if h.torus:
                    t = tuple(x % m for x, m in zip(t, h.dims))
                if all(0 <= x < m for x, m in zip(t, h.dims)):
                    conn[d] = t
            res[c] = conn
    elif h.kind == "net":
        for u in range(h.n):
            res[u] = {}
        for a, b in h.edges:
            res[a][b] = b
            if not h.directed:
                res[b][a] = a
    else:
        for i in range(h.n):
            res[i] = {}
        for a, b, c in delaunay_exact(h.points):
            for i, j in itertools.permutations((a, b, c), 2):
                res[i][(i, j)] = j
    return res


def apply_edit(conn, h, w):
    """a `connect` / `disconnect` line applied to the spec connections {cell: {key: cell}} (a dict assignment /
    the deletion of every key leading to the other cell); lines the implementation has to reject change nothing"""
    try:
        c, c2 = h.key(w[1]), h.key(w[2])
    except ValueError:
        return
    if c not in conn or c2 not in conn:
        return
    if w[0] == "connect":
        if w[3] == "-":
            if h.kind == "vor":
                return  # the coordinate of a Voronoi cell is a list: not a dict key
            key = c2
        else:
            key = h.key(w[3])
        conn[c][key] = c2
    else:
        for k in [k for k, v in conn[c].items() if v == c2]:
            del conn[c][k]


def expect_edit(conn, h, w):
    """the result a `connect` / `disconnect` line must have"""
    try:
        c, c2 = h.key(w[1]), h.key(w[2])
    except ValueError:
        return None
    if c not in conn or c2 not in conn:
        return "err Key"
    if w[0] == "connect" and w[3] == "-" and h.kind == "vor":
        return "err Type"
    return "ok"


def within(conn, c, r):
    """cells within r connection hops of c (0 hops = c itself)"""
    seen = {c}
    frontier = [c]
    for _ in range(r):
        nxt = []
        for x in frontier:
            for y in conn[x].values():
                if y not in seen:
                    seen.add(y)
                    nxt.append(y)
        frontier = nxt
        if not frontier:
            break
    return seen


def spec_coll(expr, h, conn, names, occ, cap):
    """a collection expression from first principles: (error | None, cell names, order fixed, exact).
    `occ`: {cell name: [agent ids]} as the last dump showed it; `exact` is False where only the size and membership
    are determined (a bounded selection out of a neighbourhood, whose order the property does not fix) or where the
    documentation is silent (a float `at_most` above 1)"""
    parts = expr.split("+")
    b = parts[0].split(":")
    ordered, exact = b[0] in ("all", "empties"), True
    if b[0] == "all":
        cells = list(names)
    elif b[0] == "empties":
        cells = [n for n in names if not occ.get(n)]
    else:
        try:
            key = h.key(b[1])
        except ValueError:
            return "Key", None, ordered, exact
        if key not in conn:
            return "Key", None, ordered, exact
        r, ic = (int(b[2]), b[3] == "1") if b[0] == "nb" else (1, False)
        if r < 1:
            return "Value", None, ordered, exact
        reach = within(conn, key, r)
        if not ic:
            reach.discard(key)
        cells = [fmt_name(k) for k in sorted(k if isinstance(k, tuple) else (k,) for k in reach)]
    capof = cap if isinstance(cap, dict) else {n: cap for n in names}

    def full(n):
        return capof[n] is not None and len(occ.get(n, [])) == capof[n]

    preds = {"none": lambda n: True, "empty": lambda n: not occ.get(n), "occupied": lambda n: bool(occ.get(n)),
             "full": full, "notfull": lambda n: not full(n)}
    for p in parts[1:]:
        f, m = p.split(":")
        match = [n for n in cells if preds[f](n)]
        if m == "inf":
            cells = match
            continue
        if "/" in m:
            a, d = (int(x) for x in m.split("/"))
            if a > d:
                exact = False  # "at most 2.5 cells": the documentation does not say
                limit = -(-a // d)
            else:
                limit = len(cells) * a // d  # "at most that fraction of original number of cells", rounded down
        else:
            limit = max(0, int(m))
        if not ordered and limit < len(match):
            exact = False
        cells = match[:limit]
    return None, cells, ordered, exact


def oracle_coll(line, o, h, conn, names, occ, cap):
    """the clauses about one `coll` line: the views of a collection are those of its cells *now*, selections are
    order-preserving filters, random selections draw once from the collection's own generator over its population"""
    bad = []
    w = line.split()
    if "INCONSISTENT" in o:
        bad.append(f"coll-views: `{line}` -> {o}")
        return bad
    err, cells, ordered, exact = spec_coll(w[1], h, conn, names, occ, cap)
    verb = w[2]
    if err:
        if o != "err " + err:
            bad.append(f"coll-reject: `{line}` -> {o}, expected err {err}")
        return bad
    agents = [a for n in cells for a in occ.get(n, [])]
    ans = o.split()[1:] if o.startswith("ok") else None
    if verb == "len":
        if exact and o != f"ok {len(cells)}":
            bad.append(f"coll-len: `{line}` -> {o}, the collection has {len(cells)} cells")
    elif verb == "cells" and exact:
        if ans != cells:
            bad.append(f"coll-cells: `{line}` -> {o}, expected {cells}")
    elif verb == "agents" and exact:
        want = agents if ordered else sorted(agents, key=int)
        if ans != want:
            bad.append(f"coll-agents: `{line}` -> {o}, the cells hold {want}")
    elif verb == "has" and exact:
        try:
            known = h.key(w[3]) in conn
        except ValueError:
            known = False
        want = ("ok 1" if w[3] in cells else "ok 0") if known else "err Key"
        if o != want:
            bad.append(f"coll-in: `{line}` -> {o}, expected {want}")
    elif verb == "get" and exact:
        want = "ok " + ".".join(occ.get(w[3], [])) if w[3] in cells else "err Key"
        if o.strip() != want.strip():
            bad.append(f"coll-getitem: `{line}` -> {o}, expected {want}")
    elif verb in ("randcell", "randagent") and exact:
        pop = cells if verb == "randcell" else agents
        draws = [int(x) for x in w[3:]]
        if not pop:
            want = "err Index"
        elif not draws:
            want = "err Script"
        else:
            i = draws[0] % len(pop)
            want = (f"ok {pop[i]}" if ordered else "ok") + f" pos={i}/{len(pop)} used=1"
        if o != want:
            bad.append(f"coll-random: `{line}` -> {o}, one draw over the population {pop if ordered else sorted(pop)} gives {want}")
    return bad


# --------------------------------------------------------------------------------------
# exact Delaunay triangulation of small integer point sets (brute force, rational-free: integer determinants)

FRAME = [(-9999, -9999), (9999, -9999), (9999, 9999), (-9999, 9999)]


def orient(a, b, c):
    return (b[0] - a[0]) * (c[1] - a[1]) - (b[1] - a[1]) * (c[0] - a[0])


def incircle(a, b, c, d):
    """> 0 iff d is strictly inside the circle through a, b, c (any orientation)"""
    m = []
    for p in (a, b, c):
        x, y = p[0] - d[0], p[1] - d[1]
        m.append((x, y, x * x + y * y))
    det = (m[0][0] * (m[1][1] * m[2][2] - m[1][2] * m[2][1])
           - m[0][1] * (m[1][0] * m[2][2] - m[1][2] * m[2][0])
           + m[0][2] * (m[1][0] * m[2][1] - m[1][1] * m[2][0]))
    return det if orient(a, b, c) > 0 else -det


def delaunay_exact(points, extra=()):
    """triangles (index triples into `points`) whose circumcircle contains no point of points+extra"""
    allp = list(points) + list(extra)
    res = []
    for i, j, k in itertools.combinations(range(len(points)), 3):
        a, b, c = points[i], points[j], points[k]
        if orient(a, b, c) == 0:
            continue
        if all(incircle(a, b, c, p) <= 0 for t, p in enumerate(allp) if t not in (i, j, k)):
            res.append((i, j, k))
    return res


def general_position(points, extra=()):
    allp = list(points) + list(extra)
    np_ = len(points)
    if len(set(allp)) != len(allp):
        return False
    for t in itertools.combinations(range(len(allp)), 3):
        if min(t) < np_ and orient(*(allp[i] for i in t)) == 0:
            return False
    for t in itertools.combinations(range(len(allp)), 4):
        if min(t) < np_:
            a, b, c, d = (allp[i] for i in t)
            if incircle(a, b, c, d) == 0:
                return False
    return True


def circumcenter(a, b, c):
    (ax, ay), (bx, by), (cx, cy) = a, b, c
    d = 2 * (ax * (by - cy) + bx * (cy - ay) + cx * (ay - by))
    a2, b2, c2 = ax * ax + ay * ay, bx * bx + by * by, cx * cx + cy * cy
    return Fraction(a2 * (by - cy) + b2 * (cy - ay) + c2 * (ay - by), d), Fraction(a2 * (cx - bx) + b2 * (ax - cx) + c2 * (bx - ax), d)


def voronoi_areas(points, scale=1):
    """exact areas (Fractions, in true units) of the Voronoi cells as `_build_cell_polygons` defines them: around each centroid the
    polygon of the circumcentres of the Delaunay triangles of centroids + the four corners of the code's 9999-frame
    (`points` are integers in units of 1/scale).  None if a walk around a centroid does not close (degenerate input)."""
    frame = [(x * scale, y * scale) for x, y in FRAME]
    allp = list(points) + frame
    n = len(points)
    tris = []
    for i, j, k in itertools.combinations(range(len(allp)), 3):
        if i >= n:
            continue
        a, b, c = allp[i], allp[j], allp[k]
        if orient(a, b, c) != 0 and all(incircle(a, b, c, p) <= 0 for t, p in enumerate(allp) if t not in (i, j, k)):
            tris.append((i, j, k))
    areas = []
    for v in range(n):
        inc = [t for t in tris if v in t]
        if len(inc) < 3:
            return None
        cur = inc[0]
        start, nxt = (x for x in cur if x != v)
        order = [cur]
        while True:
            cand = [t for t in inc if t not in order and nxt in t]
            if not cand:
                break
            cur = cand[0]
            order.append(cur)
            nxt = next(x for x in cur if x != v and x != nxt)
        if len(order) != len(inc) or nxt != start:
            return None
        poly = [circumcenter(*(allp[x] for x in t)) for t in order]
        twice = sum(poly[i][0] * poly[(i + 1) % len(poly)][1] - poly[(i + 1) % len(poly)][0] * poly[i][1] for i in range(len(poly)))
        areas.append(abs(twice) / 2 / (scale * scale))
    return areas


def voronoi_ok(points, scale=1):
    """general position, and the code's finite 9999-frame does not change the triangulation
    (`points` are integers in units of 1/scale, so the frame is scaled up instead)"""
    frame = [(x * scale, y * scale) for x, y in FRAME]
    if not general_position(points, frame):
        return None
    t = delaunay_exact(points)
    if t != delaunay_exact(points, frame):
        return None
    return t


# --------------------------------------------------------------------------------------
# scenario headers


def gen_grid_header(R, max_axes=3, max_size=4, caps=(None, None, 1, 1, 2, 3), max_cells=30):
    while True:
        kind = R.choice(["moore", "moore", "vn", "vn", "hex"])
        n = 2 if kind == "hex" else R.choice([1, 2, 2, 2, 3, 3][: 2 + 2 * max_axes - 2] if max_axes < 3 else [1, 2, 2, 2, 3, 3])
        dims = tuple(R.randint(1, max_size + (2 if n == 1 else 0)) for _ in range(n))
        size = 1
        for d in dims:
            size *= d
        if size <= max_cells:
            break
    cap = R.choice(caps)
    return f"scenario grid {kind} {R.randint(0, 1)} {'-' if cap is None else cap} {','.join(map(str, dims))}"


def gen_net_header(R, max_nodes=8, caps=(None, None, 1, 1, 2, 3), directed_p=0.15, rich=False):
    """`rich`: beyond simple graphs — self loops, repeated and antiparallel edges, either orientation of an undirected edge,
    MultiGraph / MultiDiGraph (about 45% of the headers)"""
    n = R.randint(1, max_nodes)
    p = R.choice([0.0, 0.2, 0.4, 0.7])
    edges = [(a, b) for a in range(n) for b in range(a + 1, n) if R.random() < p]
    R.shuffle(edges)
    directed = R.random() < directed_p
    if directed:
        edges = [(a, b) if R.random() < 0.5 else (b, a) for a, b in edges]
    multi = False
    if rich and R.random() < 0.45:
        multi = R.random() < 0.35
        extra = []
        for _ in range(R.choice([1, 1, 2, 3])):
            k = R.random()
            if k < 0.45 or not edges:
                a = R.randrange(n)
                extra.append((a, a))  # self loop
            elif k < 0.75:
                extra.append(R.choice(edges))  # the same edge again
            else:
                a, b = R.choice(edges)
                extra.append((b, a))  # antiparallel (DiGraph: a second connection; Graph: the same edge)
        if not directed:
            edges = [(a, b) if R.random() < 0.6 else (b, a) for a, b in edges]
        for e in extra:
            edges.insert(R.randrange(len(edges) + 1), e)
    cap = R.choice(caps)
    kind = ("m" if multi else "") + str(int(directed))
    return f"scenario net {kind} {'-' if cap is None else cap} {n} " + " ".join(f"{a}-{b}" for a, b in edges)


FALLBACK_POINTS = [(-3, -6), (6, -9), (3, 4), (-9, 5), (-1, -2)]  # in general position, also with the frame corners


def gen_vor_default_header(R, max_points=7, rich=False):
    """a VoronoiGrid with the default capacity_function: a small cluster in units of 1/16 .. 1/64 so that inner cells get
    capacities of a few agents (int(area * 500)); None if no suitable point set was found"""
    for _ in range(60):
        scale = R.choice([16, 32, 32, 64])
        n = R.randint(4, max_points)
        span = R.choice([3, 4, 5, 6])
        pts = [(R.randint(-span, span), R.randint(-span, span)) for _ in range(n)]
        tris = voronoi_ok(pts, scale)
        if tris is None:
            continue
        areas = voronoi_areas(pts, scale)
        if areas is None:
            continue
        caps = [int(a * 500) for a in areas]
        # the float area must not sit on a rounding edge of int(area * 500) where it could matter
        if any(c < 10 ** 6 and not (Fraction(1, 10 ** 6) < a * 500 - c < 1 - Fraction(1, 10 ** 6)) for a, c in zip(areas, caps)):
            continue
        if not any(1 <= c <= 4 for c in caps) and R.random() < 0.8:
            continue
        passed = f" c:{R.choice([1, 1, 2, 5])}" if rich and R.random() < 0.4 else ""
        return (f"scenario vor d {n} " + " ".join(f"p:{x},{y}" for x, y in pts) + " " + " ".join(f"t:{a},{b},{c}" for a, b, c in tris)
                + f" s:{scale} " + " ".join(f"a:{a.numerator}/{a.denominator}" for a in areas) + passed)
    return None


def gen_vor_header(R, max_points=7, caps=(None, None, 1, 1, 2, 3), span=9, default_cap=False, rich=False):
    if default_cap:
        hd = gen_vor_default_header(R, max_points, rich=rich)
        if hd is not None:
            return hd
    scale = 1
    for _ in range(50):
        n = R.randint(3, max_points)
        if R.random() < 0.3:
            # thin triangles with large circumcircles (still far inside the code's 9999 frame): a centroid a hair
            # inside a long hull edge.  Coordinates in units of 1/1024 (exact in binary64).
            scale = 1024
            pts = [(R.randint(-span, span) * scale, R.randint(-span, span) * scale) for _ in range(n - 1)]
            (ax, ay), (bx, by) = R.sample(pts, 2) if len(set(pts)) > 1 else ((0, 0), (scale, 0))
            t = R.choice([1, 1, 2, 3]) / 4
            pts.append((int(ax + (bx - ax) * t) + R.choice([-3, -1, 1, 2, 5]), int(ay + (by - ay) * t) + R.choice([-2, 1, 3, -5])))
        else:
            scale = 1
            pts = [(R.randint(-span, span), R.randint(-span, span)) for _ in range(n)]
        tris = voronoi_ok(pts, scale)
        if tris is not None:
            break
    else:
        pts, scale = FALLBACK_POINTS, 1
        tris = voronoi_ok(pts)
    cap = R.choice(caps)
    return (f"scenario vor {'-' if cap is None else cap} {len(pts)} " + " ".join(f"p:{x},{y}" for x, y in pts) + " "
            + " ".join(f"t:{a},{b},{c}" for a, b, c in tris) + (f" s:{scale}" if scale != 1 else ""))


RICH_CAPS = (None, None, None, 1, 1, 1, 2, 2, 3, 3, 0)  # capacity 0 (SC3): the cell refuses everybody and is full from the start


def gen_header(R, default_caps=False, rich=False, **kw):
    """`rich` (C06 / C07 only; C18 and C19 keep the plain headers): non-simple networks and capacity 0"""
    k = R.random()
    if rich:
        kw = dict(kw, caps=RICH_CAPS)
    if k < 0.6:
        return gen_grid_header(R, **kw)
    if k < 0.85:
        return gen_net_header(R, rich=rich, **({"caps": RICH_CAPS} if rich else {}))
    return gen_vor_header(R, default_cap=default_caps and R.random() < 0.5, **({"caps": RICH_CAPS, "rich": True} if rich else {}))


def cell_names(h):
    if h.kind == "grid":
        return [fmt_name(c) for c in itertools.product(*(range(d) for d in h.dims))]
    return [str(i) for i in range(h.n)]


# --------------------------------------------------------------------------------------
# C06 generator (histories of placing / moving / un-placing / removing + emptiness queries)

DIR_NAMES = ["n", "north", "up", "s", "south", "down", "e", "east", "right", "w", "west", "left", "ne", "northeast",
             "upright", "nw", "northwest", "upleft", "se", "southeast", "downright", "sw", "southwest", "downleft"]


def _rand_case(R, s):
    return "".join(ch.upper() if R.random() < 0.3 else ch for ch in s)


def gen_key(R, h, impl, a):
    """a connection key for `move_relative`: mostly one that exists at the agent's cell"""
    cell = impl.agents[a].cell if a < len(impl.agents) else None
    if cell is not None and cell.connections and R.random() < 0.75:
        return fmt_name(R.choice(list(cell.connections)))
    if h.kind == "grid":
        return ",".join(str(R.choice([-1, 0, 1])) for _ in h.dims)
    if h.kind == "net":
        return str(R.randrange(h.n))
    return f"{R.randrange(h.n)},{R.randrange(h.n)}"


def gen_draws(R, impl, want_hit):
    """draw script for select_random_empty_cell: some misses, then (usually) a hit"""
    sp = impl.space
    cells = list(sp.all_cells)
    n = len(cells)
    if getattr(sp, "_try_random", False) and impl.h.kind == "grid":
        occupied = [i for i, c in enumerate(cells) if not c.is_empty]
        empty = [i for i, c in enumerate(cells) if c.is_empty]
        # occasionally a long run of misses: a bounded probing loop (any cut-off) must not hand out an occupied cell
        draws = [R.choice(occupied) + n * R.randrange(3) for _ in range(R.choice([0, 1, 2, 3, 3, 5, 8, 13, 25, 40]))] if occupied else []
        if empty and want_hit:
            draws.append(R.choice(empty) + n * R.randrange(3))
        return draws
    return [R.randrange(0, 3 * n)] if want_hit else []


def gen_coll(R, h, names, impl=None, agents=True):
    """a `coll` line: a collection expression (all_cells / empties / a neighbourhood, optionally narrowed by `select`
    steps) and one use of the CellCollection API on it"""
    near = None
    if impl is not None and R.random() < 0.7:
        placed = [a.cell for a in impl.agents if getattr(a, "cell", None) is not None and id(a.cell) in impl.name]
        if placed:
            near = impl.cname(R.choice(placed))
    k = R.random()
    if k < 0.30:
        base = "all"
    elif k < 0.50:
        base = "empties"
    elif k < 0.90:
        c = near if near is not None else R.choice(names)
        if R.random() < 0.03:
            c = ",".join(str(d) for d in h.dims) if h.kind == "grid" else str(h.n + 2)  # no such cell
        base = f"nb:{c}:{R.choice([1, 1, 1, 2, 2, 3, 0])}:{R.randint(0, 1)}"
    else:
        base = f"nbp:{near if near is not None else R.choice(names)}"
    ordered = base in ("all", "empties")
    expr, bounded = base, False
    for _ in range(R.choice([0, 0, 0, 1, 1, 1, 2])):
        f = R.choice(["none", "none", "empty", "occupied", "occupied", "full", "notfull"])
        if ordered:
            m = R.choice(["inf", "inf", "inf", "0", "1", "2", "3", "-1", "1/2", "1/4", "3/4", "1/1", "0/1", "3/2", "5/2"])
        else:
            m = R.choice(["inf", "inf", "inf", "inf", "1", "2", "1/2"])
        bounded = bounded or (m != "inf")
        expr += f"+{f}:{m}"
        if bounded and not ordered:
            break  # what a bounded selection keeps out of a neighbourhood depends on the order inside it: nothing may follow
    if not ordered and bounded:
        # which cells a bounded selection keeps out of a neighbourhood depends on the order inside it: only sizes compared
        verbs = ["len", "len", "same"]
    else:
        verbs = ["cells", "cells", "agents", "agents", "len", "has", "get", "randcell", "randcell", "randagent", "randagent"]
        if "+" in expr:
            verbs.append("same")
        if not agents:
            verbs = [v for v in verbs if v not in ("agents", "randagent", "get")] + ["cells", "has"]
    verb = R.choice(verbs)
    if verb in ("has", "get"):
        c = near if near is not None and R.random() < 0.5 else R.choice(names)
        if R.random() < 0.05:
            c = ",".join(str(d + 1) for d in h.dims) if h.kind == "grid" else str(h.n + 1)
        return f"coll {expr} {verb} {c}"
    if verb in ("randcell", "randagent"):
        draws = [R.randrange(60) for _ in range(R.choice([0, 1, 1, 1, 1, 1, 2, 3]))]
        return f"coll {expr} {verb} " + " ".join(map(str, draws))
    return f"coll {expr} {verb}"


def gen_setcap(R, h, names, impl=None):
    """`cell.capacity = k` by hand after construction: mostly on an occupied cell, often under / at its occupancy (the occupants
    stay, the cell refuses further agents), sometimes lifting the limit (None) or closing the cell (0); rarely no such cell"""
    occd = [n for n in names if impl is not None and impl.space[h.key(n)]._agents]
    c = R.choice(occd) if occd and R.random() < 0.7 else R.choice(names)
    n = len(impl.space[h.key(c)]._agents) if impl is not None else 1
    cur = impl.space[h.key(c)].capacity if impl is not None else h.capof(c)
    for _ in range(4):  # mostly a value other than the one the cell has
        k = R.choice(["-", "0", "1", "1", "2", "3", str(max(0, n - 1)), str(n), str(n + 1)])
        if k != ("-" if cur is None else str(cur)):
            break
    if R.random() < 0.04:
        c = ",".join(str(d) for d in h.dims) if h.kind == "grid" else str(h.n + 1)  # no such cell
    return f"setcap {c} {k}"


def gen_c06(R, rejecting=False, n_ops=None, header=None, edits=False, default_caps=False, rich=False):
    hd = header or (gen_header(R, default_caps=default_caps, rich=rich) if not rejecting else
                    R.choice([gen_grid_header(R, max_size=3, caps=(1, 1, 1, 2), max_cells=12),
                              gen_grid_header(R, max_size=3, caps=(1, 1, 1, 2), max_cells=12),
                              gen_net_header(R, max_nodes=5, caps=(1, 1, 2)),
                              gen_vor_header(R, max_points=5 + default_caps, caps=(1, 1, 2),
                                             default_cap=default_caps and R.random() < 0.5)]))
    lines = [hd]
    impl = Impl(hd.split())
    h = impl.h
    names = cell_names(h)
    two_d = h.kind == "grid" and len(h.dims) == 2

    def emit(l):
        lines.append(l)
        impl.line(l.split())

    def new_agent():
        k = R.random()
        if k < (0.45 if two_d else 0.15):
            emit("new g2d")
        elif k < 0.8:
            emit("new cell")
        else:
            emit("new fixed")

    for _ in range(R.randint(2, 7) if not rejecting else R.randint(3, 8)):
        new_agent()
        if R.random() < 0.75:
            emit(f"set {len(impl.agents) - 1} {R.choice(names)}")

    def pick(pred):
        g = [i for i, x in enumerate(impl.agents) if pred(x)]
        return R.choice(g) if g else None

    for _ in range(n_ops or R.randint(10, 45)):
        na = len(impl.agents)
        a = R.randrange(na) if R.random() < 0.97 else na + R.randrange(2)
        kind = type(impl.agents[a]).__name__ if a < na else "?"
        k = R.random()
        if R.random() < 0.85:
            # movement calls mostly on agents that can move and are placed
            m = pick(lambda x: type(x).__name__ != "FixedAgent" and x.cell is not None)
            g = pick(lambda x: type(x).__name__ == "Grid2DMovingAgent" and x.cell is not None)
        else:
            m = g = None
        m = a if m is None else m
        g = a if g is None else g
        if R.random() < (0.05 if rejecting else 0.12):
            # the CellCollection API on all_cells / empties / neighbourhoods / selections, at the current occupancy
            emit(gen_coll(R, h, names, impl).rstrip())
            continue
        if rich and R.random() < 0.045:
            # `cell.agents` is a copy (scribbling on it changes nothing) and the idiom that relies on it: emptying a cell
            # by `for a in cell.agents: a.remove()`; mostly on occupied cells, preferably with several agents
            occd = [n for n in names if impl.space[h.key(n)]._agents]
            many = [n for n in occd if len(impl.space[h.key(n)]._agents) >= 2]
            c = R.choice(many) if many and R.random() < 0.6 else R.choice(occd) if occd and R.random() < 0.85 else R.choice(names)
            if R.random() < 0.03:
                c = ",".join(str(d) for d in h.dims) if h.kind == "grid" else str(h.n + 1)  # no such cell
            emit(f"{R.choice(['agentscopy', 'agentscopy', 'clearcell'])} {c}")
            continue
        if R.random() < 0.04:
            emit(gen_setcap(R, h, names, impl))
            continue
        if edits and R.random() < 0.05:
            # connections edited after construction, mostly at the cell of an agent that can move: later relative moves
            # and neighbourhood views follow the edited structure
            cell = impl.agents[m].cell if m < na else None
            nbrs = {impl.cname(c): [impl.cname(v) for v in c.connections.values()] for c in impl.space.all_cells}
            e = gen_edit(R, h, names, near=impl.cname(cell) if cell is not None else None, nbrs=nbrs)
            q = f"nbagents {e.split()[1]} {R.choice([1, 1, 2])} {R.randint(0, 1)}" if R.random() < 0.6 else None
            for l in (q, e, q):
                if l:
                    emit(l)
            continue
        if rejecting:
            # mostly calls that are likely to be rejected, interleaved with valid ones
            full = [n for n in names if impl.space[h.key(n)].is_full]
            if k < 0.30 and full:
                emit(f"{R.choice(['set', 'moveto'])} {a} {R.choice(full)}")
            elif k < 0.50:
                emit(f"moverel {m} {gen_key(R, h, impl, m)}")
            elif k < 0.68:
                emit(f"move {g} {_rand_case(R, R.choice(DIR_NAMES + ['back']))} {R.choice([1, 2, 3, 4, 7])}")
            elif k < 0.80:
                emit(f"set {a} {R.choice(names)}")
            elif k < 0.85:
                emit(f"set {a} -")
            elif k < 0.90:
                emit(f"remove {a}")
            elif k < 0.95:
                new_agent()
            else:
                emit("randempty " + " ".join(map(str, gen_draws(R, impl, True))))
            continue
        if k < 0.24:
            emit(f"set {a} {R.choice(names)}")
        elif k < 0.29:
            emit(f"set {a} -")
        elif k < 0.32:
            # re-enter the cell the agent is in
            c = impl.agents[a].cell if a < na else None
            emit(f"set {a} {impl.cname(c)}")
        elif k < 0.42:
            emit(f"moveto {a} {R.choice(names)}")
        elif k < 0.57:
            emit(f"moverel {m} {gen_key(R, h, impl, m)}")
        elif k < (0.68 if two_d else 0.60):
            emit(f"move {g} {_rand_case(R, R.choice(DIR_NAMES + ['back']))} {R.choice([0, 1, 1, 1, 2, 2, 3, 5, -1])}")
        elif k < 0.74:
            emit(f"remove {a}")
        elif k < 0.80:
            new_agent()
        elif k < 0.83:
            emit(f"tryrandom {R.randint(0, 1)}")
        elif k < 0.93:
            emit("randempty " + " ".join(map(str, gen_draws(R, impl, R.random() < 0.9))))
        elif k < 0.96:
            emit(f"nbagents {R.choice(names)} {R.choice([1, 1, 2, 3])} {R.randint(0, 1)}")
        elif k < 0.97:
            emit(f"randcell {R.randrange(0, 100)}")
        elif k < 0.985:
            # a coordinate that is no cell
            bad = ",".join(str(d + R.randrange(2)) for d in h.dims) if h.kind == "grid" else str(h.n + R.randrange(3))
            emit(f"{R.choice(['set', 'moveto'])} {a} {bad}")
        else:
            emit(f"randcell")
    return core.Scenario(lines)


# --------------------------------------------------------------------------------------
# C06 oracle: the property's clauses on what the implementation showed

PLACING = ("set", "moveto", "moverel", "move")


def oracle_c06(sc, obs, reject_clause=True):
    bad = []
    h = Header(sc.lines[0].split())
    if obs[0] != "ok":
        return bad
    names = cell_names(h)
    capof = {n: h.capof(n) for n in names}
    prev = None
    conn = spec_connections(h) if any(l.split()[0] in EDITS + ("nbagents", "coll") for l in sc.lines[1:]) else None
    for line, o in zip(sc.lines[1:], obs[1:]):
        w = line.split()
        if w[0] in QUERIES:
            if w[0] == "coll":
                pocc = {t.partition(":")[0]: t.partition(":")[2].split(".") for t in prev["occ"]} if prev else {}
                bad += oracle_coll(line, o, h, conn, names, pocc, capof)
            if w[0] in EDITS:
                # connections edited after construction: the neighbourhoods below are those of the edited structure
                want = expect_edit(conn, h, w)
                if want is not None and o != want:
                    bad.append(f"edit: `{line}` -> {o}, expected {want}")
                if want == "ok":
                    apply_edit(conn, h, w)
            if w[0] == "nbagents" and prev is not None and o.startswith("ok") and int(w[2]) >= 1:
                # a (memoised) neighbourhood shows the agents that are in its cells *now*
                key = h.key(w[1])
                if key in conn:
                    cells = within(conn, key, int(w[2]))
                    if w[3] != "1":
                        cells.discard(key)
                    pocc = {t.partition(":")[0]: t.partition(":")[2].split(".") for t in prev["occ"]}
                    want = sorted(int(x) for c in cells for x in pocc.get(fmt_name(c), []))
                    if [int(x) for x in o.split()[1:]] != want:
                        bad.append(f"nbhd-agents: `{line}` gave {o.split()[1:]}, the cells within reach hold {want}")
            continue
        res, d = parse_dump(o)
        if not d:
            bad.append(f"no-dump: {line} -> {o[:60]}")
            continue
        occ = {n: [] for n in names}
        for t in d["occ"]:
            c, _, l = t.partition(":")
            occ[c] = l.split(".")
        ag = dict(t.split(":") for t in d["ag"])
        reg = set(d["reg"])
        # mirror: every agent still in the model is listed exactly once, in exactly the cell it reports
        for a, c in ag.items():
            if a not in reg:
                continue
            where = [n for n in names for x in occ[n] if x == a]
            if c == "-":
                if where:
                    bad.append(f"mirror: after `{line}` agent {a} reports no cell but is listed in {where}")
            elif where != [c]:
                bad.append(f"mirror: after `{line}` agent {a} reports cell {c} but is listed in {where}")
        # a capacity written by hand (`cell.capacity = k`) is the cell's capacity from then on; the write changes nothing else
        if w[0] == "setcap":
            if res == "ok" and w[1] in capof:
                capof[w[1]] = parse_opt_int(w[2])
            elif res == "ok" or w[1] in capof:
                bad.append(f"capacity-write: `{line}` -> {res}")
            if prev is not None:
                diff = [k for k in d if k not in ("cap", "full") and d[k] != prev.get(k)]
                if diff:
                    bad.append(f"capacity-write: `{line}` changed {diff}")
        shown = dict(t.split(":") for t in d.get("cap", []))
        if shown != {n: str(k) for n, k in capof.items() if k is not None}:
            bad.append(f"capacity-write: after `{line}` the cells show capacities {shown}, built / written were "
                       f"{ {n: k for n, k in capof.items() if k is not None} }")
        # capacity (per cell: a VoronoiGrid with the default capacity_function gives every cell its own; the program may lower a
        # capacity under the occupancy — the occupants stay): a cell never ACCEPTS an agent while it holds capacity-many or more,
        # i.e. after every op it holds at most capacity-many or at most what it held before
        was = {n: 0 for n in names}
        if prev is not None:
            for t in prev["occ"]:
                was[t.partition(":")[0]] = len(t.partition(":")[2].split("."))
        for n in names:
            if capof[n] is not None and len(occ[n]) > capof[n] and len(occ[n]) > was[n]:
                bad.append(f"capacity: after `{line}` cell {n} holds {len(occ[n])} > {capof[n]} (before: {was[n]})")
        # emptiness views
        truth = [n for n in names if not occ[n]]
        if d["empty"] != truth:
            bad.append(f"view-is_empty: after `{line}` is_empty cells {d['empty']} != {truth}")
        # is_full: exactly the cells holding as many agents as their capacity (capacity 0 — e.g. a tiny Voronoi cell under the
        # default capacity_function — is a capacity: such a cell is full from the start and never holds anybody, SC3)
        tf = [n for n in names if capof[n] is not None and len(occ[n]) == capof[n]]
        if d["full"] != tf:
            bad.append(f"view-is_full: after `{line}` is_full cells {d['full']} != {tf}")
        if h.kind == "grid":
            if d["layer"] != truth:
                bad.append(f"view-layer: after `{line}` grid.empty.data true at {d['layer']} != empty cells {truth}")
            if d["pempty"] != truth:
                bad.append(f"view-cell.empty: after `{line}` cell.empty true at {d['pempty']} != empty cells {truth}")
        if h.kind != "grid" and "attr" in d:
            # `cell.empty` where it exists (the cell has been entered at least once) says whether the cell is empty now; a cell
            # without the attribute has never been entered
            for t in d["attr"]:
                n, _, v = t.partition(":")
                if (v == "1") != (not occ[n]):
                    bad.append(f"view-cell.empty: after `{line}` cell {n} has empty={v} but holds {occ[n]}")
            unset = set(names) - {t.partition(":")[0] for t in d["attr"]}
            if any(occ[n] for n in unset):
                bad.append(f"view-cell.empty: after `{line}` occupied cells {[n for n in unset if occ[n]]} have no `empty` attribute")
        if sorted(d["empties"]) != sorted(truth):
            bad.append(f"view-empties: after `{line}` space.empties {d['empties']} != {truth}")
        if sorted(d["agents"]) != sorted(x for n in names for x in occ[n]):
            bad.append(f"view-agents: after `{line}` space.agents {d['agents']} != cell contents")
        # select_random_empty_cell only returns empty cells
        if w[0] == "randempty" and res.startswith("ok"):
            if res.split()[1] not in truth:
                bad.append(f"randempty: `{line}` returned occupied cell {res.split()[1]}")
        # removing an agent takes it out of its cell
        if w[0] == "remove" and res == "ok":
            if any(w[1] in occ[n] for n in names):
                bad.append(f"remove: after `{line}` agent {w[1]} is still listed in a cell")
            if w[1] in reg:
                bad.append(f"remove: after `{line}` agent {w[1]} is still registered")
        # `cell.agents` is a copy: emptying the list it handed out changes nothing
        if w[0] == "agentscopy" and prev is not None and d != prev:
            bad.append(f"agents-copy: `{line}` (clearing the list returned by cell.agents) changed {[k for k in d if d[k] != prev.get(k)]}")
        # emptying a cell by iterating over cell.agents removes every agent that was in it
        if w[0] == "clearcell" and res == "ok" and prev is not None:
            was = next((t.partition(":")[2].split(".") for t in prev["occ"] if t.partition(":")[0] == w[1]), [])
            left = [a for a in was if a in reg or any(a in occ[n] for n in names)]
            if left or (w[1] in occ and occ[w[1]]):
                bad.append(f"clearcell: after `{line}` agents {left} of the cell are still in a cell / the model; the cell holds {occ.get(w[1])}")
        # (C18) a rejected placing call changes nothing
        if reject_clause and w[0] in PLACING and res.startswith("err") and prev is not None and d != prev:
            diff = [k for k in d if d[k] != prev.get(k)]
            bad.append(f"reject-unchanged: `{line}` raised ({res}) but changed {diff}")
        prev = d
    return bad


def net_tags(w0):
    """what kind of graph a `scenario net` header describes"""
    edges = [tuple(e.split("-")) for e in w0[5:]]
    if w0[2] in ("1", "m1"):
        yield "directed"
    if w0[2].startswith("m"):
        yield "net:multigraph"
    if any(a == b for a, b in edges):
        yield "net:self-loop"
    if len(set(edges)) < len(edges):
        yield "net:repeated-edge"
    if any((b, a) in edges for a, b in edges if a != b):
        yield "net:antiparallel-edges"


def tags_c06(sc, obs):
    w0 = sc.lines[0].split()
    yield "space:" + (w0[2] if w0[1] == "grid" else w0[1])
    if w0[1] == "net":
        yield from net_tags(w0)
    if w0[1] == "grid":
        yield f"axes:{len(w0[5].split(','))}"
        yield "torus:" + w0[3]
        yield "cap:" + w0[4]
    else:
        yield "cap:" + (w0[3] if w0[1] == "net" else w0[2] if w0[2] != "d" else "default-capacity-function")
        if w0[2] == "d":
            h = Header(w0)
            if h.passed_cap is not None:
                yield "voronoi-default-capacity:overrides-the-capacity-argument"
            for c in sorted({min(h.capof(n), 9) for n in cell_names(h)}):
                yield f"voronoi-default-capacity:{c if c < 9 else '9+'}"
    prev = None
    for l, o in zip(sc.lines[1:], obs[1:]):
        w = l.split()
        res = o.split(" | ")[0]
        yield "op:" + w[0]
        if w[0] == "coll":
            yield "coll:" + w[2]
            yield "coll-base:" + w[1].split("+")[0].split(":")[0] + ("+select" if "+" in w[1] else "")
            if w[2] in ("randcell", "randagent") and res.startswith("ok") and len(w) > 4:
                yield "coll:spare-draws-left-alone"
        if w[0] == "setcap" and res == "ok" and prev is not None:
            n = next((len(t.partition(":")[2].split(".")) for t in prev["occ"] if t.partition(":")[0] == w[1]), 0)
            yield "setcap:" + ("none" if w[2] == "-" else "under-the-occupancy" if int(w[2]) < n else "at-the-occupancy" if int(w[2]) == n else "above")
        if w[0] in ("agentscopy", "clearcell") and prev is not None and res.startswith("ok"):
            n = next((len(t.partition(":")[2].split(".")) for t in prev["occ"] if t.partition(":")[0] == w[1]), 0)
            yield f"{w[0]}:{'empty-cell' if n == 0 else '1-agent' if n == 1 else 'several-agents'}"
        if res.startswith("err"):
            yield f"reject:{w[0]}:{res.split()[1]}"
        if w[0] == "move" and w0[1] == "grid" and w0[2] == "hex":
            diag = w[2].lower() not in ("n", "north", "up", "s", "south", "down", "e", "east", "right", "w", "west", "left", "back")
            yield f"hex-move:{'diagonal' if diag else 'cardinal'}:{'1' if w[3] == '1' else 'k' if int(w[3]) > 1 else '0'}:{res.split()[0]}"
        if w[0] == "randempty" and res.startswith("ok"):
            yield "randempty:" + ("retry" if len(w) > 2 else "first-draw")
        if w[0] in PLACING and res == "ok" and prev is not None:
            _, d = parse_dump(o)
            a = dict(t.split(":") for t in d["ag"]).get(w[1])
            b = dict(t.split(":") for t in prev["ag"]).get(w[1])
            if a == b and a not in (None, "-"):
                yield "branch:re-entered-own-cell"
                if w[0] in ("moverel", "move"):
                    # a connection that leads back to the cell itself (self loop of a Network, torus axis of size 1, an edit)
                    yield "branch:re-entered-own-cell-along-a-connection"
        if "|" in o:
            prev = parse_dump(o)[1]


# --------------------------------------------------------------------------------------
# C07: query scenarios, exhaustive small scope, oracle


def grid_header(kind, torus, dims, cap=None):
    return f"scenario grid {kind} {int(torus)} {'-' if cap is None else cap} {','.join(map(str, dims))}"


def exhaustive_queries(hd, radii=(1, 2, 3), reverse=False, with_mask=False):
    """every cell x every radius x both flags (+ connections), in one of two query orders"""
    h = Header(hd.split())
    names = cell_names(h)
    lines = [hd]
    if not reverse:
        for n in names:
            lines.append(f"conns {n}")
        for n in names:
            for r in radii:
                for ic in (0, 1):
                    lines.append(f"nbhd {n} {r} {ic}")
            lines.append(f"nbprop {n}")
            if with_mask:
                lines.append(f"mask {n} {radii[-1]} 1")
    else:
        for n in reversed(names):
            lines.append(f"nbprop {n}")
            for r in reversed(radii):
                for ic in (1, 0):
                    lines.append(f"nbhd {n} {r} {ic} k")
            if with_mask:
                lines.append(f"mask {n} 1 0")
        for n in names:
            lines.append(f"conns {n}")
    return core.Scenario(lines, {"exhaustive": True})


def exhaustive_c07(tier):
    """all Moore/VN grids with <= 3 axes of size <= 4 (thorough: + 4 axes of size <= 3, radius <= 5), hex grids <= 6x6
    (quick: <= 4x4 plus 6x6), torus on/off, two query orders"""
    out = []
    quick = tier == "quick"
    radii = (1, 2, 3) if quick else (1, 2, 3, 4, 5)
    top = 3 if quick else 4
    dimsets = []
    for n in (1, 2, 3):
        dimsets += list(itertools.product(range(1, (top if n == 3 else 4) + 1), repeat=n))
    if not quick:
        dimsets += list(itertools.product(range(1, 4), repeat=4))
    k = 0
    for dims in dimsets:
        for kind in ("moore", "vn"):
            for torus in (0, 1):
                k += 1
                out.append(exhaustive_queries(grid_header(kind, torus, dims), radii, reverse=bool(k % 2), with_mask=True))
    hexd = list(itertools.product(range(1, 5), repeat=2)) + [(6, 6), (5, 6), (1, 6), (6, 2)] if quick else \
        list(itertools.product(range(1, 7), repeat=2))
    for dims in hexd:
        for torus in (0, 1):
            k += 1
            out.append(exhaustive_queries(grid_header("hex", torus, dims), radii, reverse=bool(k % 2), with_mask=True))
    return out


def edit_sweeps():
    """connections edited after construction, small scope: on five small spaces, for every ordered pair of cells: every
    neighbourhood query, `connect a b` (default key; Voronoi: key a,b), every query again, `disconnect a b`, every query
    again — the memoised answers of the first round must not survive the edits"""
    out = []
    heads = ["scenario net 0 - 4 0-1 1-2 2-3", "scenario net 1 - 3 0-1 1-2", grid_header("vn", 0, (2, 3)),
             grid_header("moore", 1, (1, 3)), grid_header("hex", 0, (2, 2)),
             f"scenario vor - {len(FALLBACK_POINTS)} " + " ".join(f"p:{x},{y}" for x, y in FALLBACK_POINTS) + " " + " ".join(
                 f"t:{a},{b},{c}" for a, b, c in voronoi_ok(FALLBACK_POINTS))]
    for hd in heads:
        h = Header(hd.split())
        names = cell_names(h)
        qs = []
        for n in names:
            qs += [f"nbhd {n} 1 0", f"nbhd {n} 2 1 k", f"nbprop {n}", f"nbhd {n} 2 0 m"]
            if h.kind == "grid":
                qs.append(f"mask {n} 1 1")
        for a in names:
            for b in names:
                key = f"{a},{b}" if h.kind == "vor" else "-"
                out.append(core.Scenario([hd] + qs + [f"connect {a} {b} {key}"] + qs + [f"conns {a}", f"disconnect {a} {b}"]
                                         + qs + [f"conns {a}"], {"exhaustive": True}))
    return out


def gen_c07(R, tier):
    k = R.random()
    if k < 0.40:
        kind = R.choice(["moore", "vn"])
        n = R.choice([1, 2, 2, 3, 3, 4])
        mx = {1: 9, 2: 6, 3: 4, 4: 3}[n]
        dims = tuple(R.choice([1, 1, 2, 2] + list(range(1, mx + 1))) for _ in range(n))
        hd = grid_header(kind, R.randint(0, 1), dims, R.choice([None, 2]))
    elif k < 0.52:
        # hex; odd offset-axis sizes on a torus are outside the property's quantifier but the model follows the code
        hd = grid_header("hex", R.randint(0, 1), (R.randint(1, 6), R.choice([1, 2, 2, 3, 4, 4, 5, 6, 6])), None)
    elif k < 0.80:
        hd = gen_net_header(R, max_nodes=12, caps=(None,), directed_p=0.2, rich=True)
    else:
        hd = gen_vor_header(R, max_points=9 if tier == "thorough" else 8, caps=(None,))
    if R.random() < 0.02:
        # what `_validate_parameters` refuses: a non-positive size, a HexGrid that is not 2-D (the rest of the scenario then
        # talks to no space)
        bad = R.choice([grid_header(R.choice(["moore", "vn", "hex"]), R.randint(0, 1), R.choice([(0, 3), (2, 0), (2, -1), (0,)])),
                        grid_header("hex", R.randint(0, 1), R.choice([(3,), (2, 2, 2)]))])
        return core.Scenario([bad, "conns 0,0", "nbhd 0,0 1 0"])
    h = Header(hd.split())
    names = cell_names(h)
    lines = [hd]
    rmax = 5 if tier == "thorough" else 4
    qs = []
    for _ in range(R.randint(8, 40)):
        n = R.choice(names)
        t = R.random()
        if t < 0.15:
            qs.append(f"conns {n}")
        elif t < 0.75:
            r = R.choice([1, 1, 2, 2, 3, rmax, 0])
            qs.append(f"nbhd {n} {r} {R.randint(0, 1)} {R.choice('pkm')}")
        elif t < 0.85:
            qs.append(f"nbprop {n}")
        elif t < 0.93:
            qs.append(f"mask {n} {R.choice([1, 2, 3])} {R.randint(0, 1)}")
        elif t < 0.97:
            # the neighbourhood as a CellCollection: cells / len / in / select_random_cell / bounded selections
            l = gen_coll(R, h, names, agents=False).rstrip()
            qs.append(l if l.split()[1].startswith("nb") else f"coll nb:{n}:{R.choice([1, 2])}:{R.randint(0, 1)} cells")
        else:
            qs.append(f"conns {h.n + 1 if h.kind != 'grid' else ','.join(str(d) for d in h.dims)}")
    # repetition and a second order of the same queries: answers must not depend on earlier queries
    qs += [R.choice(qs) for _ in range(len(qs) // 2)]
    R.shuffle(qs)
    if R.random() < 0.35:
        # connections edited between the queries (`Cell.connect` / `disconnect`): a query repeated after an edit near its
        # cell must see the edited structure, not a memoised answer
        spec = spec_connections(h)
        nbrs = {fmt_name(c): [fmt_name(v) for v in m.values()] for c, m in spec.items()}
        for _ in range(R.randint(1, 4)):
            i = R.randrange(len(qs) + 1)
            e = gen_edit(R, h, names, near=qs[R.randrange(max(1, i))].split()[1] if qs and R.random() < 0.7 else None, nbrs=nbrs)
            again = [q for q in qs[:i] if q.split()[0] in ("nbhd", "nbprop", "mask")]
            qs[i:i] = [e] + ([R.choice(again)] if again and R.random() < 0.8 else [])
    return core.Scenario(lines + qs)


def gen_edit(R, h, names, near=None, nbrs=None):
    """a `connect` / `disconnect` line; `near`: a cell name to edit at (or next to), `nbrs`: {name: names of connected cells}"""
    a = near if near in names and R.random() < 0.8 else R.choice(names)
    nb = (nbrs or {}).get(a) or []
    if nb and near is not None and R.random() < 0.3:
        a = R.choice(nb)  # one hop away from the queried cell: changes its radius >= 2 answers only
        nb = (nbrs or {}).get(a) or []
    b = R.choice(nb) if nb and R.random() < 0.6 else R.choice(names)
    if R.random() < 0.04:
        a = ",".join(str(d) for d in h.dims) if h.kind == "grid" else str(h.n + 1)  # no such cell
    if R.random() < 0.4:
        return f"disconnect {a} {b}"
    k = R.random()
    if k < 0.35:
        key = "-"
    elif h.kind == "grid":
        key = ",".join(str(R.choice([-1, 0, 1, 1, 2])) for _ in h.dims)
    elif h.kind == "net":
        key = str(R.randrange(h.n + 2))
    else:
        key = f"{a.split(',')[0]},{R.randrange(h.n)}"
    return f"connect {a} {b} {key}"


def oracle_c07(sc, obs):
    bad = []
    h = Header(sc.lines[0].split())
    if obs[0] != "ok":
        # the constructor may only refuse what is outside the property's quantifier
        if not (h.kind == "grid" and (any(d < 1 for d in h.dims) or (h.grid == "hex" and len(h.dims) != 2))):
            bad.append(f"construct: {sc.lines[0]} -> {obs[0]}")
        return bad
    conn = spec_connections(h)
    symmetric = not (h.kind == "net" and h.directed) and not (h.kind == "grid" and h.grid == "hex" and h.torus and h.dims[1] % 2)
    if symmetric:
        for c, m in conn.items():
            for t in m.values():
                assert c in conn[t].values(), "spec geometry must be symmetric"
    for line, o in zip(sc.lines[1:], obs[1:]):
        w = line.split()
        if w[0] in EDITS:
            # `Cell.connect` / `disconnect` after construction: from here on "connection hops" are those of the edited
            # structure, whatever was asked (and memoised) before
            want = expect_edit(conn, h, w)
            if want is not None and o != want:
                bad.append(f"edit: `{line}` -> {o}, expected {want}")
            if want == "ok":
                apply_edit(conn, h, w)
            continue
        if w[0] == "coll":
            bad += oracle_coll(line, o, h, conn, cell_names(h), {}, h.cap)
            continue
        if w[0] not in ("conns", "nbhd", "nbprop", "mask"):
            continue
        try:
            c = h.key(w[1])
        except ValueError:
            continue
        if c not in conn:
            if o != "err Key":
                bad.append(f"no-such-cell: `{line}` -> {o}")
            continue
        if w[0] == "conns":
            items = sorted((k if isinstance(k, tuple) else (k,), v) for k, v in conn[c].items())
            want = "ok " + " ".join(f"{fmt_name(k)}>{fmt_name(v)}" for k, v in items)
            if o.strip() != want.strip():
                bad.append(f"connections: `{line}` gave `{o}`, the geometry says `{want}`")
            continue
        if w[0] == "mask" and h.kind != "grid":
            continue
        r, ic = (1, False) if w[0] == "nbprop" else (int(w[2]), w[3] == "1")
        if r < 1:
            if o != "err Value":
                bad.append(f"radius: `{line}` -> {o}")
            continue
        cells = within(conn, c, r)
        if not ic:
            cells.discard(c)
        want = "ok " + " ".join(fmt_name(k) for k in sorted(k if isinstance(k, tuple) else (k,) for k in cells))
        if o.strip() != want.strip():
            what = "mask" if w[0] == "mask" else "neighbourhood"
            bad.append(f"{what}: `{line}` gave `{o}`, within {r} hops (centre {'in' if ic else 'ex'}cluded) is `{want}`")
    return bad


def tags_c07(sc, obs):
    w0 = sc.lines[0].split()
    if obs[0] != "ok":
        yield "constructor-refuses:" + ("hex-not-2d" if w0[2] == "hex" and len(w0[5].split(",")) != 2 else "non-positive-size")
    yield "space:" + (w0[2] if w0[1] == "grid" else w0[1])
    if w0[1] == "grid":
        dims = w0[5].split(",")
        yield f"axes:{len(dims)}"
        yield "torus:" + w0[3]
        if "1" in dims:
            yield "axis-of-size-1"
        if "2" in dims:
            yield "axis-of-size-2"
    if w0[1] == "net":
        yield from net_tags(w0)
    seen = set()
    for l, o in zip(sc.lines[1:], obs[1:]):
        w = l.split()
        yield "op:" + w[0]
        if w[0] == "nbhd":
            yield f"radius:{w[2]}"
        if w[0] in EDITS and o == "ok":
            yield "branch:connections-edited" + ("-after-queries" if seen else "")
        if o.startswith("err"):
            yield f"reject:{w[0]}:{o.split()[1]}"
        if o == "ok" and w[0] not in EDITS:
            yield f"empty-answer:{w[0]}"
        if l in seen:
            yield "repeated-query"
        seen.add(l)
