"""Implementation runner, generator and oracle for the property-layer checks (C11, C18-layers).

Protocol: see lean/Driver/Layers.lean.  Values cross the protocol as ints in the encoding of the array's
*current* dtype (`arr.dtype.kind`): bool 0/1, int as is, float in units of 1/4 (dyadic, exact in binary64).
A written value is either such a plain integer ("a value of the layer's own dtype") or a typed Python
scalar `b:1` / `i:-3` / `f:11` (= 2.75) that numpy casts on the way in; a typed operand of `modify` decides
the dtype of the re-pointed layer.  The operand of an untyped `mul` is a plain integer for every dtype.

Protocol preconditions (answered by the harness without calling mesa, mirrored by the model):
unknown layer id / handle / saved mask, coordinates of the wrong length, `place` of a placed agent,
`move`/`remove` of an unplaced one, entering a full cell (the half-done moves of the cell setter and
of legacy `move_agent` are properties C06/C08/C18 of other model groups), cell-attribute access to
names of the Cell class itself, `modcell` on the new implementation.
"""
from __future__ import annotations

import itertools
import os

from . import core

UNIT = 4  # float layers: value = n / UNIT
DTYPES = ("bool", "int", "float")
GOOD_NAMES = ("a", "b", "c")
CLASH_NAMES = ("agents", "coordinate", "capacity", "is_empty", "_agents", "neighborhood")

CMP = {
    "gt": lambda x, t: x > t, "lt": lambda x, t: x < t, "ge": lambda x, t: x >= t,
    "le": lambda x, t: x <= t, "eq": lambda x, t: x == t, "ne": lambda x, t: x != t,
}
# spec of the element-wise operations on canonical ints (v: canonical operand)
BIN = {
    "add": lambda x, v: x + v, "sub": lambda x, v: x - v, "mul": lambda x, v: x * v,
    "max": lambda x, v: max(x, v), "min": lambda x, v: min(x, v),
    "and": lambda x, v: int(bool(x) and bool(v)), "or": lambda x, v: int(bool(x) or bool(v)),
    "xor": lambda x, v: int(bool(x) != bool(v)),
}
UN = {"neg": lambda x: -x, "not": lambda x: int(not x)}
RANK = {"bool": 0, "int": 1, "float": 2}
KIND = {"b": "bool", "i": "int", "f": "float"}


def is_typed(tok):
    return ":" in tok and tok.split(":")[0] in KIND


def typed_parts(tok):
    """`f:11` -> ("float", 11)"""
    k, v = tok.split(":")
    return KIND[k], int(v)


def quarters(dt, v):
    """the number an encoded entry stands for, in quarters"""
    return v if dt == "float" else 4 * v


def from_quarters(dt, q):
    if dt == "float":
        return q
    if dt == "bool":
        return int(q != 0)
    assert q % 4 == 0, (dt, q)
    return q // 4


def spec_cast(dt, tok):
    """what `arr[c] = x` stores in an array of dtype dt (the oracle's own statement of numpy's assignment cast):
    truth value into bool, truncation toward zero into int, exact into float"""
    ty, raw = typed_parts(tok)
    q = quarters(ty, raw)
    if dt == "float":
        return q
    if dt == "bool":
        return int(q != 0)
    return (abs(q) // 4) * (1 if q >= 0 else -1)


def spec_same_kind(tok, dt):
    return RANK[typed_parts(tok)[0]] <= RANK[dt]


def spec_result_dtype(op, dt, tok):
    """dtype of the layer after `modify_cells(op, x)`; None = numpy refuses the operation"""
    ty = typed_parts(tok)[0]
    if op in ("and", "or", "xor"):
        return dt
    if op == "sub" and dt == "bool" and ty == "bool":
        return None
    return dt if RANK[dt] >= RANK[ty] else ty


def spec_typed_oper(op, dt, tok):
    """entry of dtype dt -> entry in the encoding of the *new* dtype of the layer"""
    ty, raw = typed_parts(tok)
    w = quarters(ty, raw)
    nd = spec_result_dtype(op, dt, tok)

    def f(x):
        q = quarters(dt, x)
        if op in ("and", "or", "xor"):
            r = 4 * BIN[op](q, w)
        elif op == "mul":
            assert (q * w) % 4 == 0
            r = q * w // 4
        else:
            r = BIN[op](q, w)
        if op not in ("and", "or", "xor") and dt == "bool" and ty == "bool":
            r = 4 * int(r != 0)  # + * max min on two bools are or / and
        return from_quarters(nd, r)

    return f


def _mesa():
    core.import_mesa()
    import numpy as np
    from mesa import Agent, Model
    from mesa.discrete_space import Cell, CellAgent, HexGrid, OrthogonalMooreGrid, OrthogonalVonNeumannGrid
    from mesa.discrete_space.property_layer import PropertyLayer as NewLayer
    from mesa.space import MultiGrid, SingleGrid
    from mesa.space import PropertyLayer as OldLayer

    return dict(np=np, Cell=Cell, Agent=Agent, Model=Model, CellAgent=CellAgent, HexGrid=HexGrid,
                OrthogonalMooreGrid=OrthogonalMooreGrid, OrthogonalVonNeumannGrid=OrthogonalVonNeumannGrid,
                NewLayer=NewLayer, OldLayer=OldLayer, MultiGrid=MultiGrid, SingleGrid=SingleGrid)


# --------------------------------------------------------------------------------------
# generated model part: the attribute names of the grid's cell class (`add_property_layer`'s clash rule
# is `hasattr(self.cell_klass, layer.name)`), re-extracted from the checked source on every run


def _cell_ast_names(repo):
    """names the *source* gives every cell of a Grid: `Cell.__slots__`, the methods, properties and other
    class-level names of `class Cell` (cell.py) and the dict of the dynamic `GridCell` class (grid.py)"""
    import ast

    ds = os.path.join(repo, "mesa", "discrete_space")
    tree = ast.parse(open(os.path.join(ds, "cell.py")).read())
    cls = next(n for n in tree.body if isinstance(n, ast.ClassDef) and n.name == "Cell")
    if any(not (isinstance(b, ast.Name) and b.id == "object") for b in cls.bases):
        raise LookupError("Cell has base classes")
    slots, methods, props, attrs = None, [], [], []
    for n in cls.body:
        if isinstance(n, ast.FunctionDef | ast.AsyncFunctionDef):
            decos = {d.id if isinstance(d, ast.Name) else getattr(d, "attr", "?") for d in n.decorator_list}
            (props if decos & {"property", "cached_property"} else methods).append(n.name)
        elif isinstance(n, ast.Assign | ast.AnnAssign):
            targets = n.targets if isinstance(n, ast.Assign) else [n.target]
            for t in targets:
                if not isinstance(t, ast.Name):
                    raise LookupError("class-level assignment to a non-name")
                if t.id == "__slots__":
                    if not (isinstance(n.value, ast.List | ast.Tuple)
                            and all(isinstance(e, ast.Constant) and isinstance(e.value, str) for e in n.value.elts)):
                        raise LookupError("__slots__ is not a literal list of strings")
                    slots = [e.value for e in n.value.elts]
                elif isinstance(n, ast.Assign) or n.value is not None:
                    attrs.append(t.id)
    if slots is None:
        raise LookupError("Cell.__slots__ not found")
    gtree = ast.parse(open(os.path.join(ds, "grid.py")).read())
    gcls = next(n for n in gtree.body if isinstance(n, ast.ClassDef) and n.name == "Grid")
    init = next(n for n in gcls.body if isinstance(n, ast.FunctionDef) and n.name == "__init__")
    dyn = None
    for n in ast.walk(init):
        if (isinstance(n, ast.Call) and isinstance(n.func, ast.Name) and n.func.id == "type" and len(n.args) == 3
                and isinstance(n.args[0], ast.Constant) and n.args[0].value == "GridCell" and isinstance(n.args[2], ast.Dict)):
            if not all(isinstance(k, ast.Constant) and isinstance(k.value, str) for k in n.args[2].keys):
                raise LookupError("GridCell class dict has non-literal keys")
            dyn = [k.value for k in n.args[2].keys]
    if dyn is None:
        raise LookupError("type('GridCell', ...) call not found in Grid.__init__")
    return {"slots": sorted(slots), "methods": sorted(methods), "properties": sorted(props),
            "classAttrs": sorted(attrs), "gridCellDict": sorted(dyn)}


def _python_implied_names():
    """what Python itself gives a class of that shape (slotted base with `__dict__`, dynamic subclass): the
    attributes of `object` plus `__dict__`, `__doc__`, `__module__`, `__slots__`, `__weakref__` — no mesa involved"""
    base = type("Base", (), {"__slots__": ["__dict__"], "__doc__": "x"})
    return sorted(set(dir(type("Sub", (base,), {}))))


_PROBE = None


def cell_klass_probe():
    """`dir(grid.cell_klass)` of a fresh grid of the running code, without the layer descriptors"""
    global _PROBE
    if _PROBE is None:
        M = _mesa()
        g = M["OrthogonalMooreGrid"]((2, 2), random=M["Model"](seed=0).random)
        _PROBE = sorted(set(dir(g.cell_klass)) - set(g._mesa_property_layers))
    return _PROBE


def _lean_strs(l):
    out, line = [], "  ["
    for i, x in enumerate(l):
        item = '"' + x + '"' + ("," if i < len(l) - 1 else "]")
        if len(line) + len(item) > 100:
            out.append(line.rstrip())
            line = "   "
        line += item + " "
    if not l:
        line += "]"
    out.append(line.rstrip())
    return "\n".join(out)


# generated tie to numpy: the model's cast / promotion rules are *proved equal* to tables probed from the numpy of the
# running interpreter (Props/C11.lean: C11_cast_rules_match_numpy, C11_ufunc_types_match_numpy,
# C11_cast_values_match_numpy).  dtypes are coded by their rank: 0 = bool_, 1 = int64, 2 = float64.

_NP_ARRAY_SAMPLES = {"bool": [0, 1], "int": [-3, 2], "float": [-6, 10]}       # entries, encoded
_NP_SCALAR_SAMPLES = {"bool": [0, 1], "int": [-3, 2], "float": [-11, 2]}      # Python scalars, encoded
_NP_ASSIGN_SAMPLES = {"bool": [0, 1], "int": [-7, -3, -1, 0, 1, 2, 5],
                      "float": [-11, -8, -5, -4, -3, -2, -1, 0, 1, 2, 3, 4, 5, 8, 10, 11]}


def _numpy_tables():
    import warnings

    import numpy as np

    pyty = {"bool": bool, "int": int, "float": float}

    def scalar(t, raw):
        return bool(raw) if t == "bool" else int(raw) if t == "int" else raw / UNIT

    def code(dtype):
        return {"b": 0, "i": 1, "f": 2}[np.dtype(dtype).kind]

    def enc(x):
        """(rank of the value's dtype, entry in that dtype's encoding); None if not representable"""
        k = code(np.asarray(x).dtype)
        if k == 0:
            return k, int(bool(x))
        if k == 1:
            return k, int(x)
        y = float(x) * UNIT
        return (k, int(y)) if y == int(y) else None

    ufuncs = {"add": np.add, "sub": np.subtract, "mul": np.multiply, "max": np.maximum, "min": np.minimum,
              "and": np.logical_and, "or": np.logical_or, "xor": np.logical_xor}

    def fn_of(op, w):
        return {"add": lambda x: x + w, "sub": lambda x: x - w, "mul": lambda x: x * w,
                "and": lambda x: bool(x) and bool(w), "or": lambda x: bool(x) or bool(w),
                "xor": lambda x: bool(x) != bool(w)}[op]

    copy_scalar, copy_array, where_t, uf_t, fn_t, assign, full, uf_v = [], [], [], [], [], [], [], []
    with warnings.catch_warnings():
        warnings.simplefilter("ignore")
        for a in DTYPES:
            for b in DTYPES:
                for table, src in ((copy_scalar, scalar(a, 1)), (copy_array, np.ones(2, dtype=pyty[a]))):
                    try:
                        np.copyto(np.zeros(2, dtype=pyty[b]), src)
                        ok = True
                    except TypeError:
                        ok = False
                    table.append(f"(({RANK[a]}, {RANK[b]}), {'true' if ok else 'false'})")
                r = np.where(np.array([True, False]), np.zeros(2, dtype=pyty[a]), np.zeros(2, dtype=pyty[b]))
                where_t.append(f"(({RANK[a]}, {RANK[b]}), {code(r.dtype)})")
        for op, uf in ufuncs.items():
            for d in DTYPES:
                for t in DTYPES:
                    try:
                        r = f"some {code(uf(np.zeros(2, dtype=pyty[d]), scalar(t, 1)).dtype)}"
                    except TypeError:
                        r = "none"
                    uf_t.append(f'(("{op}", {RANK[d]}, {RANK[t]}), {r})')
                    if op not in ("max", "min"):
                        try:
                            r = f"some {code(np.vectorize(fn_of(op, scalar(t, 1)))(np.zeros(2, dtype=pyty[d])).dtype)}"
                        except TypeError:
                            r = "none"
                        fn_t.append(f'(("{op}", {RANK[d]}, {RANK[t]}), {r})')
                    for v in _NP_ARRAY_SAMPLES[d]:
                        for raw in _NP_SCALAR_SAMPLES[t]:
                            try:
                                e = enc(uf(np.array([scalar(d, v)], dtype=pyty[d]), scalar(t, raw))[0])
                            except TypeError:
                                continue
                            if e is not None:
                                uf_v.append(f'uv "{op}" {RANK[d]} ({v}) {RANK[t]} ({raw}) ({e[1]})')
        for d in DTYPES:
            for t in DTYPES:
                for raw in _NP_ASSIGN_SAMPLES[t]:
                    arr = np.zeros(1, dtype=pyty[d])
                    arr[0] = scalar(t, raw)
                    assign.append(f"av {RANK[d]} {RANK[t]} ({raw}) ({enc(arr[0])[1]})")
                    full.append(f"av {RANK[d]} {RANK[t]} ({raw}) ({enc(np.full((1, 2), scalar(t, raw), dtype=pyty[d])[0, 1])[1]})")

    def lst(items, per=4):
        rows = [", ".join(items[i:i + per]) for i in range(0, len(items), per)]
        return "  [" + ",\n   ".join(rows) + "]"

    L = ["/-! GENERATED by harness/layers_common.py `_numpy_tables()` from the numpy of the running interpreter — rewritten on",
         "every check, do not edit.  dtypes are coded by rank: 0 = bool_, 1 = int64, 2 = float64; entries and Python scalars are",
         "in the encoding of their type (bool 0/1, the integer, floats in quarters).",
         "`npCopytoScalar` / `npCopytoArray`: does `np.copyto(array of dtype dst, scalar / array of type src)` accept the cast;",
         "`npWhereType`: dtype of `np.where(cond, a, b)`; `npUfuncType`: dtype of `ufunc(array of dtype d, Python scalar of type t)`",
         "(`none`: TypeError); `npFnType`: dtype of `np.vectorize(lambda x: x OP scalar)(array)`; `npAssign`: the entry after",
         "`arr[0] = scalar`, keyed (dtype of arr, type of scalar, scalar); `npFull`: the entries of `np.full(shape, scalar, dtype)`;",
         "`npUfuncValue`: `ufunc(array([v], dtype d), scalar)[0]` in the encoding of the result dtype, keyed (op, d, v, t, scalar). -/",
         "namespace Mesa.Layers.Gen", "",
         f'def numpyVersion : String := "{np.__version__}"',
         "def av (d t : Nat) (raw r : Int) : (Nat × Nat × Int) × Int := ((d, t, raw), r)",
         "def uv (op : String) (d : Nat) (v : Int) (t : Nat) (raw r : Int) : (String × Nat × Int × Nat × Int) × Int :=",
         "  ((op, d, v, t, raw), r)",
         f"def npCopytoScalar : List ((Nat × Nat) × Bool) :=\n{lst(copy_scalar, 3)}",
         f"def npCopytoArray : List ((Nat × Nat) × Bool) :=\n{lst(copy_array, 3)}",
         f"def npWhereType : List ((Nat × Nat) × Nat) :=\n{lst(where_t, 3)}",
         f"def npUfuncType : List ((String × Nat × Nat) × Option Nat) :=\n{lst(uf_t, 3)}",
         f"def npFnType : List ((String × Nat × Nat) × Option Nat) :=\n{lst(fn_t, 3)}",
         f"def npAssign : List ((Nat × Nat × Int) × Int) :=\n{lst(assign, 5)}",
         f"def npFull : List ((Nat × Nat × Int) × Int) :=\n{lst(full, 5)}",
         f"def npUfuncValue : List ((String × Nat × Int × Nat × Int) × Int) :=\n{lst(uf_v, 3)}",
         "", "end Mesa.Layers.Gen"]
    return "\n".join(L) + "\n"


TABLES_FROM = "unknown"  # where the reserved-name table of the last gen_tables() came from


def gen_tables():
    """{relative lean path: content} — rewritten from MESA_REPO on every check"""
    global TABLES_FROM
    probe = cell_klass_probe()
    implied = _python_implied_names()
    try:
        at = _cell_ast_names(core.REPO)
        how = "ast"
    except (LookupError, StopIteration, SyntaxError, OSError) as e:
        # harmless refactor of the class body's shape: fall back to what the running code reports
        rest = sorted(set(probe) - set(implied))
        at = {"slots": [], "methods": rest, "properties": [], "classAttrs": [], "gridCellDict": []}
        how = f"probe (AST shape not found: {type(e).__name__})"
    TABLES_FROM = how
    L = ["/-! GENERATED by harness/layers_common.py `gen_tables()` from mesa/discrete_space/cell.py and grid.py of the",
         "checked repository — rewritten on every check, do not edit.",
         "`cellSlots` … `gridCellDict`: names found in the source (AST of `class Cell` and of the `type(\"GridCell\", …)` call",
         "in `Grid.__init__`); `pythonImplied`: what Python gives any class of that shape; `cellKlassProbe`:",
         "`dir(grid.cell_klass)` of a fresh grid of the running code, layer descriptors removed. -/",
         "namespace Mesa.Layers.Gen", "",
         f'def tablesFrom : String := "{how}"',
         f"def cellSlots : List String :=\n{_lean_strs(at['slots'])}",
         f"def cellMethods : List String :=\n{_lean_strs(at['methods'])}",
         f"def cellProperties : List String :=\n{_lean_strs(at['properties'])}",
         f"def cellClassAttrs : List String :=\n{_lean_strs(at['classAttrs'])}",
         f"def gridCellDict : List String :=\n{_lean_strs(at['gridCellDict'])}",
         f"def pythonImplied : List String :=\n{_lean_strs(implied)}",
         f"def cellKlassProbe : List String :=\n{_lean_strs(probe)}",
         "", "end Mesa.Layers.Gen"]
    return {"MesaModel/Gen/LayersTables.lean": "\n".join(L) + "\n",
            "MesaModel/Gen/NumpyTables.lean": _numpy_tables()}


def parse_coord(s):
    return tuple(int(x) for x in s.split("."))


def parse_dims(s):
    return tuple(int(x) for x in s.split("x"))


def all_cells(dims):
    return list(itertools.product(*(range(d) for d in dims)))


def fmt_coord(c):
    return ".".join(str(int(x)) for x in c)


class Reject(Exception):
    """a protocol-level / mapped error: the observation is `err <text>`"""


class _Plain:
    """what `gset NAME` assigns to the grid object: any object that is not a property layer"""


class Impl:
    """drives real mesa with one scenario; snapshots the observable state after every line and
    evaluates the property's clauses on consecutive snapshots"""

    def __init__(self, kind, dims, cap, gridclass="moore", torus=False):
        M = _mesa()
        self.M, self.np = M, M["np"]
        self.kind, self.dims, self.cap = kind, tuple(dims), cap
        self.gridclass = gridclass
        self.model = M["Model"](seed=0)
        self.cells = all_cells(self.dims)
        if kind == "new":
            cls = {"moore": M["OrthogonalMooreGrid"], "vonneumann": M["OrthogonalVonNeumannGrid"],
                   "hex": M["HexGrid"]}[gridclass]
            self.grid = cls(self.dims, torus=torus, capacity=cap, random=self.model.random)  # cap: None | 0 | 1 | ...
            self.layers = [(self.grid.empty, "bool")]  # lid 0 = the built-in layer
        else:
            cls = M["SingleGrid"] if kind == "single" else M["MultiGrid"]
            self.grid = cls(self.dims[0], self.dims[1], torus)
            self.layers = []
        self.handles, self.masks, self.agents, self.where = {}, {}, {}, {}
        self.tainted = False  # the user wrote to / removed the built-in emptiness layer
        self.gset_names = set()  # names the scenario assigned on the grid object itself (`gset`)
        self.bad, self.tags = [], set()
        self.prev = self.snapshot()

    # ------------------------------------------------------------------ value encoding
    def to_py(self, dtype, v):
        if dtype == "bool":
            return bool(v)
        if dtype == "int":
            return int(v)
        return v / UNIT

    def canon(self, dtype, x):
        np = self.np
        if np.ma.is_masked(x):
            raise AssertionError("masked scalar")
        if dtype == "bool" or isinstance(x, bool | np.bool_):
            return int(bool(x))
        if dtype == "int":
            if int(x) != x:
                raise AssertionError(f"non-integer {x!r} in an int layer")
            return int(x)
        y = float(x) * UNIT
        if y != int(y):
            raise AssertionError(f"float value {x!r} is not a multiple of 1/{UNIT}")
        return int(y)

    def canon_arr(self, dtype, arr):
        want = {"bool": "b", "int": "i", "float": "f"}[dtype]
        if arr.dtype.kind != want:
            raise AssertionError(f"array read as {dtype} has dtype {arr.dtype}")
        return tuple(self.canon(dtype, x) for x in arr.reshape(-1).tolist())

    def dkind(self, arr):
        """the protocol's name of the array's current dtype"""
        k = KIND.get(self.np.asarray(arr).dtype.kind)
        if k is None:
            raise AssertionError(f"unexpected dtype {arr.dtype}")
        return k

    def canon_obj(self, x):
        """a Python object kept in a cell's instance dict, by its own type"""
        np = self.np
        if isinstance(x, bool | np.bool_):
            return int(bool(x))
        if isinstance(x, int | np.integer):
            return int(x)
        return self.canon("float", x)

    def pyval(self, dtype, tok):
        """a written value: plain integer = a value of the array's own dtype; typed = that Python scalar"""
        if is_typed(tok):
            ty, raw = typed_parts(tok)
            if ty == "bool" and raw not in (0, 1):
                raise ValueError("bad-op")
            return self.to_py(ty, raw)
        return self.to_py(dtype, int(tok))

    # ------------------------------------------------------------------ lookups
    def layer(self, lid):
        """(layer object, its *current* dtype)"""
        if lid >= len(self.layers):
            raise Reject("NoLayer")
        return self.layers[lid][0], self.dkind(self.layers[lid][0].data)

    def dt_of(self, layer):
        return self.dkind(layer.data)

    def ldims(self, layer):
        return tuple(layer.dimensions) if self.kind == "new" else (layer.width, layer.height)

    def coord_for(self, c, dims):
        if len(c) != len(dims):
            raise Reject("Index")
        return c

    def attached(self):
        """name -> layer object, as the grid reports it"""
        if self.kind == "new":
            return dict(self.grid._mesa_property_layers)
        return dict(self.grid.properties)

    def lid_of(self, layer):
        return next(i for i, (l, _) in enumerate(self.layers) if l is layer)

    def named(self, name):
        return self.attached().get(name)

    def reserved(self, name):
        return name not in self.attached() and hasattr(self.grid.cell_klass, name)

    # ------------------------------------------------------------------ snapshot
    def snapshot(self):
        np = self.np
        snap = {"layers": [self.canon_arr(self.dt_of(l), l.data) for l, _ in self.layers],
                "dtypes": [self.dt_of(l) for l, _ in self.layers]}
        att = {}
        views = {}
        for name, l in self.attached().items():
            lid = self.lid_of(l)
            att[name] = lid
            dt = snap["dtypes"][lid]
            if self.kind == "new":
                views[name] = tuple(self.canon(dt, getattr(self.grid[c], name)) for c in self.cells)
            else:
                views[name] = tuple(self.canon(dt, l.data[c]) for c in self.cells)
        snap["attached"], snap["views"] = att, views
        # which layers share their array (legacy `rebind`): the representative is the first layer with that array object
        objs = [l.data for l, _ in self.layers]
        snap["alias"] = [next(j for j, o in enumerate(objs) if o is objs[i]) for i in range(len(objs))]
        # the third view: grid.<name> is the layer object itself (new: HasPropertyLayers.__getattr__)
        snap["gattr"] = ({name: getattr(self.grid, name, None) is l for name, l in self.attached().items()}
                         if self.kind == "new" else {})
        if self.kind == "new":
            # the second registry of add / remove_property_layer: which layer names the grid's own cell class defines
            # (setattr / delattr on the dynamic GridCell class); judged against the dict by clause (1c) — that each such
            # attribute reads the very layer is clause (1).  (`hasattr(cell_klass, name)` is no way to ask: a
            # PropertyDescriptor raises AttributeError when read on the class.)
            klass = self.grid.cell_klass
            names = {l.name for l, _ in self.layers} | set(GOOD_NAMES)
            snap["descr"] = tuple(sorted(n for n in names if type(vars(klass).get(n)).__name__ == "PropertyDescriptor"))
            try:
                snap["actual"] = tuple(int(self.grid[c].is_empty) for c in self.cells)
            except TypeError as ex:  # a layer shadows Cell.agents / Cell.is_empty
                snap["actual"] = None
                self.fail("occupancy", f"cell.is_empty raised {type(ex).__name__}: {ex}")
            e = self.named("empty")
            snap["empty"] = None if e is None else self.canon_arr(self.dt_of(e), np.asarray(e.data))
            snap["inst"] = {(k, c): self.canon_obj(v) for c in self.cells for k, v in self.grid[c].__dict__.items()
                            if isinstance(v, bool | int | float | np.bool_ | np.integer | np.floating)}
        else:
            snap["actual"] = tuple(int(self.grid.is_cell_empty(c)) for c in self.cells)
            snap["empty"] = self.canon_arr("bool", self.grid.empty_mask)
            snap["inst"] = {}
        snap["where"] = dict(self.where)
        snap["handles"] = {h: self.canon_arr(dt, arr) for h, (arr, dt) in self.handles.items()}
        return snap

    # ------------------------------------------------------------------ parsing of operands
    def pred(self, dtype, s, whole_array=False):
        """condition token -> python callable (element-wise, or on the whole array)"""
        if s == "ufz":
            return self.np.logical_not
        k, t = s.split(":")
        t = self.to_py(dtype, int(t))
        return {"gt": lambda x: x > t, "lt": lambda x: x < t, "ge": lambda x: x >= t,
                "le": lambda x: x <= t, "eq": lambda x: x == t, "ne": lambda x: x != t}[k]

    @staticmethod
    def spec_pred(s):
        if s == "-":
            return lambda x: True
        if s == "ufz":
            return lambda x: x == 0
        k, t = s.split(":")
        return lambda x, f=CMP[k], t=int(t): f(x, t)

    def operation(self, dtype, kind, op, v, single=False):
        """-> (callable, value argument)"""
        np = self.np
        if is_typed(v):
            # a Python scalar of its own type: numpy's result type decides the dtype of the re-pointed layer
            # (bulk form: a Python function must have a result type that does not depend on the value)
            if op not in BIN or (kind == "fn" and op in ("max", "min") and not single):
                raise ValueError("bad-op")
            w = self.pyval(dtype, v)
            if kind == "ufunc":
                uf = {"add": np.add, "sub": np.subtract, "mul": np.multiply, "max": np.maximum, "min": np.minimum,
                      "and": np.logical_and, "or": np.logical_or, "xor": np.logical_xor}[op]
                return uf, w
            fn = {"add": lambda x: x + w, "sub": lambda x: x - w, "mul": lambda x: x * w,
                  "max": lambda x: max(x, w), "min": lambda x: min(x, w),
                  "and": lambda x: bool(x) and bool(w), "or": lambda x: bool(x) or bool(w),
                  "xor": lambda x: bool(x) != bool(w)}[op]
            return fn, None
        if kind == "ufunc":
            uf = {"add": np.add, "sub": np.subtract, "mul": np.multiply, "max": np.maximum, "min": np.minimum,
                  "and": np.logical_and, "or": np.logical_or, "xor": np.logical_xor,
                  "neg": np.negative, "not": np.logical_not}[op]
            if v == "none":
                return uf, None
            if op in UN:
                raise ValueError("bad-op")
            return uf, self.operand(dtype, op, int(v))
        if op in UN:
            if v != "none":
                raise ValueError("bad-op")
            return ((lambda x: -x) if op == "neg" else (lambda x: not x)), None
        w = self.operand(dtype, op, int(v))
        fn = {"add": lambda x: x + w, "sub": lambda x: x - w, "mul": lambda x: x * w,
              "max": lambda x: max(x, w), "min": lambda x: min(x, w),
              "and": lambda x: bool(x) and bool(w), "or": lambda x: bool(x) or bool(w),
              "xor": lambda x: bool(x) != bool(w)}[op]
        return fn, None

    def operand(self, dtype, op, v):
        if op == "mul":
            return float(v) if dtype == "float" else int(v)
        if op in ("and", "or", "xor"):
            return bool(v)
        return self.to_py(dtype, v)

    @staticmethod
    def spec_oper(op, v):
        if op in UN:
            return UN[op]
        return lambda x, f=BIN[op], v=int(v): f(x, v)

    # ------------------------------------------------------------------ one line
    def line(self, w):
        """returns the observation; evaluates the oracle clauses for this step"""
        try:
            out = self.exec(w)
        except Reject as e:
            out = "err " + str(e)
        snap = self.snapshot()
        self.check(w, out, self.prev, snap)
        self.prev = snap
        return out

    def value_error(self, e):
        s = str(e)
        for pat, why in (("do not match", "dims"), ("already exists", "exists"), ("does not exist", "exists"),
                         ("clashes", "clash"), ("additional input", "ufunc"), ("missing value", "ufunc"),
                         ("Invalid mode", "mode"), ("positive integers", "dims"),
                         ("size 0 inputs", "size0"), ("zero-size array", "empty")):
            if pat in s:
                return Reject("Value " + why)
        raise e

    def exec(self, w):
        np, k = self.np, w[0]
        new = self.kind == "new"
        if k == "create":
            _, name, dt, d = w
            try:
                if new:
                    layer = self.grid.create_property_layer(name, default_value=self.pyval(dt, d), dtype=eval(dt))
                else:
                    layer = self.M["OldLayer"](name, self.dims[0], self.dims[1], self.pyval(dt, d), dtype=eval(dt))
                    self.grid.add_property_layer(layer)
            except ValueError as e:
                raise self.value_error(e) from None
            self.layers.append((layer, dt))
            return f"ok id={len(self.layers) - 1}"
        if k == "new":
            _, name, dims, dt, d = w
            dims = parse_dims(dims)
            try:
                if new and sum(map(ord, "".join(w))) % 2 == 0 and all(dims):
                    layer = self.M["NewLayer"].from_data(name, np.full(dims, self.pyval(dt, d), dtype=eval(dt)))
                elif new:
                    layer = self.M["NewLayer"](name, dims, default_value=self.pyval(dt, d), dtype=eval(dt))
                else:
                    if len(dims) != 2:
                        raise Reject("Value dims")
                    layer = self.M["OldLayer"](name, dims[0], dims[1], self.pyval(dt, d), dtype=eval(dt))
            except ValueError as e:
                raise self.value_error(e) from None
            self.layers.append((layer, dt))
            return f"ok id={len(self.layers) - 1}"
        if k == "attach":
            layer, _ = self.layer(int(w[1]))
            try:
                self.grid.add_property_layer(layer)
            except ValueError as e:
                raise self.value_error(e) from None
            if int(w[1]) == 0 and new:
                self.tainted = True
            return "ok"
        if k == "detach":
            try:
                self.grid.remove_property_layer(w[1])
            except KeyError:
                raise Reject("Key") from None
            except ValueError as e:
                raise self.value_error(e) from None
            if w[1] == "empty":
                self.tainted = True
            return "ok"
        if k in ("lset", "lget"):
            layer, dt = self.layer(int(w[1]))
            c = self.coord_for(parse_coord(w[2]), self.ldims(layer))
            try:
                if k == "lget":
                    return f"ok v={self.canon(dt, layer.data[c])}"
                if new:
                    layer.data[c] = self.pyval(dt, w[3])
                else:
                    layer.set_cell(c, self.pyval(dt, w[3]))
            except IndexError:
                raise Reject("Index") from None
            self.taint_lid(int(w[1]))
            return "ok"
        if k in ("cset", "cget"):
            name, c = w[1], parse_coord(w[2])
            if new:
                self.coord_for(c, self.dims)
                try:
                    cell = self.grid[c]
                except KeyError:
                    raise Reject("Index") from None
                if self.reserved(name):
                    raise Reject("Attr")
                layer = self.named(name)
                dt = self.dt_of(layer) if layer is not None else "int"
                if k == "cget":
                    try:
                        v = getattr(cell, name)
                    except AttributeError:
                        raise Reject("Attr") from None
                    return f"ok v={self.canon(dt, v) if layer is not None else self.canon_obj(v)}"
                setattr(cell, name, self.pyval(dt, w[3]))
                if name == "empty":
                    self.tainted = True
                return "ok"
            try:
                layer = self.grid.properties[name]
            except KeyError:
                raise Reject("Key") from None
            dt = self.dt_of(layer)
            self.coord_for(c, self.ldims(layer))
            try:
                if k == "cget":
                    return f"ok v={self.canon(dt, layer.data[c])}"
                layer.set_cell(c, self.pyval(dt, w[3]))
            except IndexError:
                raise Reject("Index") from None
            return "ok"
        if k in ("cset2", "cget2"):
            # the same layer object added to a second grid as well: its cells get the attribute too
            if not new:
                raise Reject("Impl")
            layer, dt = self.layer(int(w[1]))
            c = parse_coord(w[2])
            try:
                g2 = self.M["OrthogonalMooreGrid"](tuple(layer.dimensions), torus=False, random=self.model.random)
                g2.add_property_layer(layer)
            except ValueError as e:
                raise self.value_error(e) from None
            self.coord_for(c, self.ldims(layer))
            try:
                cell = g2[c]
            except KeyError:
                raise Reject("Index") from None
            if k == "cget2":
                return f"ok v={self.canon(dt, getattr(cell, layer.name))}"
            setattr(cell, layer.name, self.pyval(dt, w[3]))
            self.taint_lid(int(w[1]))
            return "ok"
        if k == "setcells":
            layer, dt = self.layer(int(w[1]))
            cond = None if w[3] == "-" else self.pred(dt, w[3])
            variant = sum(map(ord, "".join(w))) % 3
            val = self.pyval(dt, w[2])
            try:
                if new and variant == 1 and self.named(layer.name) is layer:
                    self.grid.set_property(layer.name, val, cond)  # the grid-level wrapper
                elif new and variant == 2 and cond is None:
                    layer.data = val  # the property setter is set_cells
                else:
                    layer.set_cells(val, cond)
            except ValueError as e:
                raise self.value_error(e) from None  # np.vectorize(condition) on a layer without entries
            except TypeError as e:
                if "Cannot cast" in str(e):
                    raise Reject("Type") from None  # np.copyto refuses a cast that is not same_kind
                raise
            self.taint_lid(int(w[1]))
            return "ok"
        if k == "setfrom":
            # set_cells with an array value (one entry per cell) the user holds
            layer, dt = self.layer(int(w[1]))
            if int(w[2]) not in self.handles:
                raise Reject("NoHandle")
            arr, _ = self.handles[int(w[2])]
            if tuple(arr.shape) != tuple(self.ldims(layer)):
                raise Reject("Value dims")  # protocol precondition: numpy would broadcast or raise
            cond = None if w[3] == "-" else self.pred(dt, w[3])
            variant = sum(map(ord, "".join(w))) % 3
            try:
                if new and variant == 1 and self.named(layer.name) is layer:
                    self.grid.set_property(layer.name, arr, cond)
                elif new and variant == 2 and cond is None:
                    layer.data = arr
                else:
                    layer.set_cells(arr, cond)
            except ValueError as e:
                raise self.value_error(e) from None
            except TypeError as e:
                if "Cannot cast" in str(e):
                    raise Reject("Type") from None
                raise
            self.taint_lid(int(w[1]))
            return "ok"
        if k == "modify":
            layer, dt = self.layer(int(w[1]))
            fn, val = self.operation(dt, w[2], w[3], w[4])
            cond = None if w[5] == "-" else self.pred(dt, w[5])
            try:
                if new and sum(map(ord, "".join(w))) % 2 and self.named(layer.name) is layer:
                    self.grid.modify_properties(layer.name, fn, val, cond)  # the grid-level wrapper
                else:
                    layer.modify_cells(fn, val, cond)
            except ValueError as e:
                raise self.value_error(e) from None
            except TypeError as e:
                if is_typed(w[4]) and "boolean subtract" in str(e):
                    raise Reject("Type") from None  # numpy has no bool - bool
                raise
            self.taint_lid(int(w[1]))
            return "ok"
        if k == "modcell":
            if new:
                raise Reject("Impl")
            layer, dt = self.layer(int(w[1]))
            c = self.coord_for(parse_coord(w[2]), self.ldims(layer))
            if is_typed(w[5]):
                try:
                    layer.data[c]
                except IndexError:
                    raise Reject("Index") from None
            fn, val = self.operation(dt, w[3], w[4], w[5], single=True)
            try:
                layer.modify_cell(c, fn, val)
            except IndexError:
                raise Reject("Index") from None
            except ValueError as e:
                raise self.value_error(e) from None
            except TypeError as e:
                if is_typed(w[5]) and "boolean subtract" in str(e):
                    raise Reject("Type") from None
                raise
            return "ok"
        if k == "grab":
            layer, dt = self.layer(int(w[2]))
            self.handles[int(w[1])] = (layer.data, dt)  # an array never changes its dtype
            return "ok"  # (a reference to grid.empty.data is harmless until it is written through: see hset)
        if k == "rebind":
            # legacy `layer.data = <held array>`: a plain attribute, nothing is copied — the layer now shares that array
            if new:
                raise Reject("Impl")
            layer, _ = self.layer(int(w[1]))
            if int(w[2]) not in self.handles:
                raise Reject("NoHandle")
            arr, _ = self.handles[int(w[2])]
            if tuple(arr.shape) != tuple(self.ldims(layer)):
                raise Reject("Value dims")  # protocol precondition (Python itself would take any object)
            if np.shares_memory(arr, self.grid.empty_mask):
                raise Reject("Impl")  # the grid's own mask as a layer's array is kept out of the protocol
            layer.data = arr
            return "ok"
        if k == "grabmask":
            if new:
                raise Reject("Impl")
            self.handles[int(w[1])] = (self.grid.empty_mask, "bool")  # the property hands out the live array
            return "ok"
        if k == "fromdata":
            if not new:
                raise Reject("Impl")
            if int(w[2]) not in self.handles:
                raise Reject("NoHandle")
            arr, dt = self.handles[int(w[2])]
            try:
                layer = self.M["NewLayer"].from_data(w[1], arr)
            except IndexError:
                raise Reject("Index") from None
            self.layers.append((layer, dt))
            return f"ok id={len(self.layers) - 1}"
        if k in ("hget", "hset", "hdump"):
            if int(w[1]) not in self.handles:
                raise Reject("NoHandle")
            arr, dt = self.handles[int(w[1])]
            if k == "hdump":
                return "ok arr=" + ",".join(map(str, self.canon_arr(dt, arr)))
            c = self.coord_for(parse_coord(w[2]), arr.shape)
            try:
                if k == "hget":
                    return f"ok v={self.canon(dt, arr[c])}"
                arr[c] = self.pyval(dt, w[3])
            except IndexError:
                raise Reject("Index") from None
            # the user's own overwrite of the emptiness view: a write through a reference that aliases it
            e = self.named("empty") if new else None
            view = (e.data if e is not None else None) if new else self.grid.empty_mask
            if view is not None and np.shares_memory(arr, view):
                self.tainted = True
            return "ok"
        if k == "dtype":
            layer, dt = self.layer(int(w[1]))
            return f"ok dt={dt}"
        if k == "dump":
            layer, dt = self.layer(int(w[1]))
            return "ok arr=" + ",".join(map(str, self.canon_arr(dt, layer.data)))
        if k == "dumpn":
            try:
                layer = getattr(self.grid, w[1]) if new else self.grid.properties[w[1]]
            except AttributeError:
                raise Reject("Attr") from None
            except KeyError:
                raise Reject("Key") from None
            if new and not isinstance(layer, self.M["NewLayer"]):
                raise Reject("Shadowed")  # an attribute the scenario itself gave the grid object
            dt = self.dt_of(layer)
            return "ok arr=" + ",".join(map(str, self.canon_arr(dt, layer.data)))
        if k == "gset":
            if not new:
                raise Reject("Impl")
            try:
                setattr(self.grid, w[1], _Plain())  # HasPropertyLayers.__setattr__
            except AttributeError:
                raise Reject("Attr") from None
            self.gset_names.add(w[1])
            return "ok"
        if k == "lsel":
            layer, dt = self.layer(int(w[1]))
            p = self.pred(dt, w[2])
            lst = layer.select_cells(p, return_list=True)
            msk = layer.select_cells(p, return_list=False)
            return self.fmt_sel(lst, msk)
        if k == "agg":
            layer, dt = self.layer(int(w[1]))
            f = {"sum": np.sum, "max": np.max, "min": np.min}[w[2]]
            try:
                v = layer.aggregate(f) if new else layer.aggregate_property(f)
            except ValueError as e:
                raise self.value_error(e) from None  # max / min of a layer without entries
            return f"ok v={self.canon('int' if (dt == 'bool' and w[2] == 'sum') else dt, v)}"
        if k in ("place", "move", "remove"):
            return self.agent_op(k, w)
        if k == "empties":
            if new:
                e = self.named("empty")  # (the attribute path grid.<name> is read by `dumpn`)
                view = "none" if e is None else ",".join(map(str, self.canon_arr(self.dt_of(e), np.asarray(e.data))))
                actual = "".join(str(int(self.grid[c].is_empty)) for c in self.cells)
            else:
                view = ",".join(map(str, self.canon_arr("bool", self.grid.empty_mask)))
                actual = "".join(str(int(self.grid.is_cell_empty(c))) for c in self.cells)
            return f"ok view={view} actual={actual}"
        if k == "select":
            return self.select(w)
        if k == "nbmask":
            if len(w) != (5 if new else 6) or w[3] not in ("0", "1"):
                raise ValueError(f"bad-op {w}")
            if new and self.gridclass == "hex":
                raise Reject("Impl")  # the model has no hex geometry
            K, c, ic, r = int(w[1]), parse_coord(w[2]), w[3] == "1", int(w[4])
            self.coord_for(c, self.dims)
            if any(ci >= di for ci, di in zip(c, self.dims)):
                raise Reject("Index")
            if new:
                try:
                    m = self.grid.get_neighborhood_mask(c, include_center=ic, radius=r)
                except ValueError as e:
                    if "radius" in str(e):
                        raise Reject("Value radius") from None
                    raise
            else:
                m = self.grid.get_neighborhood_mask(c, {"moore": True, "vn": False}[w[5]], ic, r)
            self.masks[K] = m
            return self.fmt_sel(list(zip(*np.where(m))), m)
        raise ValueError(f"bad-op {w}")

    def taint_lid(self, lid):
        if self.kind == "new" and lid == 0:
            self.tainted = True

    def fmt_sel(self, lst, msk):
        np = self.np
        if not isinstance(msk, np.ndarray) or msk.dtype != np.bool_:
            m = "baddtype:" + str(getattr(msk, "dtype", type(msk).__name__))
        else:
            m = "".join(str(int(b)) for b in np.asarray(msk).reshape(-1).tolist())
        return "ok list=" + ";".join(fmt_coord(c) for c in lst) + " mask=" + m

    def agent_op(self, k, w):
        a = int(w[1])
        new = self.kind == "new"
        if k == "place":
            if a in self.where:
                raise Reject("Placed")
        elif a not in self.where:
            raise Reject("NotPlaced")
        if k == "remove":
            ag = self.agents[a]
            if new:
                ag.cell = None
            else:
                self.grid.remove_agent(ag)
            del self.where[a]
            return "ok"
        c = self.coord_for(parse_coord(w[2]), self.dims)
        if any(ci >= di for ci, di in zip(c, self.dims)):
            raise Reject("Index")
        others = sum(1 for b, p in self.where.items() if p == c and b != a)
        if new:
            cell = self.grid[c]  # (a full cell refuses by itself: `Cell.add_agent`, before anything has changed)
        elif self.kind == "single" and others >= 1:
            if k == "move":
                raise Reject("Full")
        if a not in self.agents:
            self.agents[a] = self.M["CellAgent"](self.model) if new else self.M["Agent"](self.model)
        ag = self.agents[a]
        if new:
            try:
                if k == "move" and a % 2:
                    ag.move_to(cell)
                else:
                    ag.cell = cell
            except Exception as e:
                if "Cell is full" in str(e):
                    raise Reject("Full") from None
                raise
        elif k == "place":
            try:
                self.grid.place_agent(ag, c)
            except Exception as e:
                if "Cell not empty" in str(e):
                    raise Reject("Full") from None
                raise
        else:
            self.grid.move_agent(ag, c)
        self.where[a] = c
        return "ok"

    def parse_select(self, w):
        kv = dict(x.split("=", 1) for x in w[1:])
        oe = kv["oe"] == "1"
        conds = [] if kv["conds"] == "-" else [tuple(x.split(":")) for x in kv["conds"].split(",")]
        exts = [] if kv["ext"] == "-" else [tuple(x.split(":")) for x in kv["ext"].split(",")]
        masks = [] if kv["masks"] == "-" else kv["masks"].split(",")
        save = None if kv["save"] == "-" else int(kv["save"])
        return oe, conds, exts, masks, save

    def whole_array(self, f):
        """a condition of select_cells is handed the layer's whole data array (so that it may compare with v.mean(), v.max(),
        a percentile): this wrapper answers like `f` on the whole array and all-False on anything else (a sub-array of the
        candidates that survived earlier filters)"""
        np, dims = self.np, tuple(self.dims)

        def cond(v):
            r = f(v)
            return r if np.shape(v) == dims else np.zeros(np.shape(v), dtype=bool)

        return cond

    def select(self, w):
        np = self.np
        oe, conds, exts, masks, save = self.parse_select(w)
        marrs = []
        for m in masks:
            if m[0] == "s":
                if int(m[1:]) not in self.masks:
                    raise Reject("NoMask")
                marrs.append(self.masks[int(m[1:])])
            else:
                marrs.append(np.array([b == "1" for b in m[1:]], dtype=bool).reshape(self.dims))
        att = self.attached()
        cd = {}
        for name, cmp, t in conds:
            dt = self.dt_of(att[name]) if name in att else "int"
            cd[name] = self.whole_array(self.pred(dt, f"{cmp}:{t}"))
        ev = {name: {"hi": "highest", "lo": "lowest", "bad": "biggest"}[m] for name, m in exts}
        if not marrs:
            marg = None
        elif len(marrs) == 1 and masks[0][0] == "l":
            marg = marrs[0]  # a bare array instead of a list
        else:
            marg = marrs
        kw = dict(conditions=cd or None, extreme_values=ev or None, masks=marg, only_empty=oe)
        try:
            lst = self.grid.select_cells(return_list=True, **kw)
            msk = self.grid.select_cells(return_list=False, **kw)
        except KeyError:
            raise Reject("Key") from None
        except ValueError as e:
            raise self.value_error(e) from None
        if save is not None:
            self.masks[save] = msk
        return self.fmt_sel(lst, msk)

    # ------------------------------------------------------------------ the property's clauses
    def fail(self, clause, msg):
        self.bad.append(f"{clause}: {msg}")

    def check(self, w, out, old, new):
        k = w[0]
        ok = out.startswith("ok")
        ncell = len(self.cells)
        # (1) one value, two views: the attribute of every cell equals the layer's entry
        for name, lid in new["attached"].items():
            if new["views"][name] != new["layers"][lid]:
                self.fail("views", f"cell view of {name!r} {new['views'][name]} != layer data {new['layers'][lid]} after {' '.join(w)}")
        # (1b) grid.<name> is the attached layer, unless the scenario itself gave the grid an attribute of that name
        # before; such an assignment is refused exactly while a layer of that name is attached
        for name, same in new["gattr"].items():
            if not same and name not in self.gset_names:
                self.fail("grid-attr", f"grid.{name} is not the attached layer after {' '.join(w)}")
        # (1c) the two registries of a cell space are one map: the cell class has an attribute for a layer name exactly
        # while the grid's dict has an entry for it
        if self.kind == "new":
            if new["descr"] != tuple(sorted(new["attached"])):
                self.fail("registries", f"layer attributes of the cell class {new['descr']} != names of the layer dict {sorted(new['attached'])} after {' '.join(w)}")
        if k == "gset" and self.kind == "new":
            if ok and w[1] in old["attached"]:
                self.fail("grid-attr", f"{' '.join(w)} replaced the attribute of an attached layer")
            if out == "err Attr" and w[1] not in old["attached"]:
                self.fail("grid-attr", f"{' '.join(w)} refused although no layer of that name is attached")
        # (2) emptiness layer / mask = actual emptiness = where the agents are
        occ = tuple(int(all(p != c for p in new["where"].values())) for c in self.cells)
        if new["actual"] != occ:
            self.fail("occupancy", f"cell emptiness {new['actual']} != placed agents {occ} after {' '.join(w)}")
        if not self.tainted:
            if new["empty"] != new["actual"]:
                self.fail("empty", f"emptiness view {new['empty']} != actual emptiness {new['actual']} after {' '.join(w)}")
        # (2b) a name of the Cell class itself is a clash and must be refused (C18: "adding a clashing ... layer")
        if ok and self.kind == "new" and k in ("create", "attach"):
            name = w[1] if k == "create" else self.layers[int(w[1])][0].name
            if hasattr(self.M["Cell"], name):
                self.fail("clash-accepted", f"{' '.join(w)} accepted a layer named after Cell.{name}")
        # (3) a rejected call changes nothing
        if not ok:
            if old != new:
                diff = [key for key in old if old[key] != new[key]]
                self.fail("reject-unchanged", f"{' '.join(w)} -> {out} changed {diff}")
            return
        # (3b) the dtype of a layer changes only by a successful typed modify on that layer, to numpy's result type
        for lid, (a, b) in enumerate(zip(old["dtypes"], new["dtypes"])):
            want = a
            if k == "modify" and int(w[1]) == lid and is_typed(w[4]):
                want = spec_result_dtype(w[3], a, w[4])
            if k == "rebind" and int(w[1]) == lid:
                want = self.handles[int(w[2])][1]  # the layer takes the dtype of the array it now shares
            if b != want:
                self.fail("dtype", f"after {' '.join(w)}: layer {lid} has dtype {b}, expected {want} (before: {a})")
        # (4) effect and frame of the successful call on all layer values
        exp = [list(x) for x in old["layers"]]

        def stored(lid, tok):
            """the entry a write of `tok` leaves in layer lid: a typed scalar is cast by the layer's dtype"""
            return spec_cast(old["dtypes"][lid], tok) if is_typed(tok) else int(tok)
        empty_lid = old["attached"].get("empty") if self.kind == "new" else None
        skip = set()
        if k in ("create", "new"):
            lid = int(out.split("=")[1])
            dims = self.dims if k == "create" else parse_dims(w[2])
            # np.full(dims, default, dtype): a default of another Python type is cast like an assignment
            dflt = spec_cast(w[-2], w[-1]) if is_typed(w[-1]) else int(w[-1])
            exp.append([dflt] * len(all_cells(dims)))
            if new["dtypes"][lid] != w[-2]:
                self.fail("dtype", f"{' '.join(w)}: the new layer's dtype is {new['dtypes'][lid]}")
            if lid != len(exp) - 1:
                self.fail("effect", f"{' '.join(w)} returned id {lid}")
        elif k in ("lset", "cset2"):
            lid = int(w[1])
            exp[lid][self.flat(self.ldims(self.layers[lid][0]), parse_coord(w[2]))] = stored(lid, w[3])
        elif k == "cset":
            lid = old["attached"].get(w[1])
            if lid is not None:
                exp[lid][self.flat(self.dims, parse_coord(w[2]))] = stored(lid, w[3])
        elif k == "setcells":
            lid, p = int(w[1]), self.spec_pred(w[3])
            if is_typed(w[2]) and not spec_same_kind(w[2], old["dtypes"][lid]):
                self.fail("cast", f"{' '.join(w)} accepted a cast that is not same_kind into a {old['dtypes'][lid]} layer")
            v = stored(lid, w[2])
            exp[lid] = [v if p(x) else x for x in exp[lid]]
        elif k == "setfrom":
            lid, p = int(w[1]), self.spec_pred(w[3])
            _, sdt = self.handles[int(w[2])]
            src, dt = old["handles"][int(w[2])], old["dtypes"][lid]
            if RANK[sdt] > RANK[dt]:
                self.fail("cast", f"{' '.join(w)} accepted a {sdt} array into a {dt} layer (not same_kind)")
            else:
                # positional: the entry at a cell comes from the source *at that cell*
                exp[lid] = [from_quarters(dt, quarters(sdt, y)) if p(x) else x for x, y in zip(exp[lid], src)]
        elif k == "modify" and is_typed(w[4]):
            lid, p = int(w[1]), self.spec_pred(w[5])
            dt = old["dtypes"][lid]
            nd = spec_result_dtype(w[3], dt, w[4])
            f = spec_typed_oper(w[3], dt, w[4])
            # entries the condition leaves alone keep their *number*; the encoding is that of the new dtype
            exp[lid] = [f(x) if p(x) else from_quarters(nd, quarters(dt, x)) for x in exp[lid]]
        elif k == "modify":
            lid, p, f = int(w[1]), self.spec_pred(w[5]), self.spec_oper(w[3], w[4] if w[4] != "none" else 0)
            exp[lid] = [f(x) if p(x) else x for x in exp[lid]]
        elif k == "modcell" and is_typed(w[5]):
            # numpy's result for the two scalars, cast back into the array by the assignment
            lid = int(w[1])
            i = self.flat(self.ldims(self.layers[lid][0]), parse_coord(w[2]))
            dt = old["dtypes"][lid]
            nd = spec_result_dtype(w[4], dt, w[5])
            exp[lid][i] = spec_cast(dt, f"{nd[0]}:{spec_typed_oper(w[4], dt, w[5])(exp[lid][i])}")
        elif k == "modcell":
            lid = int(w[1])
            i = self.flat(self.ldims(self.layers[lid][0]), parse_coord(w[2]))
            exp[lid][i] = self.spec_oper(w[4], w[5] if w[5] != "none" else 0)(exp[lid][i])
        elif k == "fromdata":
            arr, dt = self.handles[int(w[2])]
            exp.append(list(self.canon_arr(dt, arr)))
            made = self.layers[int(out.split("=")[1])][0]
            if self.np.shares_memory(made.data, arr):
                self.fail("copy", f"{' '.join(w)}: the new layer shares memory with the source array")
            if tuple(made.dimensions) != tuple(arr.shape) or self.dt_of(made) != dt:
                self.fail("copy", f"{' '.join(w)}: shape/dtype {made.dimensions}/{self.dt_of(made)} of the layer differ from the array's {arr.shape}/{dt}")
        elif k == "rebind":
            exp[int(w[1])] = list(old["handles"][int(w[2])])  # the layer reads the held array from now on
        elif k == "hset":
            skip = set(range(len(exp)))  # which layer (if any) the handle still aliases is the model's business
        elif k in ("place", "move", "remove") and empty_lid is not None:
            skip = {empty_lid}  # clause (2) speaks about it
        # layers that shared the written layer's array before the call see the same write (in place: everything but the
        # re-pointing modify_cells, which gives only the called layer a new array)
        if k in ("lset", "cset", "cset2", "setcells", "setfrom", "modcell") and any(i != a for i, a in enumerate(old["alias"])):
            wl = old["attached"].get(w[1]) if k == "cset" else int(w[1])
            if wl is not None and wl < len(old["alias"]):
                for j, a in enumerate(old["alias"]):
                    if j != wl and a == old["alias"][wl]:
                        exp[j] = list(exp[wl])
        got = [list(x) for x in new["layers"]]
        for lid in range(max(len(exp), len(got))):
            if lid in skip:
                continue
            if lid >= len(exp) or lid >= len(got) or exp[lid] != got[lid]:
                self.fail("pointwise", f"after {' '.join(w)}: layer {lid} is {got[lid] if lid < len(got) else None}, expected {exp[lid] if lid < len(exp) else None} (before: {old['layers'][lid] if lid < len(old['layers']) else None})")
        # attachment bookkeeping: add / remove change exactly one name
        expatt = dict(old["attached"])
        if k == "create":
            expatt[w[1]] = len(exp) - 1
        elif k == "attach":
            expatt[self.layers[int(w[1])][0].name] = int(w[1])
        elif k == "detach":
            expatt.pop(w[1], None)
        if expatt != new["attached"]:
            self.fail("attach", f"after {' '.join(w)}: attached {new['attached']}, expected {expatt}")
        # (5) reads return the value of the other view
        if k in ("lget", "cget", "hget", "cget2"):
            v = int(out.split("=")[1])
            if k in ("lget", "cget2"):
                want = old["layers"][int(w[1])][self.flat(self.ldims(self.layers[int(w[1])][0]), parse_coord(w[2]))]
            elif k == "cget":
                lid = old["attached"].get(w[1])
                want = (old["layers"][lid][self.flat(self.dims, parse_coord(w[2]))] if lid is not None
                        else old["inst"].get((w[1], parse_coord(w[2]))))
            else:
                want = v
            if v != want:
                self.fail("read", f"{' '.join(w)} -> {v}, expected {want}")
        if k in ("dump", "dumpn"):
            lid = int(w[1]) if k == "dump" else old["attached"][w[1]]
            if out != "ok arr=" + ",".join(map(str, old["layers"][lid])):
                self.fail("read", f"{' '.join(w)} -> {out}")
        # (6) selection is exact, list form = mask form
        if k == "select":
            self.check_select(w, out, new)
        if k == "nbmask":
            # the mask describes the cells the neighbourhood query itself returns
            c, ic, r = parse_coord(w[2]), w[3] == "1", int(w[4])
            if self.kind == "new":
                want = sorted(x.coordinate for x in self.grid[c].get_neighborhood(radius=r, include_center=ic))
            else:
                want = sorted(self.grid.get_neighborhood(c, w[5] == "moore", ic, r))
            self.cmp_sel(w, out, self.cells, [tuple(int(v) for v in x) for x in want])
        if k == "lsel":
            lid, p = int(w[1]), self.spec_pred(w[2])
            cells = all_cells(self.ldims(self.layers[lid][0]))
            want = [c for c, x in zip(cells, old["layers"][lid]) if p(x)]
            self.cmp_sel(w, out, cells, want)
        if k == "agg":
            vals = old["layers"][int(w[1])]
            want = {"sum": sum, "max": max, "min": min}[w[2]](vals)
            if int(out.split("=")[1]) != want:
                self.fail("aggregate", f"{' '.join(w)} -> {out}, expected {want}")

    @staticmethod
    def flat(dims, c):
        i = 0
        for d, x in zip(dims, c):
            i = i * d + x
        return i

    def cmp_sel(self, w, out, cells, want):
        parts = dict(x.split("=", 1) for x in out.split()[1:])
        lst = [parse_coord(x) for x in parts["list"].split(";")] if parts["list"] else []
        if parts["mask"].startswith("baddtype"):
            self.fail("select-mask-dtype", f"{' '.join(w)}: mask form has {parts['mask']}")
            from_mask = None
        else:
            from_mask = [c for c, b in zip(cells, parts["mask"]) if b == "1"]
        if lst != want:
            self.fail("select-exact", f"{' '.join(w)} -> {lst}, expected {want}")
        if from_mask is not None and from_mask != lst:
            self.fail("select-forms", f"{' '.join(w)}: list form {lst} but mask form describes {from_mask}")

    def check_select(self, w, out, snap):
        oe, conds, exts, masks, _ = self.parse_select(w)
        n = len(self.cells)
        sel = [True] * n
        for m in masks:
            if m[0] == "s":
                bits = [bool(b) for b in self.np.asarray(self.masks_before.get(int(m[1:]), self.masks[int(m[1:])])).reshape(-1).tolist()]
            else:
                bits = [b == "1" for b in m[1:]]
            sel = [s and b for s, b in zip(sel, bits)]
        if oe:
            # the property: only_empty means *actually empty* (unless the user overwrote the built-in layer)
            e = snap["actual"] if not self.tainted else snap["empty"]
            sel = [s and bool(b) for s, b in zip(sel, e)]
        for name, cmp, t in conds:
            arr = snap["layers"][snap["attached"][name]]
            sel = [s and CMP[cmp](x, int(t)) for s, x in zip(sel, arr)]
        for name, mode in exts:
            arr = snap["layers"][snap["attached"][name]]
            vals = [x for s, x in zip(sel, arr) if s]
            if not vals:
                sel = [False] * n
            else:
                t = max(vals) if mode == "hi" else min(vals)
                sel = [s and x == t for s, x in zip(sel, arr)]
        self.cmp_sel(w, out, self.cells, [c for c, s in zip(self.cells, sel) if s])

    masks_before = {}


def parse_header(line):
    w = line.split()
    assert w[0] == "scenario" and len(w) == 6, line
    # CAP: `0` = no capacity (None), `zero` = a capacity of 0 (repair SC3: it is a capacity), N = capacity N
    cap = None if w[3] == "0" else 0 if w[3] == "zero" else int(w[3])
    return w[1], parse_dims(w[2]), cap, w[4], w[5] == "1"


def run_impl(sc):
    kind, dims, cap, gridclass, torus = parse_header(sc.lines[0])
    impl = Impl(kind, dims, cap, gridclass if gridclass != "-" else "moore", torus)
    obs = ["ok"]
    try:
        for line in sc.lines[1:]:
            w = line.split()
            if w[0] == "select":
                # a saved mask that this very call overwrites must be evaluated with its old content
                impl.masks_before = dict(impl.masks)
            obs.append(impl.line(w))
    finally:
        # mesa keeps every Model that ever created an agent alive in the class-level dict Agent._ids;
        # drop our entry so that long campaigns do not accumulate gigabytes
        getattr(impl.M["Agent"], "_ids", {}).pop(impl.model, None)
    sc.meta["oracle"] = impl.bad
    sc.meta["oracle_for"] = sc.key()
    sc.meta["tainted"] = impl.tainted
    return obs


def oracle(sc, obs):
    if sc.meta.get("oracle_for") != sc.key():
        run_impl(sc)
    return list(sc.meta["oracle"])


# --------------------------------------------------------------------------------------
# generator


class Gen:
    """tracks just enough of the scenario to emit mostly-valid ops"""

    def __init__(self, R, kind=None, rejecting=False):
        self.R = R
        self.rejecting = rejecting
        self.kind = kind or R.choice(["new", "new", "single", "multi"])
        if self.kind == "new":
            nd = R.choice([1, 2, 2, 2, 2, 3])
            while True:
                self.dims = tuple(R.choice([1, 2, 2, 3, 3, 4]) for _ in range(nd))
                if len(all_cells(self.dims)) <= 48:
                    break
            self.cap = R.choice([None, None, None, 1, 2] * 4 + [0])
            self.gridclass = R.choice(["moore", "vonneumann", "hex"] if nd == 2 else ["moore", "vonneumann"])
            self.layers = [dict(name="empty", dtype="bool", dims=self.dims, att=True)]
        else:
            self.dims = (R.choice([1, 2, 3, 3, 4]), R.choice([1, 2, 3, 4]))
            self.cap = None
            self.gridclass = "-"
            self.layers = []
        self.torus = R.random() < 0.4
        self.cells = all_cells(self.dims)
        captok = "0" if self.cap is None else "zero" if self.cap == 0 else str(self.cap)
        self.lines = [f"scenario {self.kind} {'x'.join(map(str, self.dims))} {captok} {self.gridclass} {int(self.torus)}"]
        self.handles, self.saved, self.where = [], [], {}
        self.mask_handles = set()  # handles currently bound to the legacy grid's own mask
        self.muls = 0
        # names the cell class of the running code has (the generated table of the model): a layer may not take them
        self.all_clash = cell_klass_probe() if self.kind == "new" else []

    # helpers -------------------------------------------------------------------------
    def val(self, dtype):
        R = self.R
        if dtype == "bool":
            return R.choice([0, 1])
        if dtype == "int":
            return R.choice([-3, -1, 0, 0, 1, 1, 2, 2, 3, 5, 9])
        return R.choice([-6, -2, 0, 0, 1, 2, 2, 4, 4, 6, 10, 18])

    def tval(self, mul=False):
        """a typed Python scalar: bool, int or float (floats also off the integers: +-0.5, 2.75, ...)"""
        R = self.R
        k = R.choice("bbiiifff")
        if k == "b":
            return f"b:{R.choice([0, 1])}"
        if k == "i":
            return f"i:{R.choice([-3, -1, 0, 1, 2, 3, 5])}"
        if mul:
            return f"f:{4 * R.choice([-1, 0, 1, 2, 3])}"  # integral, so that products stay multiples of 1/4
        return f"f:{R.choice([-11, -6, -2, 0, 2, 4, 6, 10, 11, 16])}"

    def wval(self, dtype, p=0.3):
        """a written value: mostly a value of the layer's own dtype, sometimes a scalar of any type"""
        return self.tval() if self.R.random() < p else self.val(dtype)

    def coord(self, dims, oob=0.04):
        R = self.R
        if 0 in dims:
            return tuple(R.randrange(max(d, 1)) for d in dims)  # a layer without entries: every index is out of range
        if R.random() < oob:
            c = [R.randrange(d) for d in dims]
            i = R.randrange(len(dims))
            c[i] = dims[i] + R.choice([0, 1])
            return tuple(c)
        return tuple(R.randrange(d) for d in dims)

    def cond(self, dtype, none_ok=True):
        R = self.R
        if none_ok and R.random() < 0.4:
            return "-"
        if R.random() < 0.08:
            return "ufz"
        if dtype == "bool":
            return R.choice(["eq:1", "eq:0", "ne:1", "gt:0"])
        return f"{R.choice(list(CMP))}:{self.val(dtype)}"

    def attached_names(self):
        return [l["name"] for l in self.layers if l["att"]]

    def lid(self, prefer_user=True):
        R = self.R
        ids = list(range(len(self.layers)))
        if not ids:
            return None
        if getattr(self, "force_lid", None) is not None:
            return self.force_lid
        if self.kind == "new" and prefer_user and len(ids) > 1 and R.random() < 0.93:
            ids = ids[1:]
        if self.rejecting and R.random() < 0.1:
            return len(self.layers) + R.randrange(2)
        return R.choice(ids)

    def emit(self, line):
        self.lines.append(line)

    def clash_pool(self):
        """the six classic names, and (one time in three) any attribute name of the cell class"""
        if self.all_clash and self.R.random() < 0.34:
            return [self.R.choice(self.all_clash)]
        return list(CLASH_NAMES)

    # ops ------------------------------------------------------------------------------
    def op_create(self, force_name=None):
        R = self.R
        pool = list(GOOD_NAMES)
        r = R.random()
        bad = 0.45 if self.rejecting else 0.1
        if force_name is not None:
            name = force_name
        elif r < bad:
            name = R.choice(self.clash_pool() + ["empty"] + self.attached_names()[:2] if self.kind == "new"
                            else (self.attached_names() or pool))
        else:
            free = [n for n in pool if n not in self.attached_names()]
            name = R.choice(free or pool)
        # the grid itself writes raw True/False into whatever layer is called "empty": with the 1/4 encoding
        # of float layers that would not be the model's 1/0, so a user-made "empty" layer is bool or int
        dt = R.choice(DTYPES if name != "empty" else DTYPES[:2])
        d = self.wval(dt, 0.25)  # a default of another Python type only draws a UserWarning: np.full casts it
        if R.random() < (0.3 if self.rejecting else 0.25):
            # free-standing layer, possibly mis-shaped, attached later
            if R.random() < (0.5 if self.rejecting else 0.2):
                dims = list(self.dims)
                i = R.randrange(len(dims))
                dims[i] = dims[i] + 1
                if R.random() < 0.2:
                    dims = dims[::-1]
            else:
                dims = self.dims
            if force_name is None and R.random() < (0.2 if self.rejecting else 0.1):
                # a layer without entries: a zero dimension (new: accepted by np.full, and np.vectorize — conditions,
                # Python functions — then refuses it; legacy: the constructor refuses)
                dims = list(dims)
                dims[R.randrange(len(dims))] = 0
                self.emit(f"new {name} {'x'.join(map(str, dims))} {dt} {d}")
                if self.kind == "new":
                    self.layers.append(dict(name=name, dtype=dt, dims=tuple(dims), att=False))
                    self.force_lid = len(self.layers) - 1
                    for f in R.sample([self.op_setcells, self.op_setcells, self.op_modify, self.op_modify, self.op_modify,
                                       self.op_read, self.op_read, self.op_cell2, self.op_handle, self.op_lset],
                                      R.randrange(2, 6)):
                        f()
                    self.force_lid = None
                return
            self.emit(f"new {name} {'x'.join(map(str, dims))} {dt} {d}")
            self.layers.append(dict(name=name, dtype=dt, dims=tuple(dims), att=False))
            return
        self.emit(f"create {name} {dt} {d}")
        ok = name not in self.attached_names() and not (self.kind == "new" and (name in self.all_clash))
        if ok:
            self.layers.append(dict(name=name, dtype=dt, dims=self.dims, att=True))

    def op_gset(self):
        """grid.NAME = <object>: refused while a layer of that name is attached; before that it shadows the layer"""
        R = self.R
        names = self.attached_names()
        if names and R.random() < 0.6:
            name = R.choice(names)
        else:
            name = R.choice(GOOD_NAMES)
        self.emit(f"gset {name}")
        if self.kind == "new" and name not in names and R.random() < 0.5:
            # the code's own caveat: an attribute given to the grid before the layer exists is not protected
            self.op_create(force_name=name)
            self.emit(f"dumpn {name}")
            self.emit(f"cget {name} {fmt_coord(self.coord(self.dims, oob=0))}")

    def op_attach(self):
        cands = [i for i, l in enumerate(self.layers) if not l["att"]]
        if not cands or (self.rejecting and self.R.random() < 0.3):
            cands = list(range(len(self.layers)))
        if not cands:
            return self.op_create()
        i = self.R.choice(cands)
        l = self.layers[i]
        self.emit(f"attach {i}")
        if (not l["att"] and l["dims"] == self.dims and l["name"] not in self.attached_names()
                and not (self.kind == "new" and l["name"] in self.all_clash)):
            l["att"] = True

    def op_detach(self):
        R = self.R
        names = [n for n in self.attached_names() if n != "empty" or R.random() < 0.05]
        if not names or R.random() < (0.4 if self.rejecting else 0.08):
            name = R.choice(["zz", "a", "b"])
        else:
            name = R.choice(names)
        self.emit(f"detach {name}")
        for l in self.layers:
            if l["att"] and l["name"] == name:
                l["att"] = False

    def op_lset(self):
        i = self.lid()
        if i is None:
            return self.op_create()
        l = self.layers[i] if i < len(self.layers) else dict(dims=self.dims, dtype="int")
        self.emit(f"lset {i} {fmt_coord(self.coord(l['dims'], 0.15 if self.rejecting else 0.04))} {self.wval(l['dtype'])}")

    def op_lget(self):
        i = self.lid(prefer_user=False)
        if i is None:
            return self.op_create()
        l = self.layers[i] if i < len(self.layers) else dict(dims=self.dims)
        self.emit(f"lget {i} {fmt_coord(self.coord(l['dims']))}")

    def name_for_cell(self):
        R = self.R
        names = self.attached_names()
        r = R.random()
        if names and r < 0.85:
            n = R.choice(names)
            if n == "empty" and R.random() < 0.8:
                n = R.choice(names)
            return n
        if r < 0.93:
            return R.choice(GOOD_NAMES)
        return R.choice(self.clash_pool())

    def dtype_of_name(self, name):
        for l in self.layers:
            if l["att"] and l["name"] == name:
                return l["dtype"]
        return "int"

    def op_cset(self):
        n = self.name_for_cell()
        # (the grid writes raw True/False into whatever is called "empty": keep typed scalars away from it)
        v = self.wval(self.dtype_of_name(n)) if n != "empty" else self.val(self.dtype_of_name(n))
        self.emit(f"cset {n} {fmt_coord(self.coord(self.dims, 0.12 if self.rejecting else 0.04))} {v}")

    def op_cget(self):
        self.emit(f"cget {self.name_for_cell()} {fmt_coord(self.coord(self.dims))}")

    def op_cell2(self):
        """read / write a layer through the cells of a second grid it is added to as well"""
        i = self.lid()
        if i is None or self.kind != "new":
            return self.op_cset()
        l = self.layers[i] if i < len(self.layers) else dict(dims=self.dims, dtype="int")
        c = fmt_coord(self.coord(l["dims"], 0.1 if self.rejecting else 0.03))
        if self.R.random() < 0.5:
            self.emit(f"cget2 {i} {c}")
        else:
            self.emit(f"cset2 {i} {c} {self.wval(l['dtype'])}")

    def op_setcells(self):
        i = self.lid()
        if i is None:
            return self.op_create()
        dt = self.layers[i]["dtype"] if i < len(self.layers) else "int"
        self.emit(f"setcells {i} {self.wval(dt, 0.3)} {self.cond(dt)}")

    def oper(self, dt):
        R = self.R
        kind = R.choice(["ufunc", "fn"])
        if R.random() < (0.3 if self.rejecting else 0.06):
            return f"ufunc {R.choice(['add', 'neg', 'not', 'max'])} none"
        if dt == "bool":
            op = R.choice(["and", "or", "xor", "not"])
            if op == "not":
                return "fn not none"
            return f"{kind} {op} {R.choice([0, 1])}"
        op = R.choice(["add", "add", "sub", "mul", "max", "min", "neg"])
        if op == "neg":
            return "fn neg none"
        if op == "mul":
            if self.muls >= 6:
                op = "add"
            else:
                self.muls += 1
                return f"{kind} mul {R.choice([-1, 0, 1, 2, 2, 3])}"
        return f"{kind} {op} {self.val(dt)}"

    def op_shift(self):
        """lift a numeric layer to magnitude 10^7 (once): its values now differ by a few units in 10^7 — exact, but
        close enough for any tolerance-based comparison to confuse them (near ties for the extreme values)"""
        cands = [i for i, l in enumerate(self.layers) if l["dtype"] != "bool" and not l.get("shifted")
                 and not (self.kind == "new" and i == 0)]
        if not cands:
            return self.op_modify()
        i = self.R.choice(cands)
        l = self.layers[i]
        l["shifted"] = True
        self.emit(f"modify {i} ufunc add {10000000 * (UNIT if l['dtype'] == 'float' else 1)} -")

    def op_setfrom(self):
        """set_cells with an array value: a held array of the same shape, conditionally or not"""
        R = self.R
        if not self.handles:
            return self.op_handle()
        h, dims, hdt = R.choice(self.handles)
        same = [i for i, l in enumerate(self.layers) if tuple(l["dims"]) == tuple(dims) and not (self.kind == "new" and i == 0)]
        i = R.choice(same) if same and R.random() < 0.9 else self.lid()
        if i is None:
            return self.op_create()
        dt = self.layers[i]["dtype"] if i < len(self.layers) else "int"
        self.emit(f"setfrom {i} {h} {self.cond(dt)}")

    def op_modify(self):
        R = self.R
        i = self.lid()
        if i is None:
            return self.op_create()
        dt = self.layers[i]["dtype"] if i < len(self.layers) else "int"
        if R.random() < 0.35 and not (self.kind == "new" and i == 0):
            # a typed operand: numpy's result type decides the dtype of the re-pointed layer
            op = R.choice(["add", "add", "sub", "mul", "max", "min", "and", "or", "xor"])
            kind = "ufunc" if op in ("max", "min") else R.choice(["ufunc", "fn"])
            if op == "mul":
                if self.muls >= 6:
                    op = "add"
                else:
                    self.muls += 1
            tok = self.tval(mul=(op == "mul"))
            cond = self.cond(dt)
            self.emit(f"modify {i} {kind} {op} {tok} {cond}")
            refused = i < len(self.layers) and 0 in self.layers[i]["dims"] and (kind == "fn" or cond != "-")
            if i < len(self.layers) and not refused:  # (np.vectorize refuses a layer without entries: no new dtype)
                nd = spec_result_dtype(op, dt, tok)
                if nd is not None:
                    self.layers[i]["dtype"] = nd
            return
        self.emit(f"modify {i} {self.oper(dt)} {self.cond(dt)}")

    def op_modcell(self):
        if self.kind == "new":
            return self.op_modify()
        i = self.lid()
        if i is None:
            return self.op_create()
        l = self.layers[i] if i < len(self.layers) else dict(dims=self.dims, dtype="int")
        R = self.R
        if R.random() < 0.35:
            op = R.choice(["add", "add", "sub", "mul", "max", "min", "and", "or", "xor"])
            oper = f"{R.choice(['ufunc', 'fn'])} {op} {self.tval(mul=(op == 'mul'))}"
        else:
            oper = self.oper(l["dtype"])
        self.emit(f"modcell {i} {fmt_coord(self.coord(l['dims'], 0.12 if self.rejecting else 0.04))} {oper}")

    def op_handle(self):
        R = self.R
        if self.handles and self.kind == "new" and R.random() < 0.2:
            # PropertyLayer.from_data(name, <a held array>): a free-standing layer holding a copy
            h, dims, dt = R.choice(self.handles)
            name = R.choice(GOOD_NAMES)
            self.emit(f"fromdata {name} {h}")
            if 0 not in dims:  # (from_data of an array without entries: IndexError, no layer)
                self.layers.append(dict(name=name, dtype=dt, dims=tuple(dims), att=False))
            return
        if self.kind != "new" and self.handles and R.random() < 0.1:
            # legacy `layer.data = <held array>`: two layers may now share one array; follow up with writes through either
            h, dims, hdt = R.choice(self.handles)
            cands = [i for i, l in enumerate(self.layers) if tuple(l["dims"]) == tuple(dims)]
            i = R.choice(cands) if cands and R.random() < 0.9 else self.lid()
            if i is None:
                return self.op_create()
            self.emit(f"rebind {i} {h}")
            if i < len(self.layers) and tuple(self.layers[i]["dims"]) == tuple(dims) and (h, "mask") not in self.mask_handles:
                self.layers[i]["dtype"] = hdt
            return
        if not self.handles or R.random() < 0.35:
            h = R.randrange(3)
            if self.kind != "new" and R.random() < 0.25:
                # legacy: a reference to grid.empty_mask (the live array): reads through it follow the agents
                self.emit(f"grabmask {h}")
                self.handles = [x for x in self.handles if x[0] != h] + [(h, self.dims, "bool")]
                self.mask_handles.add((h, "mask"))
                return
            i = 0 if (self.kind == "new" and R.random() < 0.12) else self.lid()
            if i is None:
                return self.op_create()
            self.mask_handles.discard((h, "mask"))
            self.emit(f"grab {h} {i}")
            if i < len(self.layers):
                self.handles = [x for x in self.handles if x[0] != h] + [(h, self.layers[i]["dims"], self.layers[i]["dtype"])]
            return
        h, dims, dt = R.choice(self.handles)
        if self.rejecting and R.random() < 0.1:
            h = 7
        r = R.random()
        if r < 0.4:
            self.emit(f"hget {h} {fmt_coord(self.coord(dims))}")
        elif r < 0.75:
            self.emit(f"hset {h} {fmt_coord(self.coord(dims))} {self.wval(dt)}")
        else:
            self.emit(f"hdump {h}")

    def op_read(self):
        R = self.R
        r = R.random()
        i = self.lid(prefer_user=False)
        names = self.attached_names()
        if r < 0.3 and i is not None:
            self.emit(f"dump {i}")
        elif r < 0.55 and (names or True):
            self.emit(f"dumpn {R.choice(names + ['zz'] if R.random() < 0.1 or not names else names)}")
        elif r < 0.62 and i is not None:
            self.emit(f"dtype {i}")
        elif r < 0.8 and i is not None and i < len(self.layers):
            self.emit(f"lsel {i} {self.cond(self.layers[i]['dtype'], none_ok=False)}")
        elif i is not None and i < len(self.layers):
            self.emit(f"agg {i} {R.choice(['sum', 'max', 'min'])}")
        else:
            self.emit("empties")

    def op_agent(self):
        R = self.R
        a = R.randrange(5)
        r = R.random()
        if a not in self.where:
            if self.rejecting and r < 0.15:
                return self.emit(f"remove {a}")
            c = self.coord(self.dims, 0.1 if self.rejecting else 0.03)
            self.emit(f"place {a} {fmt_coord(c)}")
            if self.accepts(a, c):
                self.where[a] = c
        elif r < 0.6:
            c = self.coord(self.dims, 0.1 if self.rejecting else 0.03)
            self.emit(f"move {a} {fmt_coord(c)}")
            if self.accepts(a, c):
                self.where[a] = c
        elif r < 0.92:
            self.emit(f"remove {a}")
            del self.where[a]
        else:
            self.emit(f"place {a} {fmt_coord(self.coord(self.dims))}")  # rejected: already placed

    def accepts(self, a, c):
        if any(x >= d for x, d in zip(c, self.dims)):
            return False
        others = sum(1 for b, p in self.where.items() if p == c and b != a)
        if self.kind == "single":
            return others == 0
        if self.kind == "new" and self.cap is not None:
            return others < self.cap
        return True

    def op_empties(self):
        self.emit("empties")

    def op_nbmask(self):
        """get_neighborhood_mask kept as a saved mask (later selections combine it with the other filters)"""
        R = self.R
        k = R.randrange(3)
        c = self.coord(self.dims, 0.1 if self.rejecting else 0.03)
        r = R.choice([1, 1, 1, 2, 2, 3]) if R.random() > (0.15 if self.rejecting else 0.03) else 0
        ic = R.choice([0, 1])
        line = f"nbmask {k} {fmt_coord(c)} {ic} {r}"
        if self.kind != "new":
            line += " " + R.choice(["moore", "vn"])
        self.emit(line)
        ok = all(x < d for x, d in zip(c, self.dims)) and not (self.kind == "new" and (self.gridclass == "hex" or r == 0))
        if ok and k not in self.saved:
            self.saved.append(k)

    def op_select(self, combo=None):
        R = self.R
        if combo is None:
            combo = R.randrange(16)
        names = [l["name"] for l in self.layers if l["att"] and l["name"] != "empty"]
        if self.kind == "new" and R.random() < 0.1:
            names = names + ["empty"]
        conds, exts, masks = [], [], []
        if combo & 1:
            pool = list(names)
            R.shuffle(pool)
            for n in pool[: R.choice([1, 1, 2])]:
                conds.append(f"{n}:{self.cond(self.dtype_of_name(n), none_ok=False).replace('ufz', 'eq:0')}")
            if (not conds or R.random() < (0.2 if self.rejecting else 0.03)):
                conds.append(f"zz:gt:0")
        if combo & 2:
            for _ in range(R.choice([1, 1, 2])):
                if self.saved and R.random() < 0.4:
                    masks.append(f"s{R.choice(self.saved)}")
                else:
                    p = R.choice([0.3, 0.6, 0.9])
                    masks.append("l" + "".join("1" if R.random() < p else "0" for _ in self.cells))
            if self.rejecting and R.random() < 0.1:
                masks.append("s9")
        if combo & 8:
            pool = list(names)
            R.shuffle(pool)
            for n in pool[: R.choice([1, 1, 2, 2])]:
                exts.append(f"{n}:{R.choice(['hi', 'lo'])}")
            if not exts or R.random() < (0.2 if self.rejecting else 0.03):
                exts.append(R.choice(["zz:hi", (names or ["zz"])[0] + ":bad"]))
            seen = set()
            exts = [e for e in exts if not (e.split(":")[0] in seen or seen.add(e.split(":")[0]))]
        oe = 1 if combo & 4 else 0
        save = "-"
        if R.random() < 0.25:
            k = R.randrange(3)
            save = str(k)
        self.emit(f"select oe={oe} conds={','.join(conds) or '-'} ext={','.join(exts) or '-'} masks={','.join(masks) or '-'} save={save}")
        if save != "-" and not any(x.startswith("zz") or x.endswith(":bad") for x in conds + exts) and "s9" not in masks:
            if not (oe and self.kind == "new" and "empty" not in self.attached_names()):
                if int(save) not in self.saved:
                    self.saved.append(int(save))


def gen_scenario(R, kind=None, rejecting=False, n_ops=None):
    g = Gen(R, kind, rejecting)
    for _ in range(R.choice([1, 2, 2, 3])):
        g.op_create()
    # set up some structure in the values so that conditions / ties / extremes bite
    for _ in range(R.randrange(0, 6)):
        R.choice([g.op_lset, g.op_cset, g.op_setcells])()
    table = [
        (g.op_create, 4), (g.op_attach, 4), (g.op_detach, 4), (g.op_lset, 8), (g.op_lget, 4), (g.op_cset, 9),
        (g.op_cget, 7), (g.op_setcells, 8), (g.op_modify, 10), (g.op_modcell, 3), (g.op_handle, 8), (g.op_read, 7),
        (g.op_agent, 14), (g.op_empties, 3), (g.op_select, 14), (g.op_nbmask, 4), (g.op_cell2, 4), (g.op_shift, 2), (g.op_setfrom, 5),
        (g.op_gset, 2),
    ]
    if rejecting:
        table = [(f, w * (3 if f in (g.op_create, g.op_attach, g.op_detach) else 1)) for f, w in table]
    fns, weights = zip(*table)
    for _ in range(n_ops or R.randrange(8, 36)):
        R.choices(fns, weights)[0]()
    # finish with a full read-out: every layer, the emptiness views and one selection per only_empty value
    for i in range(len(g.layers)):
        g.emit(f"dump {i}")
    g.emit("empties")
    g.op_select(combo=R.choice([4, 5, 6, 12, 13, 15]))
    return core.Scenario(g.lines, {})


def tags(sc, obs):
    w0 = sc.lines[0].split()
    yield "impl:" + w0[1]
    if w0[1] == "new":
        yield "capacity:" + ("none" if w0[3] == "0" else w0[3])
    yield "ndim:" + str(len(w0[2].split("x")))
    seen = set()
    zero = set()  # ids of layers without entries
    eref = set()  # handles that (at the time they were taken) alias the emptiness array
    rebound = False
    for l, o in zip(sc.lines[1:], obs[1:]):
        w = l.split()
        t = ["op:" + w[0]]
        if w[0] in ("grab", "grabmask") and o.startswith("ok"):
            if w[0] == "grabmask" or (w0[1] == "new" and w[2] == "0"):
                eref.add(w[1])
                t.append("emptiness-ref:taken:" + w[0])
            else:
                eref.discard(w[1])
        if w[0] == "rebind":
            t.append("rebind:" + ("ok" if o.startswith("ok") else o[4:].replace(" ", "-")))
            if o.startswith("ok"):
                rebound = True
        if rebound and w[0] in ("lset", "cset", "setcells", "setfrom", "modcell", "modify") and o.startswith("ok"):
            t.append("after-rebind:" + w[0])
        if w[0] in ("hget", "hdump", "hset") and w[1] in eref and o.startswith("ok"):
            t.append("emptiness-ref:" + ("write" if w[0] == "hset" else "read"))
        if w[0] == "new" and "0" in w[2].split("x"):
            t.append("size0:new:" + ("ok" if o.startswith("ok") else "refused"))
            if o.startswith("ok id="):
                zero.add(o.split("=")[1])
        if w[0] in ("setcells", "setfrom", "modify", "lsel", "agg", "cset2", "cget2", "attach", "dump", "lset", "lget", "grab") \
                and (w[2] if w[0] == "grab" else w[1]) in zero:
            how = ("ok" if o.startswith("ok") else o[4:].replace(" ", "-"))
            form = ""
            if w[0] == "modify":
                form = ":" + w[2] + (":cond" if w[5] != "-" else "")
            elif w[0] in ("setcells", "setfrom"):
                form = ":cond" if w[3] != "-" else ""
            t.append(f"size0:{w[0]}{form}:{how}")
        if o.startswith("err"):
            t.append("reject:" + w[0] + ":" + o[4:].replace(" ", "-"))
        if w[0] == "select" and o.startswith("ok"):
            kv = dict(x.split("=", 1) for x in w[1:])
            combo = "".join(c if kv[k] not in ("-", "0") else "." for c, k in (("C", "conds"), ("M", "masks"), ("E", "oe"), ("X", "ext")))
            t.append("select:" + combo)
            lst = o.split("list=")[1].split(" ")[0]
            bits = o.split("mask=")[1]
            if kv["ext"] != "-" and lst.count(";") >= 1:
                t.append("select:extreme-tie")
            t.append("select-result:" + ("none" if not lst else "all" if "0" not in bits else "proper-subset"))
        if w[0] in ("create", "new") and o.startswith("ok"):
            t.append("dtype:" + w[-2])
        if w[0] == "select" and o.startswith("ok") and any(m.startswith("s") for m in dict(x.split("=", 1) for x in w[1:])["masks"].split(",")):
            t.append("select:with-saved-mask")
        if w[0] == "setfrom" and o.startswith("ok"):
            t.append("setfrom" + (":cond" if w[3] != "-" else ""))
        if w[0] == "modify" and o.startswith("ok") and w[4].lstrip("-").isdigit() and abs(int(w[4])) >= 10000000:
            t.append("modify:shift-to-1e7")
        if w[0] == "nbmask" and o.startswith("ok"):
            t.append("nbmask:r" + w[4] + (":center" if w[3] == "1" else ""))
        if w[0] == "modcell" and o.startswith("ok") and is_typed(w[5]):
            t.append("modcell:typed-" + w[5][0])
        if w[0] == "modify" and o.startswith("ok"):
            t.append("modify:" + w[2] + (":cond" if w[5] != "-" else "") + (":typed-" + w[4][0] if is_typed(w[4]) else ""))
        if w[0] == "setcells" and o.startswith("ok"):
            t.append("setcells" + (":cond" if w[3] != "-" else "") + (":typed-" + w[2][0] if is_typed(w[2]) else ""))
        if w[0] in ("lset", "cset", "hset") and o.startswith("ok") and is_typed(w[3]):
            t.append(f"typed-write:{w[0]}:{w[3][0]}")
        if w[0] == "dtype" and o.startswith("ok"):
            t.append("dtype-read:" + o.split("=")[1])
        for x in t:
            if x not in seen:
                seen.add(x)
                yield x
    if sc.meta.get("tainted"):
        yield "branch:user-wrote-empty-layer"


def nontrivial(sc, obs):
    ops = [l.split()[0] for l, o in zip(sc.lines, obs) if o.startswith("ok")]
    writes = sum(1 for k in ops if k in ("lset", "cset", "cset2", "setcells", "modify", "modcell", "hset", "place", "move", "remove", "fromdata", "setfrom"))
    reads = sum(1 for k in ops if k in ("cget", "cget2", "lget", "select", "hget", "dumpn"))
    return writes >= 2 and reads >= 1
