"""C17 — a Computable is never stale and recomputes only when an input changed."""
from . import core, signals_comp as C

PROP = "C17"
DRIVER = "drv_signals"
LEAN_MODULES = ["MesaModel.Props.C17"]
THEOREMS = ["Mesa.Computed." + t for t in (
    "C17_no_stale_partial", "C17_define_fresh", "C17_raise_is_fresh", "C17_den_deterministic", "C17_clean_is_fresh",
    "C17_failed_is_dirty", "C17_remembers_exactly_last_reads",
    "C17_minimal", "C17_minimal_partial", "C17_read_leaves_clean_and_later_untouched", "C17_cached_read_is_free", "C17_cycle_rejected", "C17_cycle_never_returns",
    "C17_cycle_rejected_direct", "C17_cycle_record_per_evaluation", "C17_cycle_through_computable_rejected",
    "C17_sources_are_the_dependencies")]
COUNTS = {"quick": 1500, "thorough": 150000}
EXHAUSTIVE = {"thorough": True}
TRUSTED = [
    "a Computed's function is a read tree (what it returns - or that it raises - depends only on the Observables / Computables "
    "it reads, in the order it reads them); arbitrary Python side effects of such functions, and functions that catch the "
    "exception of a Computable they read, are not modelled (only assignments to Observables)",
    "CPython dict / WeakKeyDictionary iteration order (insertion order) for the remembered parents",
    "CPython weakref: user handlers die when the harness drops its last strong reference; owners and Computeds stay alive "
    "for the whole scenario (garbage collection of owners is not modelled)",
    "every Observable is assigned (0) before it is read; values are ints or None",
]
ASSUMPTIONS = [
    "Computed functions terminate and Computables are defined before they are read (a function reads only Computables defined earlier)",
    "user handlers do not subscribe / unsubscribe / assign while being notified; a handler subscribed to an Observable may read Computables (G7 repaired), a handler subscribed to a Computable is passive",
]
RULE = ("random dependency structures: 1-2 owners, 2-4 Observables with values {0,1,2,1000,1001,None}, 1-3 Computables whose functions (returning small ints or None) are "
        "random read trees of depth <= 3 that branch on what they read (so the set of Observables read switches), read earlier "
        "Computables (chains), raise on some branches (2/12 of the scenarios) and - in 1/12 of the scenarios - assign Observables; 8-30 ops (going on after an operation raised) from assign (incl. restoring "
        "values), read, late definitions, user handlers observing Observables and Computables (in 1/10 of the scenarios the "
        "handlers read Computables while notified); 4% directed raise scenarios (reads after a failed evaluation, through a chain, two owners with the read order of finding G12); 4% directed cycle scenarios: a function reads x, then in any order assigns "
        "other Observables, reads a (chain of) Computable(s) that recompute at that moment, reads; then assigns x; a function reads a Computable that is served from its cache / "
        "re-validated without running and then assigns an Observable that one depends on (finding G15) or does not depend on - and "
        "assignments that are no cycle although an earlier evaluation read the key; non-trivial = at least two evaluations after the definitions and at "
        "least one read served from the cache")


def generate(rng, tier, count):
    for _ in range(count):
        yield C.gen_comp_scenario(rng)


def run_impl(sc):
    return C.run_gc_witness(sc) if sc.lines[0] == C.GC_WITNESS[0] else C.run_comp(sc)


def _pending_open():
    """open findings of the fragment known_findings.d/C17.txt that the merged known_findings.txt (rewritten by
    tools/mkmanifest.py at integration; core reads only that file) does not list yet: until then their clauses are kept
    out of the failures here (the tag `known:G16-…` still counts them); afterwards core's KNOWN path handles them"""
    import os
    import re

    def ids(path):
        if not os.path.exists(path):
            return set()
        return {m.group(1) for l in open(path) if (m := re.match(r"open: property=C17 (\S+) ", l))}

    return ids(os.path.join(core.VERIF, "known_findings.d", "C17.txt")) - ids(os.path.join(core.VERIF, "known_findings.txt"))


_PENDING = None


def oracle(sc, obs):
    global _PENDING
    if _PENDING is None:
        _PENDING = _pending_open()
    cls = C.oracle_gc_witness(sc, obs) if sc.lines[0] == C.GC_WITNESS[0] else C.oracle_comp(sc, obs)
    return [c for c in cls if not any(KNOWN[i]["matches"](sc, c) for i in _PENDING if i in KNOWN)]


tags = C.tags_comp


def nontrivial(sc, obs):
    t = list(C.tags_comp(sc, obs))
    evs = sum(1 for e in (sc.meta.get("trace") or []) if e[0] == "eval-start")
    ndef = sum(1 for l in sc.lines if l.startswith("define"))
    return evs >= ndef + 2 and "branch:read-served-from-cache" in t


def _has_progs(sc):
    return any(C.parse_header(sc.lines[0])[1].values())


# open findings (known_findings.d/C17.txt).  G16: the clause is only given to a value served without running the function, on
# remembered values that are no longer the present ones, in a scenario in which a function other than the one read at top
# level has assigned an Observable (inside another function or inside a dirty pre-check); G17: only the witness (owners'
# deaths are not generated: they are not in the model)
KNOWN = {
    "G16": {"scenario": C.G16_WITNESS, "matches": lambda sc, clause: clause.startswith("stale-after-nested-write:")},
    "G17": {"scenario": C.GC_WITNESS, "matches": lambda sc, clause: clause.startswith("stale-after-owner-collected:")},
}


def extra(ctx):
    """thorough: exhaustive small scope — all 200 depth-2 trees over two Observables (plus a chained Computable) x all
    6^4 sequences of assignments / reads: implementation vs model vs oracle"""
    if ctx.tier != "thorough":
        return
    import multiprocessing as mp

    trees = list(C.exhaustive_trees())
    step = 5
    jobs = [(trees, i, min(i + step, len(trees))) for i in range(0, len(trees), step)]
    n = bad = 0
    first = None
    with mp.get_context("fork").Pool(16) as pool:
        for res in pool.imap_unordered(C.exhaustive_chunk, jobs):
            scs = [core.Scenario(l, {}) for l, _, _ in res]
            mobs = core.model_obs(DRIVER, scs)
            for (lines, obs, cl), mo in zip(res, mobs):
                n += 1
                if obs != mo or cl:
                    bad += 1
                    first = first or (lines, obs, mo, cl)
    ctx.cov["exhaustive_scenarios"] = n
    ctx.cov["exhaustive_rule"] = "200 trees x 1296 op sequences, chain c1 -> c0"
    if first:
        lines, obs, mo, cl = first
        ctx.violation("exhaustive", {"kind": "impl-counterexample" if cl else "no-failing-input", "ops": lines,
                                     "impl_observations": obs, "model_observations": mo, "oracle_clause": cl,
                                     "failing": bad}, no_input=not cl)


if __name__ == "__main__":
    import sys
    core.main(sys.modules[__name__])
