"""C15 — ABMSimulator steps once per tick; chunking a run never changes it."""
from . import core, devs_common as D

PROP = "C15"
DRIVER = "drv_devs"
LEAN_MODULES = ["MesaModel.Props.C15"]
THEOREMS = ["Mesa.Devs." + t for t in (
    "C15_chunking", "C15_fuel_irrelevant", "C15_abm_steps_eq_clock", "C15_step_once_per_tick",
    "C15_step_always_armed", "C15_step_before_lower_priority", "C15_abm_steps_track_clock")]
COUNTS = {"quick": 500, "thorough": 150000}
TRUSTED = [
    "CPython heapq pop-min; refcount weakref death; exact dyadic time arithmetic (see C14)",
    "Model._wrapped_step increments model.steps before the user's step body (property C05)",
    "the user's step body is a command list; the solara front end's own threading is not modelled (it calls run_for(1) pieces, which are)",
]
ASSUMPTIONS = ["event programs terminate; horizons are not before the clock",
               "no user event is scheduled with model.step itself as its callable (it would be re-armed as a second step stream)"]
RULE = ("two streams: (a) chunking — programs + up-front events, then a random partition of [now, T] into run_until / run_for / "
        "run_next_event pieces that stay within T, then run_until(T); the oracle re-runs the same program on the implementation in ONE "
        "piece and compares the whole trace, clock and steps; (b) mixed ABM histories with the steps==clock clause. non-trivial = the "
        "partition has >= 2 pieces and >= 2 events executed; distinct by sha1 of the op lines")


def gen_chunk(R):
    kind = R.choice(["abm", "abm", "devs"])
    base = D.gen_scenario(R, kind=kind, n_ops=0)
    lines = list(base.lines)
    impl = D.Impl(kind, float_ticks=base.meta["float_ticks"])
    for l in lines[1:]:
        impl.line(l.split())
    nact = sum(1 for l in lines if l.startswith("prog "))
    times = [0, 1024, 2048, 3072, 4096, 1024, 2048] if kind == "abm" else [0, 512, 1024, 1536, 2048, 100, 3000, 1024]
    # sometimes a long queue (a dozen or more pending events): pushing the not-yet-due head back must keep the order
    for _ in range(R.randrange(0, 7) if R.random() < 0.7 else R.randrange(10, 30)):
        l = f"abs {R.choice(times)} {R.choice(D.PRIOS)} {R.randrange(nact)}"
        impl.line(l.split())
        lines.append(l)
    T = R.choice([1024, 2048, 3072, 4096, 5120]) if kind == "abm" else R.choice([512, 1024, 2048, 3000, 4096])
    n_setup = len(lines)
    for _ in range(R.randrange(0, 7) if R.random() < 0.8 else R.randrange(6, 14)):
        now = impl.now()
        k = R.random()
        if k < 0.35:
            step = R.choice([0, 1024, 1024, 2048] if kind == "abm" else [0, 100, 512, 1024])
            if now + step > T:
                continue
            l = f"until {now + step}"
        elif k < 0.65:
            d = R.choice([0, 1024, 1024, 2048] if kind == "abm" else [0, 1, 512, 1024])
            if now + d > T:
                continue
            l = f"for {d}"
        else:
            try:
                nxt = impl.sim.event_list.peak_ahead(1)
            except IndexError:
                nxt = []
            if nxt and nxt[0].time * D.UNIT > T:
                continue
            l = "next"
        impl.line(l.split())
        lines.append(l)
    lines.append(f"until {T}")
    meta = dict(base.meta)
    meta.update(chunk=True, n_setup=n_setup, T=T)
    return core.Scenario(lines, meta)


def generate(rng, tier, count):
    for i in range(count):
        if i % 3 != 2:
            yield gen_chunk(rng)
        elif i % 4 == 1:
            yield D.gen_shared(rng)
        else:
            yield D.gen_scenario(rng, kind="abm", run_weight=1.2)


run_impl = D.run_impl
gen_tables = D.gen_tables


def _exec_trace(sc):
    return [e[1:] for e in sc.meta.get("trace", []) if e[0] == "exec"]


def oracle(sc, obs):
    bad = D.oracle(sc, obs, abm_clauses=True)
    if sc.meta.get("chunk"):
        one = core.Scenario(sc.lines[: sc.meta["n_setup"]] + [sc.lines[-1]], {"float_ticks": sc.meta.get("float_ticks")})
        oobs = D.run_impl(one)
        if _exec_trace(one) != _exec_trace(sc):
            bad.append(f"chunk-trace: pieces executed {_exec_trace(sc)}, one piece executed {_exec_trace(one)}")
        fin = lambda o: " ".join(o[-1].split()[:3])  # noqa: E731  ok now=.. steps=..
        if fin(oobs) != fin(obs):
            bad.append(f"chunk-final: pieces end with '{fin(obs)}', one piece with '{fin(oobs)}'")
    return bad


def nontrivial(sc, obs):
    runs = [o for l, o in zip(sc.lines, obs) if l.split()[0] in ("until", "for", "next")]
    return len(runs) >= 2 and sum(o.count("@") for o in runs) >= 2


def tags(sc, obs):
    yield "kind:" + sc.lines[0].split()[1]
    yield "stream:" + ("chunking" if sc.meta.get("chunk") else "mixed-abm")
    for l in sc.lines:
        w = l.split()[0]
        if w in ("until", "for", "next", "stepprog"):
            yield "op:" + w
    if sc.meta.get("chunk"):
        yield f"pieces:{len(sc.lines) - sc.meta['n_setup'] - 1}"
