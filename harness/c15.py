"""C15 — ABMSimulator steps once per tick; chunking a run never changes it."""
from . import core, devs_common as D

PROP = "C15"
DRIVER = "drv_devs"
LEAN_MODULES = ["MesaModel.Props.C15", "MesaModel.Props.C14Life"]
THEOREMS = ["Mesa.Devs." + t for t in (
    "C15_chunking", "C15_fuel_irrelevant", "C15_abm_steps_eq_clock", "C15_step_once_per_tick",
    "C15_step_always_armed", "C15_step_before_lower_priority", "C15_abm_steps_track_clock",
    "C15_interrupted_run_resumed", "C15_normal_run_is_uninterrupted_run", "C15_chunking_with_exceptions",
    "C15_abm_steps_eq_clock_after_resume", "C15_uninterrupted_run_is_resumed_run", "C15_uninterrupted_run_fuel_irrelevant",
    "C15_resumed_in_pieces_eq_resumed_in_one_piece", "C15_chunking_with_exceptions_progress",
    "C15_life_abm_step_invariant", "C15_life_steps_track_clock", "C15_life_abm_second_setup_refused")]
COUNTS = {"quick": 540, "thorough": 162000}
TRUSTED = [
    "CPython heapq pop-min; refcount weakref death; exact dyadic time arithmetic (see C14)",
    "Model._wrapped_step increments model.steps before the user's step body (property C05)",
    "exceptions: IndexError / ValueError / KeyError raised by a callable or by the step body reach the caller of the run method, who catches them and goes on; an exception object stored by user code (which would keep callables alive through its traceback) is not modelled",
    "the user's step body is a command list; the solara front end's own threading is not modelled (it calls run_for(1) pieces, which are)",
]
ASSUMPTIONS = ["event programs terminate; horizons are not before the clock",
               "no user event is scheduled with model.step itself as its callable (it would be re-armed as a second step stream)"]
RULE = ("two streams: (a) chunking — programs (30% with a raise somewhere) + up-front events, then a random partition of [now, T] into "
        "run_until / run_for / run_next_event pieces that stay within T (a piece may be cut short by an exception, which the program "
        "catches), then run_until(T) again and again until it returns normally; the oracle re-runs the same program on the implementation "
        "in ONE piece (run_until(T) resumed after every exception) and compares the whole trace, clock and steps; (b) mixed ABM histories, "
        "shared-callable and raise streams with the steps==clock clause (steps tracks the clock in aborted states); (c) ABM lifecycle histories "
        "(refused run calls and setups, resets, setup again: steps == clock after every accepted run to a whole tick). non-trivial = the "
        "partition has >= 2 pieces and >= 2 events executed; distinct by sha1 of the op lines")


def gen_chunk(R):
    kind = R.choice(["abm", "abm", "devs"])
    base = D.gen_scenario(R, kind=kind, n_ops=0)
    lines = list(base.lines)
    if R.random() < 0.3:
        # one of the programs (or the step body) raises somewhere: pieces are cut short, the program catches and goes on
        idx = [i for i, l in enumerate(lines) if l.startswith(("prog ", "stepprog"))]
        i = R.choice(idx)
        head, _, body = lines[i].partition(" ") if lines[i].startswith("stepprog") else (" ".join(lines[i].split()[:2]), "", " ".join(lines[i].split()[2:]))
        cmds = [c.strip() for c in body.split(";") if c.strip()]
        cmds.insert(R.randrange(len(cmds) + 1), "raise " + R.choice(sorted(D.EXC)))
        lines[i] = head + " " + " ; ".join(cmds)
    impl = D.Impl(kind, float_ticks=base.meta["float_ticks"], methods=base.meta.get("methods"))
    for l in lines[1:]:
        impl.line(l.split())
    nact = sum(1 for l in lines if l.startswith("prog "))
    times = [0, 1024, 2048, 3072, 4096, 1024, 2048] if kind == "abm" else [0, 512, 1024, 1536, 2048, 100, 3000, 1024]
    # sometimes a long queue (a dozen or more pending events): pushing the not-yet-due head back must keep the order
    for _ in range(R.randrange(0, 7) if R.random() < 0.7 else R.randrange(10, 30)):
        l = f"abs {R.choice(times)} {R.choice(D.PRIOS)} {R.randrange(nact)}"
        impl.line(l.split())
        lines.append(l)
    T = R.choice([1024, 2048, 3072, 4096, 5120]) if kind == "abm" else R.choice([512, 1024, 2048, 3000, 4096])
    n_setup = len(lines)
    for _ in range(R.randrange(0, 7) if R.random() < 0.8 else R.randrange(6, 14)):
        now = impl.now()
        k = R.random()
        if k < 0.35:
            step = R.choice([0, 1024, 1024, 2048] if kind == "abm" else [0, 100, 512, 1024])
            if now + step > T:
                continue
            l = f"until {now + step}"
        elif k < 0.65:
            d = R.choice([0, 1024, 1024, 2048] if kind == "abm" else [0, 1, 512, 1024])
            if now + d > T:
                continue
            l = f"for {d}"
        else:
            try:
                nxt = impl.sim.event_list.peak_ahead(1)
            except IndexError:
                nxt = []
            if nxt and nxt[0].time * D.UNIT > T:
                continue
            l = "next"
        impl.line(l.split())
        lines.append(l)
    # to the horizon — again after every exception, until the call returns normally (every call executes at least one event)
    n_pieces = len(lines) - n_setup
    for _ in range(400):
        lines.append(f"until {T}")
        if impl.line(lines[-1].split()).startswith("ok"):
            break
    meta = dict(base.meta)
    meta.update(chunk=True, n_setup=n_setup, T=T, n_pieces=n_pieces)
    return core.Scenario(lines, meta)


def generate(rng, tier, count):
    # the lifecycle stream comes last, from a generator of its own: the other streams are what they were before it was added
    n_life = count // 13
    yield from _generate(rng, count - n_life)
    import random as _random
    R2 = _random.Random()
    R2.setstate(rng.getstate())
    for _ in range(n_life):
        yield D.gen_lifecycle(R2, kind="abm")


def _generate(rng, count):
    for i in range(count):
        if i % 3 != 2:
            yield gen_chunk(rng)
        elif (i // 3) % 4 == 0:
            yield D.gen_shared(rng)
        elif (i // 3) % 4 == 1:
            yield D.gen_raise(rng)
        else:
            yield D.gen_scenario(rng, kind="abm", run_weight=1.2)


run_impl = D.run_impl
gen_tables = D.gen_tables


def _exec_trace(sc):
    return [e[1:] for e in sc.meta.get("trace", []) if e[0] == "exec"]


def oracle(sc, obs):
    bad = D.oracle(sc, obs, abm_clauses=True)
    if sc.meta.get("chunk"):
        # one piece = run_until(T), called again after every exception until it returns normally (further calls change nothing)
        # (the same events raise in both runs, so as many calls as the pieces run made are enough)
        one = core.Scenario(sc.lines[: sc.meta["n_setup"]] + [sc.lines[-1]] * (len(sc.lines) - sc.meta["n_setup"] + 1),
                            {"float_ticks": sc.meta.get("float_ticks"), "methods": sc.meta.get("methods")})
        oobs = D.run_impl(one)
        if _exec_trace(one) != _exec_trace(sc):
            bad.append(f"chunk-trace: pieces executed {_exec_trace(sc)}, one piece executed {_exec_trace(one)}")
        fin = lambda o: " ".join(o[-1].split()[:3])  # noqa: E731  ok now=.. steps=..
        if fin(oobs) != fin(obs):
            bad.append(f"chunk-final: pieces end with '{fin(obs)}', one piece with '{fin(oobs)}'")
        if not obs[-1].startswith("ok"):
            bad.append(f"chunk-stuck: run_until({sc.meta['T']}) still raises after 400 resumed calls: {obs[-1]}")
    return bad


def nontrivial(sc, obs):
    runs = [o for l, o in zip(sc.lines, obs) if l.split()[0] in ("until", "for", "next")]
    return len(runs) >= 2 and sum(o.count("@") for o in runs) >= 2


def tags(sc, obs):
    yield "kind:" + sc.lines[0].split()[1]
    yield "stream:" + ("chunking" if sc.meta.get("chunk") else "lifecycle" if sc.meta.get("lifecycle") else "mixed-abm")
    for l in sc.lines:
        w = l.split()[0]
        if w in ("until", "for", "next", "stepprog"):
            yield "op:" + w
    if sc.meta.get("chunk"):
        yield f"pieces:{sc.meta.get('n_pieces', len(sc.lines) - sc.meta['n_setup'] - 1)}"
        if any(o.startswith("err Raised") for o in obs):
            yield "branch:chunk-piece-cut-short-by-exception"
            yield f"resumes:{min(sum(1 for o in obs if o.startswith('err Raised')), 6)}"
    yield from sorted(D.raise_tags(sc, sc.meta.get("trace") or []))
    yield from sorted(D.shared_tags(sc.meta.get("trace") or []))
    yield from sorted(D.life_tags(sc, obs))
