"""C10 — both continuous spaces keep every position and answer range / k-nearest / distance queries exactly."""
from . import cont_common as C
from . import core

PROP = "C10"
DRIVER = "drv_cont"
LEAN_MODULES = ["MesaModel.Props.C10", "MesaModel.Props.C18Cont"]
THEOREMS = [
    "Mesa.Cont.C10_legacy_assignment_rule",
    "Mesa.Cont.C10_exp_assignment_rule",
    "Mesa.Cont.C10_wrap_is_periodic_image",
    "Mesa.Cont.C10_exp_wrap_is_periodic_image",
    "Mesa.Cont.C10_legacy_positions_all_histories",
    "Mesa.Cont.C10_legacy_frame",
    "Mesa.Cont.C10_legacy_positions_inside",
    "Mesa.Cont.C10_legacy_cache_coherent",
    "Mesa.Cont.C10_exp_positions_all_histories",
    "Mesa.Cont.C10_exp_frame",
    "Mesa.Cont.C10_exp_index_maps_consistent",
    "Mesa.Cont.C10_exp_positions_inside",
    "Mesa.Cont.C10_exp_positions_wellformed",
    "Mesa.Cont.C10_exp_positions_have_dimension",
    "Mesa.Cont.C10_exp_last_assignment",
    "Mesa.Cont.C10_exp_fresh_agent",
    "Mesa.Cont.C10_exp_every_agent_has_a_row",
    "Mesa.Cont.C10_legacy_last_assignment",
    "Mesa.Cont.C10_exp_history_vectors_normalise",
    "Mesa.Cont.C10_legacy_valid_calls_succeed",
    "Mesa.Cont.C10_exp_valid_calls_succeed",
    "Mesa.Cont.C10_exp_iadd_is_assignment",
    "Mesa.Cont.C10_exp_removed_agent_is_dead",
    "Mesa.Cont.C10_exp_remove_lifecycle",
    "Mesa.Cont.C10_exp_agent_api",
    "Mesa.Cont.C10_exp_raw_view_write",
    "Mesa.Cont.C10_exp_vector_lengths",
    "Mesa.Cont.C10_exp_capacity_names_the_array",
    "Mesa.Cont.C10_exp_kept_view_write",
    "Mesa.Cont.C10_exp_kept_view_read",
    "Mesa.Cont.C10_legacy_neighbors_exact",
    "Mesa.Cont.C10_legacy_neighbors_mem",
    "Mesa.Cont.C10_legacy_exclude_center",
    "Mesa.Cont.C10_legacy_zero_distance_iff_same_point",
    "Mesa.Cont.C10_legacy_negative_radius",
    "Mesa.Cont.C10_legacy_move_foreign_agent",
    "Mesa.Cont.C10_legacy_direct_pos_write",
    "Mesa.Cont.C10_exp_radius_exact",
    "Mesa.Cont.C10_exp_distances_exact",
    "Mesa.Cont.C10_exp_subset_queries_exact",
    "Mesa.Cont.C10_exp_neighbors_in_radius",
    "Mesa.Cont.C10_exp_k_nearest",
    "Mesa.Cont.C10_exp_nearest_neighbors",
    "Mesa.Cont.C10_exp_nearest_neighbors_ties",
    "Mesa.Cont.C10_exp_negative_radius",
    "Mesa.Cont.C10_exp_k_nearest_range",
    "Mesa.Cont.C10_argsortPart_spec",
    "Mesa.Cont.C10_torus_axis_is_nearest_image",
    "Mesa.Cont.C10_flat_axis_is_abs",
    "Mesa.Cont.C10_torus_heading_cases",
    "Mesa.Cont.C10_torus_heading_reaches_target",
    "Mesa.Cont.C10_flat_heading_is_difference",
    "Mesa.Cont.C10_axis_zero_distance_iff",
    "Mesa.Cont.C10_legacy_distance_symmetric",
    "Mesa.Cont.C10_legacy_heading_length",
    "Mesa.Cont.C10_exp_distance_symmetric",
    "Mesa.Cont.C10_exp_difference_length",
    "Mesa.Cont.C10_exp_difference_rows_length",
    "Mesa.Cont.C10_exp_distance_is_metric",
    "Mesa.Cont.C10_legacy_distance_is_metric",
    "Mesa.Cont.C10_legacy_neighbors_metric",
    "Mesa.Cont.C10_exp_radius_metric",
    "Mesa.Cont.C10_exp_k_nearest_metric",
    "Mesa.Cont.C10_exp_neighbors_in_radius_metric",
    "Mesa.Cont.C10_legacy_heading_metric",
    "Mesa.Cont.C10_exp_difference_metric",
    "Mesa.Cont.C10_exp_difference_reaches",
    "Mesa.Cont.C10_exp_differences_exact",
    "Mesa.Cont.C10_exp_zero_distance_iff",
    "Mesa.Cont.C18_cont_place_reject_unchanged",
    "Mesa.Cont.C18_cont_move_reject_unchanged",
    "Mesa.Cont.C18_cont_remove_reject_unchanged",
    "Mesa.Cont.C18_cont_setpos_reject_unchanged",
    "Mesa.Cont.C18_cont_setpos_stepwise",
    "Mesa.Cont.C18_cont_setpos_reject_state",
    "Mesa.Cont.C18_cont_setpos_write_first_refuted",
    "Mesa.Cont.C18_cont_iadd_stepwise",
    "Mesa.Cont.C18_cont_iadd_reject_unchanged",
    "Mesa.Cont.C18_cont_iadd_view_getter_refuted",
    "Mesa.Cont.C18_cont_legacy_rejected_call_erasable",
    "Mesa.Cont.C18_cont_exp_rejected_call_erasable",
]
COUNTS = {"quick": 6000, "thorough": 240000}
TRUSTED = [
    "coordinates/radii are ints in units of 1/64 of small magnitude: every + - * % abs min <= the code performs on them is exact in binary64; IEEE rounding of other floats is not modelled",
    "math.sqrt / np.sqrt / scipy cdist(euclidean) return the correctly rounded square root of the exactly computed sum of squares (the harness inverts it exactly and re-checks sqrt(N)/64 == d); `distances <= radius` is then equivalent to the exact comparison of squares",
    "numpy argpartition(d, kth): a permutation of the indices with d[res[i]] <= d[res[kth]] for i < kth and >= for i > kth (the driver runs a stable full sort, which satisfies it: theorem C10_argsortPart_spec); which of several agents at exactly the k-th distance is returned is left open (get_nearest_neighbors with more than k+1 agents on the agent's own spot: k or k+1 distinct other agents at distance 0 are accepted, theorem C10_exp_nearest_neighbors_ties)",
    "numpy slicing/boolean masks/fancy indexing/vstack/overlapping slice assignment as documented (a basic slice is a view sharing the memory of its base for as long as it is referenced; vstack returns a new array and leaves its arguments alone); np.empty rows are modelled as an unspecified value that is never observed (a new agent is given a position before it is read)",
    "Python dict = insertion-ordered finite map (legacy _agent_to_index); agent objects are named by small ints",
]
ASSUMPTIONS = [
    "every axis has min < max",
    "a ContinuousSpaceAgent is assigned a position before its position is read or queried",
    "experimental agent ids name agent objects: an id is created once (a second `new` of the same id has no counterpart in the code)",
]
RULE = ("random histories over both classes (50/50; 10% from the rejecting-call stream of C18): bounds with negative / non-unit origins and sizes 1/64 .. 15.6, torus on/off, "
        "experimental: 1-D .. 5-D (2-D and 3-D most often) and initial capacities {0,1,2,3,5,50,100}; 4-45 ops from place/new+set, move/set (12% per-axis out of bounds, "
        "coincident and boundary positions), `position += v`, item writes into the returned position, raw writes through the `space.agent_positions` view, references to that view kept across later calls (read and written after re-slicing and re-allocation), the ignored `pos` setter, vectors with one coordinate or with nd-1 / nd+1 coordinates in every call that takes a point (2 % of the ops of spaces with nd >= 2) (experimental), legacy `agent.pos = p` assigned directly by the user (2.5% of the ops, mostly right after a cache-building query, followed by queries at the old and the new position), remove, every agent method on removed agent objects, pos, agents, radius / k-nearest (k in 0..n+1, often n) / neighbour queries incl. on the "
        "empty space and right after a cached read + move, distances and heading/difference vectors (30% of the toroidal ones exactly half the size apart: the tie of the heading rule); a quarter of all query points anywhere up to two sizes outside the bounds (on a torus: the distance to the nearest periodic image, repair CS3); radii aimed at exact agent distances; "
        "non-trivial = >= 2 agents in the space at some point, a mutation after the first query and a query answer naming an agent; "
        "distinct = distinct op-line sequences (sha1)")
HEADER_LINES = 1


def generate(rng, tier, count):
    for _ in range(count):
        yield C.gen_scenario(rng, reject_rich=rng.random() < 0.1)


def generate_rejecting(rng, tier, count):
    """C18 stream: bounded spaces, many out-of-bounds place/move/set and removals of absent agents,
    each followed by observations and further valid operations"""
    for _ in range(count):
        yield C.gen_scenario(rng, reject_rich=True)


run_impl = C.run_impl
oracle = C.oracle

QUERIES = ("nbrs", "radius", "knn", "nir", "nn", "dists")
MUTATORS = ("place", "move", "set", "remove", "new", "iadd", "raw", "hraw", "setpos")


def nontrivial(sc, obs):
    seen_query = mutated_after = named = False
    live, most = set(), 0
    for l, o in zip(sc.lines[1:], obs[1:]):
        w = l.split()
        if w[0] in QUERIES:
            seen_query = True
            if o.startswith("ok") and o.split("=", 1)[-1]:
                named = True
        elif w[0] in MUTATORS and o == "ok":
            if seen_query:
                mutated_after = True
            if w[0] in ("place", "new"):
                live.add(w[1])
            elif w[0] == "remove":
                live.discard(w[1])
            most = max(most, len(live))
    return most >= 2 and mutated_after and named


def tags(sc, obs):
    w0 = sc.lines[0].split()
    kind = w0[1]
    yield "kind:" + kind
    yield "args:" + kind + ":" + w0[2]
    yield "torus:" + w0[3]
    if kind == "exp":
        yield "cap:" + w0[4]
        yield "ndims:%d" % ((len(w0) - 5) // 2)
    live, cached, first = [], False, True
    dead = set()
    cap, reallocs, kept = (int(w0[4]) if kind == "exp" else 0), 0, {}
    for l, o in zip(sc.lines[1:], obs[1:]):
        w = l.split()
        yield "op:" + w[0]
        if kind == "exp":
            if w[0] in ("get", "set", "remove", "nir", "nn", "iadd", "poke") and w[1] in dead:
                yield "branch:call-on-removed-agent"
            if w[0] in ("dists", "diffs") and ":" in w and dead & set(w[w.index(":") + 1:]):
                yield "branch:removed-agent-in-subset"
            if w[0] == "remove" and o == "ok":
                dead.add(w[1])
            if w[0] == "iadd" and o == "err OutOfBounds":
                yield "branch:iadd-rejected"
            if w[0] == "raw" and o == "ok":
                yield "branch:write-through-agent_positions-view"
            if w[0] == "poke" and o == "ok":
                yield "branch:write-into-returned-position"
            nc = {"set": len(w) - 2, "iadd": len(w) - 2, "raw": len(w) - 2, "radius": len(w) - 2, "knn": len(w) - 2, "inb": len(w) - 1,
                  "correct": len(w) - 1, "dists": (w.index(":") if ":" in w else len(w)) - 1,
                  "diffs": (w.index(":") if ":" in w else len(w)) - 1}.get(w[0])
            if nc is not None and nc != (len(w0) - 5) // 2:
                yield "branch:vector-of-wrong-length:" + ("broadcast" if o.startswith("ok") else o.split()[1])
            if w[0] == "new" and o == "ok" and cap <= len(live):
                cap += max(int(round(0.2 * (len(live) + 1))), 1)
                reallocs += 1
            if w[0] == "hold":
                kept[w[1]] = (reallocs, len(live))
            if w[0] in ("hread", "hraw") and w[1] in kept:
                state = "re-allocated-array" if kept[w[1]][0] != reallocs else ("resliced-array" if kept[w[1]][1] != len(live) else "current-array")
                yield "branch:kept-view-" + ("write" if w[0] == "hraw" else "read") + "-" + state
        if w0[3] == "1" and o.startswith("ok"):
            # a query point outside the bounds of a torus: it stands for its periodic image (repair CS3)
            b = list(map(int, w0[4:8] if kind == "legacy" else w0[5:]))
            nd = len(b) // 2
            pts = {"nbrs": [w[1:3]], "dist": [w[1:3], w[3:5]], "heading": [w[1:3], w[3:5]], "radius": [w[1:-1]], "knn": [w[1:-1]],
                   "dists": [w[1:1 + nd]], "diffs": [w[1:1 + nd]]}.get(w[0], [])
            for pt in pts:
                if len(pt) == nd and all(x.lstrip("-").isdigit() for x in pt):
                    far = [max(b[2 * i] - int(x), int(x) - b[2 * i + 1]) for i, x in enumerate(pt)]
                    if any(f > 0 for f in far):
                        yield "branch:torus-query-point-outside-bounds"
                    if any(2 * f > b[2 * i + 1] - b[2 * i] for i, f in enumerate(far)):
                        yield "branch:torus-query-point-more-than-half-a-size-outside"
        if o.startswith("err"):
            yield "reject:" + w[0] + ":" + o.split()[1]
        if w[0] in QUERIES + ("diffs", "agents") and not live:
            yield "branch:query-on-empty-space"
        if kind == "legacy":
            if w[0] == "setpos" and w[1] in live:
                yield "branch:direct-pos-write-" + ("with-live-cache" if cached else "without-cache")
            if w[0] == "nbrs":
                cached = True
            elif w[0] in ("place", "remove") and o == "ok":
                cached = False
            elif w[0] == "move" and o == "ok" and cached:
                yield "branch:move-patched-into-cache"
        if w[0] in ("place", "new") and o == "ok" and w[1] not in live:
            live.append(w[1])
            if kind == "exp" and len(live) > int(w0[4]):
                yield "branch:array-growth"
        if w[0] == "remove" and o == "ok" and w[1] in live:
            if live[-1] != w[1]:
                yield "branch:compaction-of-later-rows"
            live.remove(w[1])
        if w[0] == "knn" and live and w[-1] == str(len(live)):
            yield "branch:knn-k-equals-n"
        if w[0] == "nn" and live and w[-1] == str(len(live) - 1):
            yield "branch:nn-k-equals-n-1"
        if "*" in o or o.endswith("ambiguous"):
            yield "branch:knn-tie-at-boundary"
        if w0[3] == "1" and ((w[0] == "heading" and o.startswith("ok h=")) or (w[0] == "diffs" and o.startswith("ok res="))):
            b = list(map(int, w0[4:8] if kind == "legacy" else w0[5:]))
            sizes = [b[2 * i + 1] - b[2 * i] for i in range(len(b) // 2)]
            vecs = [o[5:]] if w[0] == "heading" else [x.split(":")[1] for x in o[7:].split(",") if x]
            if any(2 * abs(int(c)) == sizes[i] for v in vecs for i, c in enumerate(v.replace(";", ",").split(","))):
                yield "branch:heading-half-size-tie"


if __name__ == "__main__":
    import sys

    core.main(sys.modules[__name__])
