"""C07 — connections and neighbourhoods of cell spaces are exactly the geometry's."""
import sys

from . import cells_common as C
from . import core

PROP = "C07"
DRIVER = "drv_cells"
LEAN_MODULES = ["MesaModel.Props.C07"]
THEOREMS = ["Mesa.Cells." + t for t in (
    "C07_moore_offsets_spec", "C07_vn_offsets_spec", "C07_generated_tables_are_generic", "C07_hex_touching",
    "C07_connect_spec", "C07_connect_2d_is_nd", "C07_connect_symm", "C07_grid_connections", "C07_grid_cells",
    "C07_grid_symmetric", "C07_network_connections", "C07_voronoi_connections_partial", "C07_nbhd_spec",
    "C07_reach_is_path", "C07_cache_transparent", "C07_cache_transparent_from", "C07_connections_are_dicts",
    "C07_connect_disconnect_spec", "C07_cache_transparent_under_edits", "C07_memo_keys_generated")]
COUNTS = {"quick": 1200, "thorough": 30000}
TRUSTED = [
    "Python dict semantics (insertion order, update keeps the position of existing keys, pop) modelled as duplicate-free lists",
    "functools.cache / cached_property: a memo table keyed by (self, radius, include_center); exceptions are not cached; "
    "cache_clear() empties the table of every cell, popping `neighborhood` from the instance dict forgets the property",
    "itertools.product order; Python % on ints with a positive modulus = Int.emod",
    "networkx Graph/DiGraph.neighbors = adjacency in insertion order of the edge list",
    "Voronoi: the triangle list comes from the code's float Bowyer-Watson; only `_connect_cells` over that list is modelled. "
    "That the list is the Delaunay triangulation is NOT proved: the check compares it with an exact integer "
    "empty-circumcircle computation on small point sets in general position whose triangulation is not changed by the code's 9999-frame",
    "numpy fancy indexing in get_neighborhood_mask",
]
ASSUMPTIONS = [
    "Cell.connect / Cell.disconnect are called on cells of the same space, with int / int-tuple keys or the default key",
    "hex tori have an even size along the offset axis (coordinate[1]); other hex tori are followed by the model but not covered by the symmetry/touching theorems",
    "Network: graphs on nodes 0..n-1 (any edge list: self loops, parallel and antiparallel edges, Multi(Di)Graph); Voronoi: integer points in general position (no 3 collinear, no 4 cocircular)",
]
RULE = ("exhaustive small scope: every cell x radius 1..3 (thorough 1..5) x include_center x connections x neighborhood property x mask "
        "on every Moore/von Neumann grid with <= 3 axes of size <= 4 (quick: 3 axes <= 3; thorough adds 4 axes <= 3) and hex grids "
        "<= 6x6, torus on/off, in two query orders (ascending positional / descending keyword calls, so memo tables are hit in both "
        "directions); plus random scenarios: grids with 1-4 axes biased to sizes 1 and 2, hex, Network on random graphs <= 12 nodes incl. "
        "isolated nodes and some DiGraphs (45% not simple: self loops, repeated / antiparallel edges, MultiGraph / MultiDiGraph), 2% headers the "
        "constructor refuses (a size <= 0, a HexGrid that is not 2-D), VoronoiGrid on 3-9 integer points; 8-40 queries + 50% repeated, shuffled (4%: the neighbourhood used as a CellCollection: cells, len, "
        "in, select, select_random_cell by position); radius 0 and "
        "non-cells are rejected; 35% of the random scenarios and a built-in sweep (every ordered cell pair of five small spaces: "
        "all queries, connect, all queries, disconnect, all queries) edit connections between the queries with Cell.connect / "
        "Cell.disconnect (existing / new / default keys); answers sorted (the property speaks of sets); non-trivial = >= 5 neighbourhood queries with a "
        "non-empty answer; distinct = distinct op-line sequences")
HEADER_LINES = 1


def _tier():
    a = sys.argv
    return a[a.index("--tier") + 1] if "--tier" in a and a.index("--tier") + 1 < len(a) else "quick"


def gen_tables():
    return C.gen_tables()


def builtin_corpus():
    return C.exhaustive_c07(_tier()) + C.edit_sweeps()


def generate(rng, tier, count):
    for _ in range(count):
        yield C.gen_c07(rng, tier)


run_impl = C.run_impl
oracle = C.oracle_c07
tags = C.tags_c07


def nontrivial(sc, obs):
    return sum(1 for l, o in zip(sc.lines, obs) if l.split()[0] in ("nbhd", "nbprop", "mask") and o.startswith("ok ")) >= 5


if __name__ == "__main__":
    core.main(sys.modules[__name__])
