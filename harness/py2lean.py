"""py2lean — a small Python→Lean 4 translator for a documented subset (DESIGN §4.2/§7, design.d/xlate.md).

It parses ONE named function / method of the mesa source with `ast` (from the file under MESA_REPO; nothing is
imported) and emits ONE Lean definition.  Everything outside the subset raises `Untranslatable(reason, lineno)`.
The translator is part of the trusted base; `harness/xlate_selftest.py` ties it to CPython differentially.

Types.  Python is untyped, Lean is not: the registry (`harness/xlate_registry.py`) gives the type of every
parameter and of every `self.<attr>` / `<param>.<attr>` that is read (a Lean `structure`, see `Rec`); locals are
inferred.  Types: "Int", "Bool", ("L", t) list or variable-length tuple, ("T", t1, .., tn) fixed tuple (right-nested
product), ("R", name) record, ("O", t) optional.

TRANSLATION TABLE (Python → Lean)
  int literal n / -n / True / False     n / (-n) / true / false
  a+b  a-b  a*b  -a                     (a + b) (a - b) (a * b) (-a)             on Int;  `+` on lists: (a ++ b)
  a // b     a % b                      (Int.fdiv a b)   (Int.fmod a b)         Python semantics for every b ≠ 0
  a < b (<=, >, >=) on ints             decide (a < b) …                         every condition is a `Bool`
  a == b, a != b                        (a == b), (a != b)
  a < b <= c (chains)                   (decide (a < b) && decide (b ≤ c))       operands are pure, evaluated once
  s < t (<=, >, >=), s t tuple literals or values of a fixed-tuple type of the same length
                                        lexicographic: (decide (s1 < t1) || ((s1 == t1) && …))   (≤ on the last for <=)
  x in xs / x not in xs                 (xs.contains x) / (!xs.contains x)
  a and b / a or b / not a              (a && b) / (a || b) / (!a)                operands Bool; in a test position
                                        truthiness: Int → (x != 0), list → (!x.isEmpty), Option → x.isSome
  a if c else b                         (if c then a else b)
  (a, b) / [a, b]                       (a, b) / [a, b]     `()`, `(a,)` and a tuple literal that is iterated: lists
  t[k], k literal, t a fixed tuple      t.1 / t.2.1 / …                          other subscripts: only registry `keyed`
  self.attr / param.attr                self.attr / param.attr                   (record fields given by the registry)
  len(x) abs(x) range(a[,b]) zip(a,b)   (x.length : Int)  (Py.abs x)  (Py.range a b)  (List.zip a b)
  tuple(x) / list(x) of a list          x
  [e for p in it if c] (also tuple(..), list(..), generator arguments; one or two `for`)
                                        (List.map (fun p => e) (List.filter (fun p => c) it));  two: List.flatMap
  all(c for p in it) / any(..)          (List.all it (fun p => c)) / (List.any ..)
  product(xs, repeat=n)                 (Py.productRepeat xs n.toNat)
  f(args) with f translated before      (f args)        self.m(args) → (m self args)
  x = e;  a, b = e;  x op= e            let x := e …;  let (a, b) := e …;  x = x op e
  xs.append(e) / xs.remove(e)           let xs := xs ++ [e] / let xs := xs.erase e
  xs[i] = e (xs a list local)           let xs := xs.set i.toNat e                (i ≥ 0 assumed: only `range` indices)
  d[k] = True / d.pop(k, None) / d.keys() with d = {} (dict as ordered set)
                                        let d := Py.setInsert d k / Py.setDiscard d k / d
  if c: A else: B; rest                 no return/raise/continue inside: let (v1,..,vn) := if c then (A; (v1,..,vn)) else
                                        (B; (v1,..,vn)); rest   with v1..vn the variables assigned in A or B that exist
                                        afterwards;  otherwise: if c then (A; rest) else (B; rest)
  for p in it: body; rest               let (v1,..,vn) := List.foldl (fun (v1,..,vn) p => body; (v1,..,vn)) (v1,..,vn) it; rest
                                        v1..vn = variables assigned in body that exist before the loop; `continue` = the
                                        state tuple; the loop variable and the body's locals are not visible after the loop.
                                        With return / raise / break inside: an auxiliary definition, structurally recursive on
                                        the list: F vars [] = rest;  F vars (p :: todo) = body; F vars' todo
  return e                              e                (`.ok e` if the function can raise)
  raise X(...)                          .error Py.Err.<X>   result type `Except Py.Err τ`; with effects / state the result
                                        is (value-or-error, effects, state…): what was done before a raise stays done
  registry effect `obj.meth(a, b)`      let effects_ := effects_ ++ [(a, b)]; `effects_` starts as [] and is returned (after the value)
  registry effect tag `self.m()` ↦ n    let effects_ := effects_ ++ [n]   (which argument-less method a dispatch function calls)
  registry snapshot `self.f(*args, **kwargs)` with the function's own varargs: let effects_ := effects_ ++ [(current value of the
                                        named state attrs (what the callee sees), args, kwargs)] — `args : List τ` / `kwargs`
                                        (association list) are parameters of the definition when the registry types them
                                        (`varargs`); the call must forward exactly them; registry ignore_calls (logging): dropped
  registry state attr `self._x`         a local initialised from `self._x`, returned after the value / effects;
                                        a dict-typed one is an association list, newest binding first:
  self._x.get(k, None) / self._x[k] = v (List.lookup k x) : Option / let x := (k, v) :: x
  if v is not None: A (returns) ; rest  match v with | some v => A | none => rest      (v an Option; also `is None`)
  docstrings, `pass`, type annotations  dropped
  while c: body; rest (registry fuel)   auxiliary definition, structurally recursive on a `fuel : Nat` parameter:
                                        F (fuel+1) vars = if c then (body; F fuel vars') else rest;  F 0 vars = .error Py.Err.Fuel
                                        (`continue` = the recursive call, `break` = rest, `return` returns; `while True:` without
                                        break: F (fuel+1) vars = body, the unreachable rest is dropped)
  heappush(xs, e)                       let xs := Mesa.Heap.heappush lt xs e        lt = the translated `__lt__` (registry `order`)
  x = heappop(xs)                       match Mesa.Heap.heappop lt xs with | none => .error Py.Err.Index | some (x, xs) => …
  nsmallest(n, xs)                      (Py.nsmallest lt n.toNat xs): the first n of the stable sort by the translated `__lt__`
  obj.PROP (registry props)             (PROP obj): call of the translated property getter;  len(obj) → (len_ obj) if `__len__` is translated
  record given as `extern`              the hand-written model's structure; attributes map to its fields as the registry says
  X is not None and rest (test position, X : Option)   (match X with | some x => rest | none => false)   x == opt → (some x == opt)
  self._xs.append(e) / .remove(e) on a state list   let xs := xs ++ [e] / xs.erase e; registry list_remove_raises: `if xs.contains e then … else
                                        .error Py.Err.Value`;  xs.copy() → xs;  self.PROP after state writes → (PROP { self with … })
  registry effect `self.PROP=`: self.PROP = e   let effects_ := effects_ ++ [(e)]    (the property's setter runs with e)
  x.m(args), x a record parameter in the registry state, m a translated mutator   match (m x args) with | (.error e, ..) => error e passed on
                                        | (.ok _, v1, ..) => let x := { x with f1 := v1, .. }; `self` as an argument → self.<self_as>;
                                        self._a = x → (some x.<ref_key>);  X is [not] None → X.isNone / X.isSome;  "C.p.setter": the `@p.setter` def
  t[i][j] / t[i][j] = e / t[pos] = e, t : List (List τ) (a 2-D table; registry state attr for the writes)
                                        (Py.get2 t i j) / let t := Py.set2 t i j e / Py.set2 t pos.1 pos.2 e   (indices assumed within
                                        0..len-1: negative indices / IndexError are outside the subset)
  s.add(k) / s.discard(k), s a state attr of list type (a set kept as the list of its members)
                                        let s := Py.setInsert s k / Py.setDiscard s k
  t[i][j].append(o) / t[i][j].remove(o) Py.set2 t i j (cell ++ [o]) / if cell.contains o then Py.set2 t i j (cell.erase o) else ValueError
  an object parameter in registry `ident` (agent ↦ unique_id): stored / compared by identity as that Int field:
    t[i][j] = agent; c is [not] agent; agent [not] in c      (some agent.unique_id); (c ==/!= some agent.unique_id); c.contains agent.unique_id
  obj.attr = e / = None, attr an Option-typed state attr     let obj__attr := (some e) / none
  X is None / X is not None in an expression, X an Option    X.isNone / X.isSome
  if (x := obj.attr) is None: A (returns); rest              match obj__attr with | none => A | some x => rest   (in rest `obj.attr` reads as x
                                        until it is assigned);  self.m(..) inside a function with `self.` state attrs is called on
                                        { self with attr := current value, … };  registry `ret`: declared type of `return None` / `return []`
  x = self.m(args), m translated before and raising (no state)     match (m self args) with | .error e => (.error e, state…) | .ok x => rest
  self.m(obj, args) / super().m(obj, args) as a statement, m translated before with the SAME state attrs as the caller (registry may_raise
                                        if it raises): let (state…) := m {self with current state} {obj with current attrs} args   (an
                                        error is propagated with the tables m left); a callee with another self record gets it rebuilt from
                                        the equally named fields; `super().m` inside `m` = the `m` translated before (resolution order)
  self.attr is None / is not None      self.attr.isNone / self.attr.isSome      (an attribute of Option type, in a test position)
  registry effect_self `obj.meth()`     let effects_ := effects_ ++ [obj]         (a callback: the receiver is what is recorded)
  try: x = self.o.m() / except IndexError: H / [else: E]; rest      (registry obj_calls: `m` translated before, can raise, has state)
                                        match m { receiver built from the state locals } fuel with
                                        | (.ok x, state') => E; rest | (.error Py.Err.Index, state') => H; rest
                                        | (.error err_, state') => (.error err_, …)   (any other error propagates, state kept)
  registry callback `ev.execute()`      match exec_ (state…, world_) ev with | (.ok _, (state…, world_)) => rest
                                        | (.error err_, (state…, world_)) => (.error err_, state…, world_)    exec_, ω, world_: parameters
  registry state_calls `self.m(x)`      let state := m' { receiver built from the state locals } x     (m' translated before, state only)
NOT in the subset: floats, strings (except in `raise`), dict values, sets, slices, list indexing, nested defs, lambda,
any other try, with, while without fuel, *args/**kwargs, walrus, global state, division by 0.
"""
from __future__ import annotations

import ast
import hashlib
import os
from dataclasses import dataclass, field


class Untranslatable(Exception):
    def __init__(self, reason, lineno=None):
        super().__init__(f"line {lineno}: {reason}" if lineno else reason)
        self.reason, self.lineno = reason, lineno


LEAN_KEYWORDS = {"at", "from", "end", "fun", "open", "in", "let", "have", "show", "by", "do", "then", "else", "if",
                 "match", "with", "where", "namespace", "section", "variable", "def", "theorem", "instance", "class",
                 "structure", "import", "export", "local", "private", "protected", "mutual", "deriving", "Type", "Prop",
                 "Sort", "this", "macro", "syntax", "notation", "universe", "set_option", "calc", "using", "for"}
OUT = "effects_"     # the implicit list of effects (registry `effects`)
ERRORS = {"Fuel": "Fuel", "IndexError": "Index", "ValueError": "Value", "KeyError": "Key", "TypeError": "Type",
          "NotImplementedError": "NotImplemented", "Exception": "Exception"}


@dataclass
class Rec:
    """a Lean structure standing for the part of a Python object the translated functions read"""
    name: str
    fields: dict  # attr -> type
    extern: str | None = None     # an existing Lean structure (of the hand-written model) used instead of a generated one
    access: dict = field(default_factory=dict)   # extern only: attr -> Lean text with `{}` for the object, e.g. "({}.prio : Int)"
    literal: str | None = None    # extern only: Lean literal with `{attr}` holes (used by the self-test)


@dataclass
class Fn:
    """what the registry says about one function"""
    prop: str                      # property it is registered for
    file: str                      # path below MESA_REPO
    qualname: str                  # "Grid._connect_single_cell_2d"
    name: str                      # Lean name of the generated definition
    params: dict                   # Python parameter -> type (without self)
    self_rec: str | None = None    # record name for `self`
    effects: dict = field(default_factory=dict)   # "cell.connect" -> element type of the emitted list (a ("T", ..))
    keyed: tuple = ()              # dotted names of dicts whose values are named by their key: `self._cells[k]` → k
    state: dict = field(default_factory=dict)     # "self._cache" -> type: attributes the function mutates
    effect_params: dict = field(default_factory=dict)   # "self.m" -> parameter names, so that an effect call may use keywords
    effect_tags: dict = field(default_factory=dict)     # "self.m" -> Int: a call `self.m()` without arguments is the effect <tag>
    #                                               (dispatch functions: which of several argument-less methods is called)
    snapshot: dict = field(default_factory=dict)  # "self._user_step" -> state attrs: the call `f(*args, **kwargs)` with the function's
    #                                               own varargs passed through is the effect (current values of those attrs)
    #                                               own varargs passed through is the effect (current values of those attrs,
    #                                               then the forwarded `*args` / `**kwargs` themselves if typed in `varargs`)
    varargs: dict = field(default_factory=dict)   # snapshot only: "args" -> type of the *args tuple as a list, "kwargs" -> type of the
    #                                               **kwargs dict as an association list; they become parameters and are recorded
    ignore_calls: tuple = ()       # call statements that are dropped (logging); their arguments must not contain calls
    fuel: bool = False             # `while` loops allowed: the definition gets a `fuel : Nat` parameter
    order: str | None = None       # Lean name of the translated `__lt__` that heappush / heappop compare with
    props: dict = field(default_factory=dict)     # attribute that is a @property -> python name of its translated getter
    defaults_ok: bool = True       # parameters' default values are ignored (callers pass everything)
    list_remove_raises: bool = False   # (cells) `self._xs.remove(e)` on a state list raises ValueError when `e` is absent
    self_as: str | None = None     # (cells) field of self's record that stands for `self` where it is passed as an argument
    ref_key: dict = field(default_factory=dict)   # (cells) record name -> field naming the object where a reference to it is stored
    ret: tuple | str | None = None  # declared result type of a function whose `return None` / `return []` has no inferable type
    ident: dict = field(default_factory=dict)     # parameter -> field: an object stored / compared by identity is named by that field
    may_raise: bool = False        # the function raises without a `raise` statement (unpacking None, list.remove of a missing item)
    effect_self: tuple = ()        # effects `obj.meth()` without arguments whose recorded value is the receiver `obj` (a callback)
    obj_calls: dict = field(default_factory=dict)   # "self.event_list.pop_event" -> (python name of the translated method, record of
    #                                               the receiver, state attrs of THIS function holding the receiver's state attrs):
    #                                               only as `try: x = <call>() / except IndexError: .. [else: ..]` (s_Try);
    #                                               optional 4th item: the fuel handed to the callee, `{0}` = its first state local
    #                                               (the callee's own termination measure, e.g. "({0}.length + 1)"), default `fuel`
    callback: dict = field(default_factory=dict)    # "event.execute" -> name of a FUNCTION PARAMETER of the definition: the call
    #                                               `<local>.execute()` re-enters the state: `exec_ (state attrs…, world_) event` returns
    #                                               (ok-or-error, (state attrs…, world_)); `world_ : ω` is everything else the callback
    #                                               touches (an explicit type parameter `ω`), threaded and returned last
    callback_recv_ty: tuple = ()   # type of the callback's receiver, e.g. ("R", "SimEvent")
    state_calls: dict = field(default_factory=dict)  # "self._schedule_event" -> (translated method, record, state attrs): the call
    #                                               statement `self._schedule_event(x)` is `attrs := method {record from attrs} x`


EXTERN = {}     # record name -> Lean name of extern records (filled by generate_group)


def lean_ty(t):
    if isinstance(t, str):
        return t
    if t[0] == "L":
        return f"(List {lean_ty(t[1])})"
    if t[0] == "O":
        return f"(Option {lean_ty(t[1])})"
    if t[0] == "T":
        return "(" + " × ".join(lean_ty(x) for x in t[1:]) + ")"
    if t[0] == "R":
        return EXTERN.get(t[1], t[1])
    if t[0] == "E":
        return f"(Except Py.Err {lean_ty(t[1])})"
    if t[0] == "D":
        return f"(List ({lean_ty(t[1])} × {lean_ty(t[2])}))"
    raise ValueError(t)


def find_function(tree, qualname):
    body = tree.body
    node = None
    for part in qualname.split("."):
        if part == "setter" and isinstance(node, ast.FunctionDef):      # "Class.prop.setter": the def decorated `@prop.setter`
            node = next((n for n in outer if isinstance(n, ast.FunctionDef) and n.name == node.name and any(
                isinstance(d, ast.Attribute) and d.attr == "setter" for d in n.decorator_list)), None)
            if node is None:
                raise Untranslatable(f"{qualname}: no `@….setter` found in the source")
            continue
        outer = body
        node = next((n for n in body if isinstance(n, (ast.ClassDef, ast.FunctionDef)) and n.name == part), None)
        if node is None:
            raise Untranslatable(f"{qualname}: `{part}` not found in the source")
        body = node.body
    if not isinstance(node, ast.FunctionDef):
        raise Untranslatable(f"{qualname} is not a plain function")
    return node


def source_info(repo, fn: Fn):
    """(ast node, dict(file, lines, sha256)) of the function's current source text"""
    path = os.path.join(repo, fn.file)
    src = open(path).read()
    node = find_function(ast.parse(src), fn.qualname)
    seg = ast.get_source_segment(src, node) or ""
    return node, {"file": fn.file, "function": fn.qualname, "lines": [node.lineno, node.end_lineno],
                  "sha256": hashlib.sha256(seg.encode()).hexdigest(), "lean_def": fn.name}


def _dotted(e):
    if isinstance(e, ast.Name):
        return e.id
    if isinstance(e, ast.Attribute):
        b = _dotted(e.value)
        return None if b is None else b + "." + e.attr
    return None


def _ind(lines, n=2):
    return [" " * n + l for l in lines]


class Translator:
    """translates one function; `group` = {python method name: (Fn, return type)} of functions translated before"""

    def __init__(self, fn: Fn, recs: dict, group: dict):
        self.fn, self.recs, self.group = fn, recs, group
        self.outs = []          # implicit outputs: effect list `out`
        self.can_raise = False
        self.ret_ty = None
        self.prelude = []       # text of the auxiliary definitions
        self.tokens = {}        # placeholders of pending type annotations
        self.returns_value = False
        self.breaks = []        # per enclosing loop: env -> lines after the loop (`while`), None for `for`
        self.aux = []           # auxiliary definitions (one per `while`), emitted before the main definition
        self.loops = []         # per enclosing `for`: env -> lines of the loop state (what `continue` evaluates to)

    # ------------------------------------------------------------------ helpers
    def bad(self, node, why):
        raise Untranslatable(f"{self.fn.qualname}: {why}", getattr(node, "lineno", None))

    @staticmethod
    def v(name):
        name = name.replace(".", "__")
        return name + "_" if name in LEAN_KEYWORDS else name

    def tup(self, names):
        names = [self.v(n) for n in names]
        return names[0] if len(names) == 1 else "(" + ", ".join(names) + ")"

    def pattern(self, target, ty, env):
        """binder text for an assignment / loop target; binds the names in env"""
        if isinstance(target, ast.Name):
            env[target.id] = ty
            return self.v(target.id)
        if isinstance(target, (ast.Tuple, ast.List)):
            n = len(target.elts)
            if ty is not None and (ty[0] != "T" or len(ty) - 1 != n):
                self.bad(target, f"cannot unpack a value of type {ty} into {n} names")
            return "(" + ", ".join(self.pattern(t, ty[i + 1] if ty else None, env) for i, t in enumerate(target.elts)) + ")"
        self.bad(target, "assignment target outside the subset")

    # ------------------------------------------------------------------ expressions: (text, type)
    def expr(self, e, env):
        m = getattr(self, "e_" + type(e).__name__, None)
        if m is None:
            self.bad(e, f"expression {type(e).__name__} outside the subset")
        return m(e, env)

    def cond(self, e, env):
        """a test position: Bool text, with Python truthiness"""
        r = self.cells_narrowing_and(e, env)          # `X is not None and …` (cells extension)
        if r is not None:
            return r
        if isinstance(e, ast.BoolOp):
            op = " && " if isinstance(e.op, ast.And) else " || "
            return "(" + op.join(self.cond(x, env) for x in e.values) + ")"
        if isinstance(e, ast.UnaryOp) and isinstance(e.op, ast.Not):
            return f"(!{self.cond(e.operand, env)})"
        t, ty = self.expr(e, env)
        if ty == "Bool":
            return t
        if ty == "Int":
            return f"({t} != 0)"
        if ty is not None and ty[0] == "L":
            return f"(!{t}.isEmpty)"
        if ty is not None and ty[0] == "O":
            return f"{t}.isSome"
        self.bad(e, f"truthiness of a value of type {ty}")

    def e_Constant(self, e, env):
        if e.value is True or e.value is False:
            return ("true" if e.value else "false"), "Bool"
        if isinstance(e.value, int):
            return (str(e.value) if e.value >= 0 else f"({e.value})"), "Int"
        self.bad(e, f"constant {e.value!r} outside the subset")

    def e_Name(self, e, env):
        if e.id not in env:
            self.bad(e, f"name `{e.id}` is not a parameter or a local defined on every path")
        return self.v(e.id), env[e.id]

    def e_Tuple(self, e, env):
        parts = [self.expr(x, env) for x in e.elts]
        if len(parts) < 2:                       # `()` / `(x,)`: a variable-length tuple, i.e. a list
            return "[" + ", ".join(p[0] for p in parts) + "]", ("L", parts[0][1] if parts else None)
        return "(" + ", ".join(p[0] for p in parts) + ")", ("T", *[p[1] for p in parts])

    def e_List(self, e, env):
        parts = [self.expr(x, env) for x in e.elts]
        return "[" + ", ".join(p[0] for p in parts) + "]", ("L", parts[0][1] if parts else None)

    def e_UnaryOp(self, e, env):
        if isinstance(e.op, ast.Not):
            return f"(!{self.cond(e.operand, env)})", "Bool"
        if isinstance(e.op, ast.USub):
            if isinstance(e.operand, ast.Constant) and isinstance(e.operand.value, int) and e.operand.value is not True:
                return f"(-{e.operand.value})", "Int"
            t, ty = self.expr(e.operand, env)
            if ty == "Int":
                return f"(-{t})", "Int"
        self.bad(e, "unary operator outside the subset")

    def e_BinOp(self, e, env):
        a, ta = self.expr(e.left, env)
        b, tb = self.expr(e.right, env)
        if ta == "Int" and tb == "Int":
            if isinstance(e.op, (ast.Add, ast.Sub, ast.Mult)):
                return f"({a} {'+' if isinstance(e.op, ast.Add) else '-' if isinstance(e.op, ast.Sub) else '*'} {b})", "Int"
            if isinstance(e.op, ast.FloorDiv):
                return f"(Int.fdiv {a} {b})", "Int"
            if isinstance(e.op, ast.Mod):
                return f"(Int.fmod {a} {b})", "Int"
        if isinstance(e.op, ast.Add) and ta and tb and ta[0] == "L" and tb[0] == "L":
            return f"({a} ++ {b})", (ta if ta[1] is not None else tb)
        if isinstance(e.op, ast.Mult) and ta and ta[0] == "L" and tb == "Int":
            if isinstance(e.left, (ast.List, ast.Tuple)) and len(e.left.elts) == 1:
                return f"(List.replicate {b}.toNat {self.expr(e.left.elts[0], env)[0]})", ta
        self.bad(e, f"operator {type(e.op).__name__} on {ta}, {tb}")

    def e_BoolOp(self, e, env):
        parts = [self.expr(x, env) for x in e.values]
        if any(p[1] != "Bool" for p in parts):
            self.bad(e, "and/or on non-Bool operands in a value position")
        return "(" + (" && " if isinstance(e.op, ast.And) else " || ").join(p[0] for p in parts) + ")", "Bool"

    def e_IfExp(self, e, env):
        a, ta = self.expr(e.body, env)
        b, tb = self.expr(e.orelse, env)
        return f"(if {self.cond(e.test, env)} then {a} else {b})", ta or tb

    def _cmp(self, op, l, r, node):
        (a, ta), (b, tb) = l, r
        if isinstance(op, (ast.Eq, ast.NotEq)) and self.closed(ta) and self.closed(tb) and (tb == ("O", ta) or ta == ("O", tb)):
            a, b = (f"(some {a})", b) if tb == ("O", ta) else (a, f"(some {b})")     # x == None-able: equal iff it is that value (cells extension)
        if isinstance(op, (ast.Eq, ast.NotEq)):
            return f"({a} {'==' if isinstance(op, ast.Eq) else '!='} {b})"
        if isinstance(op, (ast.In, ast.NotIn)):
            if not tb or tb[0] != "L":
                self.bad(node, f"`in` on a value of type {tb}")
            return f"({'!' if isinstance(op, ast.NotIn) else ''}{b}.contains {a})"
        sym = {ast.Lt: "<", ast.LtE: "≤", ast.Gt: ">", ast.GtE: "≥"}.get(type(op))
        if sym and ta == "Int" and tb == "Int":
            return f"decide ({a} {sym} {b})"
        self.bad(node, f"comparison {type(op).__name__} on {ta}, {tb}")

    def components(self, x, env):
        """[(text, type)] of the components of a tuple literal / a value of a fixed-tuple type; None for anything else"""
        if isinstance(x, ast.Tuple) and len(x.elts) >= 2:
            return [self.expr(y, env) for y in x.elts]
        t, ty = self.expr(x, env)
        if ty and ty[0] == "T":
            n = len(ty) - 1
            return [(f"{t}" + ".2" * i + (".1" if i < n - 1 else ""), ty[i + 1]) for i in range(n)]
        return None

    def e_Compare(self, e, env):
        r = self.g_compare(e, env)
        if r is not None:
            return r
        operands = [e.left, *e.comparators]
        if len(e.ops) == 1 and isinstance(e.ops[0], (ast.Is, ast.IsNot)) and isinstance(e.comparators[0], ast.Constant) \
                and e.comparators[0].value is None:                       # `X is [not] None`, X an Option (cells extension)
            t, ty = self.expr(e.left, env)
            if ty and ty[0] == "O":
                return f"{t}.{'isSome' if isinstance(e.ops[0], ast.IsNot) else 'isNone'}", "Bool"
        # tuples (literals or values of a fixed-tuple type) compared lexicographically
        if len(e.ops) == 1 and isinstance(e.ops[0], (ast.Lt, ast.LtE, ast.Gt, ast.GtE)):
            sides = [self.components(x, env) for x in operands]
            if all(c is not None for c in sides) and len(sides[0]) == len(sides[1]):
                ls, rs = sides if isinstance(e.ops[0], (ast.Lt, ast.LtE)) else sides[::-1]       # a > b  is  b < a
                last = ast.Lt() if isinstance(e.ops[0], (ast.Lt, ast.Gt)) else ast.LtE()
                text = self._cmp(last, ls[-1], rs[-1], e)
                for l, r in reversed(list(zip(ls[:-1], rs[:-1]))):
                    text = f"({self._cmp(ast.Lt(), l, r, e)} || ({self._cmp(ast.Eq(), l, r, e)} && {text}))"
                return text, "Bool"
        vals = [self.expr(x, env) for x in operands]
        parts = [self._cmp(op, vals[i], vals[i + 1], e) for i, op in enumerate(e.ops)]
        return (parts[0] if len(parts) == 1 else "(" + " && ".join(parts) + ")"), "Bool"

    def e_Attribute(self, e, env):
        d = _dotted(e)
        if d and env.get("#narrow:" + d):             # `(x := obj.attr) is None: return` happened: obj.attr is `some x`
            return self.v(env["#narrow:" + d]), env[d][1]
        if d in env:                                  # state attribute held in a local
            return self.v(d), env[d]
        if isinstance(e.value, ast.Name) and e.value.id == "self" and self.fn.state and e.attr in self.fn.props \
                and self.fn.props[e.attr] in self.group:      # property of `self` read after state writes (cells extension)
            gfn, rty = self.group[self.fn.props[e.attr]]
            return f"({gfn.name} {self.cells_self_now(env)})", rty
        t, ty = self.expr(e.value, env)
        if ty and ty[0] == "R" and e.attr in self.fn.props and self.fn.props[e.attr] in self.group:
            gfn, rty = self.group[self.fn.props[e.attr]]
            return f"({gfn.name} {t})", rty
        if ty and ty[0] == "R" and e.attr in self.recs[ty[1]].fields:
            r = self.recs[ty[1]]
            return (r.access[e.attr].format(t) if r.extern else f"{t}.{e.attr}"), r.fields[e.attr]
        self.bad(e, f"attribute `{e.attr}` of a value of type {ty} is not declared in the registry")

    def e_Subscript(self, e, env):
        r = self.g_subscript(e, env)
        if r is not None:
            return r
        if _dotted(e.value) in self.fn.keyed:
            return self.expr(e.slice, env)
        t, ty = self.expr(e.value, env)
        k = e.slice
        if ty and ty[0] == "T" and isinstance(k, ast.Constant) and isinstance(k.value, int) and 0 <= k.value < len(ty) - 1:
            n = len(ty) - 1
            return t + ".2" * k.value + (".1" if k.value < n - 1 else ""), ty[k.value + 1]
        self.bad(e, f"subscript on a value of type {ty}")

    def comprehension(self, elt, gens, env, node, kind="map"):
        """[elt for p in it if c ...] (kind map) / all(...) / any(...)"""
        if not 1 <= len(gens) <= 2:
            self.bad(node, "comprehension with more than two `for`")
        g = gens[0]
        if g.is_async:
            self.bad(node, "async comprehension")
        it, ity = self.iterable(g.iter, env)
        if not ity or ity[0] != "L":
            self.bad(g.iter, f"iteration over a value of type {ity}")
        env2 = dict(env)
        pat = self.pattern(g.target, ity[1], env2)
        for c in g.ifs:
            it = f"(List.filter (fun {pat} => {self.cond(c, env2)}) {it})"
        if len(gens) == 2:
            if kind != "map":
                self.bad(node, "all/any over two `for`")
            inner, ty = self.comprehension(elt, gens[1:], env2, node)
            return f"(List.flatMap (fun {pat} => {inner}) {it})", ty
        if kind in ("all", "any"):
            return f"(List.{kind} {it} (fun {pat} => {self.cond(elt, env2)}))", "Bool"
        if isinstance(elt, ast.Name) and isinstance(g.target, ast.Name) and elt.id == g.target.id:
            return it, ity
        body, ety = self.expr(elt, env2)
        return f"(List.map (fun {pat} => {body}) {it})", ("L", ety)

    def e_ListComp(self, e, env):
        return self.comprehension(e.elt, e.generators, env, e)

    e_GeneratorExp = e_ListComp

    def iterable(self, e, env):
        """an expression in an iteration position: a tuple literal is iterated like a list literal"""
        if isinstance(e, ast.Tuple):
            e = ast.copy_location(ast.List(elts=e.elts, ctx=ast.Load()), e)
        return self.expr(e, env)

    def e_Call(self, e, env):
        f = _dotted(e.func)
        args = e.args
        if any(isinstance(a, ast.Starred) for a in args):
            self.bad(e, "*args")
        kw = {k.arg: k.value for k in e.keywords}
        if None in kw:
            self.bad(e, "**kwargs")
        if f in ("tuple", "list") and len(args) == 1 and not kw:
            t, ty = self.expr(args[0], env)
            if ty and ty[0] == "L":
                return t, ty
        if f in ("all", "any") and len(args) == 1 and isinstance(args[0], ast.GeneratorExp) and not kw:
            return self.comprehension(args[0].elt, args[0].generators, env, e, kind=f)
        if f in ("product", "itertools.product") and len(args) == 1 and set(kw) == {"repeat"}:
            (xs, tx), (n, tn) = self.iterable(args[0], env), self.expr(kw["repeat"], env)
            if tx and tx[0] == "L" and tn == "Int":
                return f"(Py.productRepeat {xs} {n}.toNat)", ("L", tx)
        if kw:
            self.bad(e, "keyword arguments")
        vals = [self.expr(a, env) if not (isinstance(a, ast.Constant) and a.value is None) else ("none", None) for a in args]
        tys = [v[1] for v in vals]
        if f == "len" and len(vals) == 1 and tys[0] and tys[0][0] == "R" and "__len__" in self.group:
            gfn, rty = self.group["__len__"]
            return f"({gfn.name} {vals[0][0]})", rty
        if f == "len" and len(vals) == 1 and tys[0] and tys[0][0] == "L":
            return f"({vals[0][0]}.length : Int)", "Int"
        if f == "abs" and tys == ["Int"]:
            return f"(Py.abs {vals[0][0]})", "Int"
        if f == "range" and tys in (["Int"], ["Int", "Int"]):
            lo, hi = ("0", vals[0][0]) if len(vals) == 1 else (vals[0][0], vals[1][0])
            return f"(Py.range {lo} {hi})", ("L", "Int")
        if f in ("nsmallest", "heapq.nsmallest") and len(vals) == 2 and tys[0] == "Int" and tys[1] and tys[1][0] == "L" and self.fn.order:
            return f"(Py.nsmallest {self.fn.order} {vals[0][0]}.toNat {vals[1][0]})", tys[1]
        if f == "zip" and len(vals) == 2 and all(t and t[0] == "L" for t in tys):
            return f"(List.zip {vals[0][0]} {vals[1][0]})", ("L", ("T", tys[0][1], tys[1][1]))
        if f and f.endswith(".get") and len(vals) == 2 and isinstance(args[1], ast.Constant) and args[1].value is None:
            t, ty = self.expr(e.func.value, env)
            if ty and ty[0] == "D":
                return f"(List.lookup {vals[0][0]} {t})", ("O", ty[2])
        if f and f.endswith(".copy") and not vals and isinstance(e.func, ast.Attribute):     # xs.copy() of a list: values are immutable
            t, ty = self.expr(e.func.value, env)
            if ty and ty[0] == "L":
                return t, ty
        if f and f.endswith(".keys") and not vals:          # keys of a dict used as an ordered set
            t, ty = self.expr(e.func.value, env)
            if ty and ty[0] == "L":
                return t, ty
        callee = f[5:] if f and f.startswith("self.") else f
        if callee in self.group:
            gfn, rty = self.group[callee]
            if rty and rty[0] == "E":
                self.bad(e, f"call of `{callee}`, which can raise, inside an expression")
            pre = [self.self_now(env, gfn)] if f.startswith("self.") and gfn.self_rec else []
            return "(" + " ".join([gfn.name, *pre, *[v[0] for v in vals]]) + ")", rty
        self.bad(e, f"call of `{f}` outside the subset / whitelist")

    # ------------------------------------------------------------------ statements
    def assigned(self, stmts):
        """names assigned in a block, in order of first assignment (loop targets included; OUT for effect calls)"""
        out = []

        def tgt(t):
            if isinstance(t, ast.Name):
                if t.id not in out:
                    out.append(t.id)
            elif isinstance(t, (ast.Tuple, ast.List)):
                for x in t.elts:
                    tgt(x)
            elif isinstance(t, ast.Subscript) and isinstance(t.value, ast.Name):
                tgt(t.value)
            elif isinstance(t, (ast.Subscript, ast.Attribute)):
                d = _dotted(t.value if isinstance(t, ast.Subscript) else t)
                if d and d not in out:
                    out.append(d)

        def walk(ss):
            for s in ss:
                if isinstance(s, ast.Assign):
                    for t in s.targets:
                        tgt(t)
                    if isinstance(s.value, ast.Call) and _dotted(s.value.func) in ("heappop", "heapq.heappop") and s.value.args:
                        d = _dotted(s.value.args[0])
                        if d and d not in out:
                            out.append(d)
                elif isinstance(s, (ast.AugAssign, ast.AnnAssign)):
                    tgt(s.target)
                elif isinstance(s, ast.Expr) and isinstance(s.value, ast.Call) and self.effect_self_key(s.value):
                    if OUT not in out:
                        out.append(OUT)         # a callback effect, whatever the receiver's local is called
                elif isinstance(s, ast.Expr) and isinstance(s.value, ast.Call) and self.callback_key(s.value):
                    for d in [*self.fn.state, "world_"]:
                        if d not in out:
                            out.append(d)       # a callback may change every state attribute and the world
                elif isinstance(s, ast.Expr) and isinstance(s.value, ast.Call) and _dotted(s.value.func) in self.fn.state_calls:
                    for d in self.fn.state_calls[_dotted(s.value.func)][2]:
                        if d not in out:
                            out.append(d)
                elif isinstance(s, ast.Expr) and isinstance(s.value, ast.Call) and isinstance(s.value.func, ast.Attribute):
                    d = OUT if (_dotted(s.value.func) in self.fn.effects or _dotted(s.value.func) in self.fn.snapshot) \
                        else _dotted(s.value.func.value)
                    if d and d not in out:
                        out.append(d)           # xs.append(..): xs is (re)assigned
                elif isinstance(s, ast.Expr) and isinstance(s.value, ast.Call) and s.value.args and \
                        _dotted(s.value.func) in ("heappush", "heapq.heappush"):
                    d = _dotted(s.value.args[0])
                    if d and d not in out:
                        out.append(d)
                elif isinstance(s, ast.If):
                    walk(s.body), walk(s.orelse)
                elif isinstance(s, (ast.For, ast.While)):
                    walk(s.body)
                elif isinstance(s, ast.Try):        # s_Try: the receiver's state is rebound, every branch may assign
                    for st in s.body:
                        if isinstance(st, ast.Assign) and isinstance(st.value, ast.Call) and _dotted(st.value.func) in self.fn.obj_calls:
                            for d in self.fn.obj_calls[_dotted(st.value.func)][2]:
                                if d not in out:
                                    out.append(d)
                    walk(s.body)
                    for h in s.handlers:
                        walk(h.body)
                    walk(s.orelse)
        walk(stmts)
        return out

    @staticmethod
    def escapes(stmts, loop=False):
        for s in stmts:
            if isinstance(s, (ast.Return, ast.Raise)) or (not loop and isinstance(s, (ast.Continue, ast.Break))):
                return True
            if isinstance(s, ast.If) and (Translator.escapes(s.body, loop) or Translator.escapes(s.orelse, loop)):
                return True
            if isinstance(s, (ast.For, ast.While)) and Translator.escapes(s.body, True):
                return True
            if isinstance(s, ast.Try):          # s_Try ends in a match whose last arm leaves the function (the error propagates)
                return True
        return False

    # ------------------------------------------------------------------ grid state (2-D tables, sets, objects named by an id)
    # `self._grid[x][y]` read / write on a value of type List (List t): Py.get2 / Py.set2 (indices assumed within 0..len-1:
    # negative indices and IndexError are outside the subset, the equivalence theorems carry the in-bounds hypothesis);
    # `tbl[pos] = b` on such a table with a pair key (numpy 2-D array indexed by a tuple): Py.set2 tbl pos.1 pos.2 b;
    # `s.add(k)` / `s.discard(k)` on a state attribute of list type (a set kept as the list of its members):
    # Py.setInsert / Py.setDiscard; an object parameter listed in the registry's `ident` is stored / compared as its id
    # field (`cell = agent` stores `some agent.unique_id` in an Option cell, `cell is not agent`, `agent in cell`);
    # `obj.attr = e` on an Option-typed state attribute stores `some e` / `none`; `X is None` in an expression: X.isNone;
    # `if (x := obj.attr) is None: return …` binds x in the `some` branch and narrows `obj.attr` to x until reassigned.
    def self_now(self, env, callee):
        """the `self` a method translated before is called on: the state attributes IT reads carry their current values"""
        reads = getattr(callee, "reads_", set())
        upd = [(a[5:], self.v(a)) for a in self.fn.state if a.startswith("self.") and a in env and a[5:] in reads]
        return "{ self with " + ", ".join(f"{f} := {t}" for f, t in upd) + " }" if upd else "self"

    def g_ident(self, e):
        if isinstance(e, ast.Name) and e.id in self.fn.ident:
            return f"{self.v(e.id)}.{self.fn.ident[e.id]}"
        return None

    def g_cell(self, e, env):
        """(table text, i, j, element type) of `tbl[i][j]` / `tbl[pair]` on a value of type List (List t), else None"""
        if not isinstance(e, ast.Subscript):
            return None
        if isinstance(e.value, ast.Subscript):
            if _dotted(e.value.value) is None or _dotted(e.value.value) in self.fn.keyed:
                return None
            t, ty = self.expr(e.value.value, env)
            if ty and ty[0] == "L" and ty[1] and ty[1][0] == "L":
                (i, ti), (j, tj) = self.expr(e.value.slice, env), self.expr(e.slice, env)
                if ti == "Int" and tj == "Int":
                    return t, i, j, ty[1][1]
            return None
        if _dotted(e.value) is None or _dotted(e.value) in self.fn.keyed:
            return None
        t, ty = self.expr(e.value, env)
        if ty and ty[0] == "L" and ty[1] and ty[1][0] == "L":
            key, tk = self.expr(e.slice, env)
            if tk == ("T", "Int", "Int"):
                return t, f"{key}.1", f"{key}.2", ty[1][1]
        return None

    def g_subscript(self, e, env):
        c = self.g_cell(e, env)
        if c is None:
            return None
        return f"(Py.get2 {c[0]} {c[1]} {c[2]})", c[3]

    def g_stored(self, e, env, ty):
        """text of the value `e` stored where a value of type `ty` is expected (objects by id, Option injection)"""
        if isinstance(e, ast.Constant) and e.value is None and ty and ty[0] == "O":
            return "none"
        i = self.g_ident(e)
        t, te = (i, "Int") if i else self.expr(e, env)
        if ty and ty[0] == "O" and te == ty[1]:
            return f"(some {t})"
        if te == ty or not self.closed(te):
            return t
        self.bad(e, f"a value of type {te} stored where {ty} is expected")

    def g_compare(self, e, env):
        if len(e.ops) != 1:
            return None
        op, l, r = e.ops[0], e.left, e.comparators[0]
        if isinstance(op, (ast.Is, ast.IsNot)) and isinstance(r, ast.Constant) and r.value is None:
            t, ty = self.expr(l, env)
            if ty and ty[0] == "O":
                return f"{t}.{'isNone' if isinstance(op, ast.Is) else 'isSome'}", "Bool"
            self.bad(e, f"`is None` on a value of type {ty}")
        if isinstance(op, (ast.Is, ast.IsNot)) and self.g_ident(r):
            t, ty = self.expr(l, env)
            if ty == ("O", "Int"):
                return f"({t} {'==' if isinstance(op, ast.Is) else '!='} some {self.g_ident(r)})", "Bool"
            self.bad(e, f"identity test of a value of type {ty} against an object")
        if isinstance(op, (ast.In, ast.NotIn)) and self.g_ident(l):
            t, ty = self.expr(r, env)
            if ty == ("L", "Int"):
                return f"({'!' if isinstance(op, ast.NotIn) else ''}{t}.contains {self.g_ident(l)})", "Bool"
            self.bad(e, f"membership of an object in a value of type {ty}")
        return None

    def g_assign(self, s, env, k):
        tg = s.targets[0]
        if isinstance(tg, ast.Name) and isinstance(s.value, ast.Call):
            r = self.g_call_raising(tg, s.value, env, k)
            if r is not None:
                return r
        if isinstance(tg, ast.Name):
            for key in [x for x in env if x.startswith("#narrow:") and env[x] == tg.id]:
                env.pop(key)
            return None
        if isinstance(tg, ast.Subscript):
            root = tg.value.value if isinstance(tg.value, ast.Subscript) else tg.value
            d = _dotted(root)
            if d in self.fn.state and d in env:
                c = self.g_cell(tg, env)
                if c is not None:
                    return self.let(self.v(d), f"Py.set2 {c[0]} {c[1]} {c[2]} {self.g_stored(s.value, env, c[3])}") + k(dict(env))
            return None
        if isinstance(tg, ast.Attribute) and isinstance(s.value, ast.Name) and (env.get(s.value.id) or ("",))[0] == "R" \
                and env[s.value.id][1] in self.fn.ref_key:
            return None     # a stored reference to a record object named by its `ref_key` field: s_Assign's cells case
        if isinstance(tg, ast.Attribute) and _dotted(tg) in self.fn.state and _dotted(tg) in env and env[_dotted(tg)][0] == "O":
            d = _dotted(tg)
            env = {x: y for x, y in env.items() if x != "#narrow:" + d}
            return self.let(self.v(d), self.g_stored(s.value, env, env[d]), env[d], annotate=True) + k(env)
        return None

    def g_callstmt(self, c, env, k):
        r = self.g_call_mutator(c, env, k)
        if r is not None:
            return r
        if not isinstance(c.func, ast.Attribute) or c.keywords or len(c.args) != 1:
            return None
        meth, obj = c.func.attr, c.func.value
        d = _dotted(obj)
        if d in self.fn.state and d in env and env[d][0] == "L" and meth in ("add", "discard"):
            key, kty = self.expr(c.args[0], env)
            if kty != env[d][1]:
                self.bad(c, f"`{meth}` of a value of type {kty} on a set of {env[d][1]}")
            return self.let(self.v(d), f"Py.{'setInsert' if meth == 'add' else 'setDiscard'} {self.v(d)} {key}") + k(env)
        if isinstance(obj, ast.Subscript) and isinstance(obj.value, ast.Subscript) and meth in ("append", "remove"):
            d = _dotted(obj.value.value)
            cell = self.g_cell(obj, env) if d in self.fn.state and d in env else None
            if cell is not None and cell[3] == ("L", "Int"):
                x = self.g_stored(c.args[0], env, "Int")
                cur = f"(Py.get2 {cell[0]} {cell[1]} {cell[2]})"
                if meth == "append":
                    return self.let(self.v(d), f"Py.set2 {cell[0]} {cell[1]} {cell[2]} ({cur} ++ [{x}])") + k(env)
                if not self.can_raise:
                    self.bad(c, "list.remove on a cell raises ValueError: the registry must say may_raise")
                return [f"if ({cur}.contains {x}) then ("] + \
                    _ind(self.let(self.v(d), f"Py.set2 {cell[0]} {cell[1]} {cell[2]} ({cur}.erase {x})") + k(env)) + \
                    [") else (", "  " + self.wrap_ret(None, error="Value"), ")"]
        return None

    def g_self_for(self, env, gfn):
        """`self` as the callee's record: the caller's own record (with the current state), or — another record type — rebuilt
        from the fields of the same name"""
        if gfn.self_rec == self.fn.self_rec:
            return self.self_now(env, gfn)
        mine, theirs = self.recs[self.fn.self_rec].fields, self.recs[gfn.self_rec].fields
        if any(f not in mine or mine[f] != t for f, t in theirs.items()):
            self.bad(None, f"call of `{gfn.qualname}` on a record without the fields of {gfn.self_rec}")
        cur = {a[5:]: self.v(a) for a in self.fn.state if a.startswith("self.") and a in env}
        return "({ " + ", ".join(f"{f} := {cur.get(f, 'self.' + f)}" for f in theirs) + f" }} : {gfn.self_rec})"

    def g_callee(self, c):
        """the group function a call `self.m(..)` / `super().m(..)` resolves to (the methods are registered in resolution order:
        `super().m` inside `m` is the `m` translated before), else None"""
        f = c.func
        if not isinstance(f, ast.Attribute) or c.keywords:
            return None
        via_self = isinstance(f.value, ast.Name) and f.value.id == "self"
        via_super = isinstance(f.value, ast.Call) and isinstance(f.value.func, ast.Name) and f.value.func.id == "super" \
            and not f.value.args and f.attr == self.fn.qualname.split(".")[-1]
        if (via_self or via_super) and f.attr in self.group and self.group[f.attr][0].self_rec:
            return self.group[f.attr]
        return None

    def g_call_raising(self, tg, c, env, k):
        """`x = self.m(args)` where m (translated before, no state) can raise: the error is propagated"""
        cal = self.g_callee(c)
        if cal is None or cal[0].state or not cal[1] or cal[1][0] != "E":
            return None
        gfn, rty = cal
        if not self.can_raise:
            self.bad(c, f"`{gfn.qualname}` can raise: the registry must say may_raise")
        args = [self.expr(a, env)[0] for a in c.args]
        call = " ".join([gfn.name, self.g_self_for(env, gfn), *args])
        env = dict(env)
        for key in [x for x in env if x.startswith("#narrow:") and env[x] == tg.id]:
            env.pop(key)
        env[tg.id] = rty[1]
        return [f"match ({call}) with", f"| .error err_ => {self.wrap_err('err_')}", f"| .ok {self.v(tg.id)} => ("] + _ind(k(env)) + [")"]

    def wrap_err(self, var):
        vals = [f".error {var}"] + [self.v(o) for o in self.outs]
        return vals[0] if len(vals) == 1 else "(" + ", ".join(vals) + ")"

    def g_call_mutator(self, c, env, k):
        """`self.m(obj, args)` / `super().m(obj, args)` as a statement, m a state-changing function translated before: it is handed
        the current state and its result tables become the caller's (the caller must declare the same state attributes)"""
        cal = self.g_callee(c)
        if cal is None or not cal[0].state:
            return None
        gfn, rty = cal
        if list(gfn.state) != list(self.fn.state) or gfn.effects or gfn.snapshot or self.fn.effects or self.fn.snapshot:
            self.bad(c, f"`{gfn.qualname}` changes other state than the caller declares")
        args = []
        for a in c.args:
            t, ty = self.expr(a, env)
            if ty and ty[0] == "R" and isinstance(a, ast.Name):
                cur = [(x.split(".", 1)[1], self.v(x)) for x in self.fn.state if x.startswith(a.id + ".") and x in env]
                if cur:
                    t = "{ " + t + " with " + ", ".join(f"{f} := {v}" for f, v in cur) + " }"
            args.append(t)
        call = " ".join([gfn.name, self.g_self_for(env, gfn), *args])
        outs = [self.v(o) for o in self.fn.state]
        env = {x: y for x, y in env.items() if not x.startswith("#narrow:")}
        raising = bool(rty) and rty[0] == "T" and isinstance(rty[1], tuple) and rty[1][0] == "E"
        if not raising:
            return [f"let ({', '.join(outs)}) := {call}"] + k(env)
        if not self.can_raise:
            self.bad(c, f"`{gfn.qualname}` can raise: the registry must say may_raise")
        return [f"let (res_, {', '.join(outs)}) := {call}", "match res_ with", f"| .error err_ => {self.wrap_err('err_')}",
                "| .ok _ => ("] + _ind(k(env)) + [")"]

    def g_walrus_ok(self, node):
        """ids of the walrus expressions in the one supported shape: `if (x := obj.attr) is None: <returns>`"""
        ok = set()
        for n in ast.walk(node):
            if isinstance(n, ast.If) and self.g_walrus(n) is not None:
                ok.add(id(n.test.left))
        return ok

    @staticmethod
    def g_walrus(s):
        t = s.test
        if isinstance(t, ast.Compare) and len(t.ops) == 1 and isinstance(t.ops[0], ast.Is) and isinstance(t.left, ast.NamedExpr) \
                and isinstance(t.comparators[0], ast.Constant) and t.comparators[0].value is None \
                and isinstance(t.left.target, ast.Name) and _dotted(t.left.value) is not None and not s.orelse:
            return t.left.target.id, t.left.value
        return None

    def g_if(self, s, env, k):
        w = self.g_walrus(s)
        if w is None:
            return None
        x, src = w
        t, ty = self.expr(src, env)
        if not ty or ty[0] != "O" or not self.escapes(s.body):
            self.bad(s, "walrus test outside the shape `if (x := obj.attr) is None: return`")
        a = self.block(s.body, dict(env, **{x: ty}), k)           # x is None here
        some_env = dict(env, **{x: ty[1]})
        some_env["#narrow:" + _dotted(src)] = x
        b = k(some_env)
        return [f"match {t} with", "| none => ("] + _ind(a) + [")", f"| some {self.v(x)} => ("] + _ind(b) + [")"]

    def g_retval(self, s, env):
        ty = self.fn.ret
        if s.value is None or (isinstance(s.value, ast.Constant) and s.value.value is None):
            if ty[0] != "O":
                self.bad(s, f"`return None` in a function declared to return {ty}")
            return "none"
        if isinstance(s.value, ast.List) and not s.value.elts and ty[0] == "L":
            return "[]"
        t, te = self.expr(s.value, env)
        if te != ty:
            self.bad(s, f"return of a value of type {te} in a function declared to return {ty}")
        return t

    def wrap_ret(self, text, error=None):
        """the function's result: the value (`.ok v` / `.error e` if it can raise), then the effects / state"""
        if error is not None:
            val = f".error Py.Err.{error}"
        else:
            val = (text if text is not None else "()")
            if self.can_raise:
                val = f".ok {val}"
        if text is None and error is None and self.outs and not self.can_raise and not self.returns_value:
            vals = [self.v(o) for o in self.outs]
        else:
            vals = [val] + [self.v(o) for o in self.outs]
        return vals[0] if len(vals) == 1 else "(" + ", ".join(vals) + ")"

    def note_ret(self, ty):
        if self.ret_ty is None:
            self.ret_ty = ty

    def block(self, stmts, env, tail):
        """lines of the Lean expression for `stmts` followed by `tail(env)`"""
        if not stmts:
            return tail(env)
        s, rest = stmts[0], stmts[1:]

        def k(env):
            return self.block(rest, env, tail)

        if isinstance(s, ast.Pass) or (isinstance(s, ast.Expr) and isinstance(s.value, ast.Constant)):
            return k(env)
        if isinstance(s, ast.Return):
            if self.fn.ret is not None:
                return [self.wrap_ret(self.g_retval(s, env))]
            if s.value is None or (isinstance(s.value, ast.Constant) and s.value.value is None):
                return [self.wrap_ret(None)]
            t, ty = self.expr(s.value, env)
            self.note_ret(ty)
            return [self.wrap_ret(t)]
        if isinstance(s, ast.Raise):
            exc = s.exc.func if isinstance(s.exc, ast.Call) else s.exc
            name = _dotted(exc) if exc is not None else None
            if name not in ERRORS:
                self.bad(s, f"raise of `{name}`")
            return [self.wrap_ret(None, error=ERRORS[name])]
        if isinstance(s, ast.Continue):
            if not self.loops:
                self.bad(s, "continue outside a loop")
            return self.loops[-1](env)      # the state tuple of the innermost loop: the rest of the body is skipped
        if isinstance(s, ast.AnnAssign):
            if s.value is None:
                return k(env)
            ann = self.annotation(s.annotation)
            s = ast.copy_location(ast.Assign(targets=[s.target], value=s.value), s)
            if ann is not None and isinstance(s.targets[0], ast.Name):
                return self.s_Assign(s, env, k, ann)
        if isinstance(s, ast.AugAssign):
            s = ast.copy_location(ast.Assign(targets=[s.target], value=ast.copy_location(
                ast.BinOp(left=self.as_load(s.target), op=s.op, right=s.value), s)), s)
        if isinstance(s, ast.Assign):
            return self.s_Assign(s, env, k)
        if isinstance(s, ast.Expr) and isinstance(s.value, ast.Call):
            return self.s_CallStmt(s.value, env, k)
        if isinstance(s, ast.If):
            return self.s_If(s, env, k)
        if isinstance(s, ast.For):
            return self.s_For(s, env, k)
        if isinstance(s, ast.While):
            return self.s_While(s, env, k)
        if isinstance(s, ast.Try):
            return self.s_Try(s, env, k)
        if isinstance(s, ast.Break):
            if not self.breaks or self.breaks[-1] is None:
                self.bad(s, "break outside a while loop")
            return self.breaks[-1](env)
        self.bad(s, f"statement {type(s).__name__} outside the subset")

    @staticmethod
    def as_load(t):
        t2 = ast.parse(ast.unparse(t), mode="eval").body
        return ast.copy_location(t2, t)

    def let(self, pat, text, ty=None, annotate=False):
        return [f"let {pat}{' : ' + lean_ty(ty) if annotate and ty and self.closed(ty) else ''} := {text}"]

    @staticmethod
    def closed(ty):
        if ty is None or ty == ():
            return False
        return True if isinstance(ty, str) else all(Translator.closed(x) for x in ty[1:])

    def annotation(self, a):
        """type of a local's annotation: int, bool, list[X], tuple[X, ...], tuple[A, B]; anything else: None (inferred)"""
        if isinstance(a, ast.Name):
            return {"int": "Int", "bool": "Bool"}.get(a.id)
        if isinstance(a, ast.Subscript) and isinstance(a.value, ast.Name):
            args = a.slice.elts if isinstance(a.slice, ast.Tuple) else [a.slice]
            if a.value.id == "tuple" and len(args) == 2 and isinstance(args[1], ast.Constant) and args[1].value is Ellipsis:
                args, kind = args[:1], "L"
            else:
                kind = {"list": "L", "tuple": "T"}.get(a.value.id)
            ts = [self.annotation(x) for x in args]
            if kind and all(t is not None for t in ts) and (kind == "T" and len(ts) >= 2 or kind == "L" and len(ts) == 1):
                return (kind, *ts)
        return None

    def s_Assign(self, s, env, k, ann=None):
        if len(s.targets) != 1:
            self.bad(s, "chained assignment")
        r = self.g_assign(s, env, k)
        if r is not None:
            return r
        tg = s.targets[0]
        env = dict(env)
        if isinstance(tg, ast.Attribute) and _dotted(tg) and _dotted(tg) + "=" in self.fn.effects:
            # registry effect `self.PROP=`: the assignment runs the property's setter with this value (cells extension)
            return self.let(OUT, f"{OUT} ++ [({self.expr(s.value, env)[0]})]") + k(env)
        if isinstance(tg, ast.Attribute) and _dotted(tg) in env and _dotted(tg) in self.fn.state and isinstance(s.value, ast.Name) \
                and (env.get(s.value.id) or ("",))[0] == "R" and env[s.value.id][1] in self.fn.ref_key:
            # a reference to a record object stored in an attribute: the object is named by its registry `ref_key` field
            key = f"{self.v(s.value.id)}.{self.fn.ref_key[env[s.value.id][1]]}"
            sty = self.fn.state[_dotted(tg)]
            return self.let(self.v(_dotted(tg)), f"(some {key})" if sty[0] == "O" else key, sty, annotate=True) + k(env)
        if isinstance(tg, ast.Subscript) and _dotted(tg.value) in env:
            x, tx = _dotted(tg.value), env[_dotted(tg.value)]
            if tx and tx[0] == "D":
                (key, _), (val, _) = self.expr(tg.slice, env), self.expr(s.value, env)
                return self.let(self.v(x), f"({key}, {val}) :: {self.v(x)}") + k(env)
            if tx and tx[0] == "L" and isinstance(s.value, ast.Constant) and s.value.value is True and env.get("#set:" + x):
                key, kty = self.expr(tg.slice, env)
                self.learn(env, x, kty)
                return self.let(self.v(x), f"Py.setInsert {self.v(x)} {key}") + k(env)
            if tx and tx[0] == "L":
                (i, ti), (val, _) = self.expr(tg.slice, env), self.expr(s.value, env)
                if ti == "Int":
                    return self.let(self.v(x), f"{self.v(x)}.set {i}.toNat {val}") + k(env)
            self.bad(s, "subscript assignment outside the subset")
        if isinstance(tg, ast.Attribute) and _dotted(tg) in env and _dotted(tg) in self.fn.state:
            t, ty = self.expr(s.value, env)
            return self.let(self.v(_dotted(tg)), t, ty, annotate=True) + k(env)
        if isinstance(s.value, ast.Dict) and not s.value.keys and isinstance(tg, ast.Name):
            env[tg.id] = ("L", None)          # dict used as an insertion-ordered set of keys; element type from first insert
            env["#set:" + tg.id] = True
            return [f"let {self.v(tg.id)}{self.pending(env, tg.id)} := []"] + k(env)
        if isinstance(s.value, ast.Call) and _dotted(s.value.func) in ("heappop", "heapq.heappop") and isinstance(tg, ast.Name) \
                and len(s.value.args) == 1 and _dotted(s.value.args[0]) in env and self.fn.order:
            h = _dotted(s.value.args[0])
            hty = env[h]
            if not hty or hty[0] != "L":
                self.bad(s, f"heappop on a value of type {hty}")
            env[tg.id] = hty[1]
            return [f"match Mesa.Heap.heappop {self.fn.order} {self.v(h)} with", f"| none => {self.wrap_ret(None, error='Index')}",
                    f"| some ({self.v(tg.id)}, {self.v(h)}) => ("] + _ind(k(env)) + [")"]
        t, ty = self.expr(s.value, env)
        if ann is not None and not self.closed(ty):
            ty = ann                       # e.g. `xs: list[int] = []`
        pat = self.pattern(tg, ty, env)
        if isinstance(tg, ast.Name) and ty and ty[0] == "L" and not self.closed(ty) and t == "[]":
            return [f"let {pat}{self.pending(env, tg.id)} := []"] + k(env)
        return self.let(pat, t, ty, annotate=isinstance(tg, ast.Name)) + k(env)

    def pending(self, env, x):
        """placeholder for the type annotation of an empty list / dict whose element type is learnt at its first insert"""
        tok = f"⟪{len(self.tokens)}⟫"
        self.tokens[tok] = None
        env["#tok:" + x] = tok
        return tok

    def learn(self, env, x, elty):
        if self.closed(elty):
            if not self.closed(env.get(x)):
                env[x] = ("L", elty)
            tok = env.get("#tok:" + x)
            if tok and self.tokens.get(tok) is None:
                self.tokens[tok] = " : " + lean_ty(("L", elty))

    def s_CallStmt(self, c, env, k):
        f = _dotted(c.func)
        env = dict(env)
        r = self.g_callstmt(c, env, k)
        if r is not None:
            return r
        if f in ("heappush", "heapq.heappush") and len(c.args) == 2 and not c.keywords and _dotted(c.args[0]) in env and self.fn.order:
            h = _dotted(c.args[0])
            return self.let(self.v(h), f"Mesa.Heap.heappush {self.fn.order} {self.v(h)} {self.expr(c.args[1], env)[0]}") + k(env)
        if f in self.fn.ignore_calls:
            if any(isinstance(n, (ast.Call, ast.NamedExpr, ast.Await, ast.Yield)) for a in [*c.args, *[k.value for k in c.keywords]]
                   for n in ast.walk(a)):
                self.bad(c, f"ignored call `{f}` with a call inside its arguments")
            return k(env)
        if f in self.fn.snapshot:
            va, kw = self.passthrough
            ok = [a.value.id for a in c.args if isinstance(a, ast.Starred) and isinstance(a.value, ast.Name)] == ([va] if va else []) \
                and len(c.args) == (1 if va else 0) \
                and [(k.arg, getattr(k.value, "id", None)) for k in c.keywords] == ([(None, kw)] if kw else [])
            if not ok:
                self.bad(c, f"`{f}` must be called with exactly the function's own *args / **kwargs")
            vals = [self.v(x) for x in self.fn.snapshot[f]] + [self.v(x) for x in (va, kw) if x in self.fn.varargs]
            return self.let(OUT, f"{OUT} ++ [{vals[0] if len(vals) == 1 else '(' + ', '.join(vals) + ')'}]") + k(env)
        if f in self.fn.effect_tags:
            if c.args or c.keywords or self.fn.effects.get(f) != "Int":
                self.bad(c, f"tagged effect call `{f}` must have no arguments (and the effect type Int)")
            return self.let(OUT, f"{OUT} ++ [{int(self.fn.effect_tags[f])}]") + k(env)
        if self.callback_key(c):
            par = self.fn.callback[self.callback_key(c)]
            tup = "(" + ", ".join(self.v(o) for o in self.outs if o != OUT) + ")"
            t, ty = self.expr(c.func.value, env)
            if ty != self.callback_recv:
                self.bad(c, f"callback `{f}` on a receiver of type {ty}")
            err = self.wrap_ret(None, error="Fuel").replace(".error Py.Err.Fuel", ".error err_", 1)
            return [f"match {par} {tup} {t} with", f"| (.ok _, {tup}) => ("] + _ind(k(env)) + [")", f"| (.error err_, {tup}) => {err}"]
        if f in self.fn.state_calls:
            meth, rec, attrs = self.fn.state_calls[f]
            gfn, rty = self.group.get(meth, (None, None))
            if gfn is None or c.keywords or len(c.args) != len(gfn.params) or list(self.recs[rec].fields) != \
                    [a.split(".", 1)[1] for a in gfn.state] or len(attrs) != 1 or rty != env.get(attrs[0]):
                self.bad(c, f"state call `{f}`: `{meth}` is not a translated method with exactly the state {attrs}")
            recv = "{ " + ", ".join(f"{fl} := {self.v(a)}" for fl, a in zip(self.recs[rec].fields, attrs)) + " }"
            return self.let(self.v(attrs[0]), " ".join([gfn.name, recv] + [self.expr(a, env)[0] for a in c.args])) + k(env)
        if self.effect_self_key(c):
            key = self.effect_self_key(c)
            t, ty = self.expr(c.func.value, env)
            ety = self.fn.effects[key]
            if ty != (ety[1] if ety[0] == "T" and len(ety) == 2 else ety):
                self.bad(c, f"callback effect `{f}` on a receiver of type {ty}")
            return self.let(OUT, f"{OUT} ++ [{t}]") + k(env)
        if f in self.fn.effects:
            args = list(c.args)
            names = self.fn.effect_params.get(f)
            if c.keywords and names and all(k.arg in names[len(args):] for k in c.keywords):
                kw = {k.arg: k.value for k in c.keywords}
                if len(kw) == len(c.keywords) and len(args) + len(kw) == len(names):
                    args += [kw[n] for n in names[len(args):]]       # pure arguments: evaluation order does not matter
                else:
                    self.bad(c, f"effect call `{f}`: keywords do not complete the positional arguments")
            elif c.keywords:
                self.bad(c, f"effect call `{f}` with keyword arguments")
            vals = [self.expr(a, env)[0] for a in args]
            if len(vals) != len(self.fn.effects[f]) - 1:
                self.bad(c, f"effect call `{f}` with an unexpected argument list")
            return self.let(OUT, f"{OUT} ++ [({', '.join(vals)})]") + k(env)
        r = self.cells_state_list_call(c, env, k)      # `self._xs.append(e)` / `self._xs.remove(e)` on a state list (cells extension)
        if r is not None:
            return r
        r = self.cells_record_method_call(c, env, k)   # `param.m(args)`: a translated mutator of a record parameter (cells extension)
        if r is not None:
            return r
        if isinstance(c.func, ast.Attribute) and isinstance(c.func.value, ast.Name) and c.func.value.id in env:
            x, tx, meth = c.func.value.id, env[c.func.value.id], c.func.attr
            if tx and tx[0] == "L" and len(c.args) == 1 and not c.keywords and meth in ("append", "remove"):
                t, ty = self.expr(c.args[0], env)
                if meth == "append":
                    self.learn(env, x, ty)
                return self.let(self.v(x), f"{self.v(x)} ++ [{t}]" if meth == "append" else f"{self.v(x)}.erase {t}") + k(env)
            if env.get("#set:" + x) and meth == "pop" and len(c.args) == 2 and isinstance(c.args[1], ast.Constant) \
                    and c.args[1].value is None:
                return self.let(self.v(x), f"Py.setDiscard {self.v(x)} {self.expr(c.args[0], env)[0]}") + k(env)
        self.bad(c, f"call statement `{f}` outside the subset / whitelist")

    def join_vars(self, blocks, env):
        """variables assigned in the blocks that exist afterwards: defined before, or assigned in every block"""
        sets = [self.assigned(b) for b in blocks]
        order = []
        for a in sets:
            for x in a:
                if x not in order:
                    order.append(x)
        res = []
        for x in order:
            if x in env and not x.startswith("#"):
                res.append(x)
            elif all(x in a for a in sets) and "." not in x:
                res.append(x)
        return res

    def s_If(self, s, env, k):
        t = s.test
        r = self.g_if(s, env, k)
        if r is not None:
            return r
        if isinstance(t, ast.Compare) and len(t.ops) == 1 and isinstance(t.ops[0], (ast.Is, ast.IsNot)) and \
                isinstance(t.left, ast.Name) and isinstance(t.comparators[0], ast.Constant) and t.comparators[0].value is None:
            x, tx = t.left.id, env.get(t.left.id)
            if not tx or tx[0] != "O":
                self.bad(t, f"`is None` test on a value of type {tx}")
            some_b, none_b = (s.body, s.orelse) if isinstance(t.ops[0], ast.IsNot) else (s.orelse, s.body)
            if not (self.escapes(some_b) or self.escapes(none_b)):
                self.bad(s, "`is None` test whose branches do not return (only `if x is [not] None: return …` is in the subset)")
            a = self.block(some_b, dict(env, **{x: tx[1]}), k)
            b = self.block(none_b, {kk: vv for kk, vv in env.items() if kk != x}, k)
            return [f"match {self.v(x)} with", f"| some {self.v(x)} => ("] + _ind(a) + [")", "| none => ("] + _ind(b) + [")"]
        c = self.cond(s.test, env)
        if self.escapes(s.body) or self.escapes(s.orelse):
            a = self.block(s.body, dict(env), k)
            b = self.block(s.orelse, dict(env), k)
            return [f"if {c} then ("] + _ind(a) + [") else ("] + _ind(b) + [")"]
        vs = self.join_vars([s.body, s.orelse], env)
        if not vs:
            return k(env)
        tup = self.tup(vs)
        envs = []

        def fin(e):
            envs.append(e)
            return [tup]
        a = self.block(s.body, dict(env), fin)
        b = self.block(s.orelse, dict(env), fin)
        env = dict(env)
        for x in vs:
            tys = [e.get(x) for e in envs if e.get(x) is not None and self.closed(e.get(x))]
            env[x] = tys[0] if tys else next((e.get(x) for e in envs if e.get(x) is not None), None)
            for e in envs:
                for tag in ("#set:", "#tok:"):
                    if e.get(tag + x):
                        env[tag + x] = e[tag + x]
        return [f"let {tup} := if {c} then ("] + _ind(a) + [") else ("] + _ind(b) + [")"] + k(env)

    def s_While(self, s, env, k):
        """`while c: body; rest` → an auxiliary structurally recursive definition over `fuel`:
             NAME (fuel+1) vars = if c then (body; NAME fuel vars') else rest        NAME 0 vars = error Fuel
           `vars` are all variables in scope; `continue` is the recursive call, `break` is `rest`, `return` returns."""
        if not self.fn.fuel:
            self.bad(s, "while loop (the registry does not give this function a fuel parameter)")
        if s.orelse:
            self.bad(s, "while/else")
        names = [x for x in env if not x.startswith("#")]
        if "fuel" in names:
            self.bad(s, "a variable named fuel")
        for x in names:
            if not self.closed(env[x]):
                self.bad(s, f"type of `{x}` unknown at the while loop")
        name = f"{self.fn.name}.while{len(self.aux) + 1}"

        def again(e):
            return [" ".join([name, "fuel", *[self.v(x) for x in names]])]
        self.aux.append(None)
        idx = len(self.aux) - 1
        c = self.cond(s.test, env)
        self.loops.append(again)
        self.breaks.append(lambda e: k(dict(e)))
        body = self.block(s.body, dict(env), again)
        self.loops.pop()
        self.breaks.pop()
        binders = " ".join(f"({self.v(x)} : {lean_ty(env[x])})" for x in names)
        head = [f"def {name} (fuel : Nat) {binders} : ⟪RET⟫ :=", "  match fuel with",
                f"  | 0 => {self.wrap_ret(None, error='Fuel')}", "  | fuel+1 =>"]
        if isinstance(s.test, ast.Constant) and s.test.value is True and not any(isinstance(n, ast.Break) for n in ast.walk(s)):
            self.aux[idx] = head + _ind(body, 4)          # `while True:` without break: what follows is unreachable
        else:
            rest = k(dict(env))
            self.aux[idx] = head + [f"    if {c} then ("] + _ind(body, 6) + ["    ) else ("] + _ind(rest, 6) + ["    )"]
        return again(env)

    def effect_self_key(self, c):
        """the registry key of a callback effect `<local>.meth()` (no arguments; the local may have any name), or None"""
        if isinstance(c.func, ast.Attribute) and isinstance(c.func.value, ast.Name) and not c.args and not c.keywords:
            for key in self.fn.effect_self:
                if key in self.fn.effects and key.split(".")[-1] == c.func.attr and key.count(".") == 1:
                    return key
        return None

    def callback_key(self, c):
        """the registry key of a callback `<local>.meth()` (no arguments; the local may have any name), or None"""
        if isinstance(c.func, ast.Attribute) and isinstance(c.func.value, ast.Name) and not c.args and not c.keywords:
            for key in self.fn.callback:
                if key.split(".")[-1] == c.func.attr and key.count(".") == 1:
                    return key
        return None

    def s_Try(self, s, env, k):
        """`try: x = self.o.m() / except IndexError: H / [else: E]; rest` with `self.o.m` in the registry's obj_calls: a match on
           the result of the translated `m` (value-or-error, state of the receiver): `.ok x` → E; rest, `.error Index` → H; rest,
           any other error (only `Fuel` can occur) propagates.  The receiver's state is rebound in every branch."""
        h = s.handlers[0] if len(s.handlers) == 1 else None
        st = s.body[0] if len(s.body) == 1 else None
        if s.finalbody or h is None or h.name is not None or _dotted(h.type) != "IndexError":
            self.bad(s, "try statement other than `try: .. except IndexError: .. [else: ..]`")
        if not (isinstance(st, ast.Assign) and len(st.targets) == 1 and isinstance(st.targets[0], ast.Name)
                and isinstance(st.value, ast.Call) and not st.value.args and not st.value.keywords
                and _dotted(st.value.func) in self.fn.obj_calls):
            self.bad(s, "try body other than one assignment `x = <registry obj_call>()`")
        meth, rec, attrs, *fuel_expr = self.fn.obj_calls[_dotted(st.value.func)]
        if meth not in self.group:
            self.bad(s, f"`{meth}` is not translated before this function")
        gfn, rty = self.group[meth]
        if not (rty and rty[0] == "T" and rty[1][0] == "E" and list(gfn.state) and len(rty) - 2 == len(attrs) == len(gfn.state)
                and all(a in env for a in attrs)):
            self.bad(s, f"`{meth}` does not have the shape (value-or-error, state…) expected of an obj_call")
        if list(self.recs[rec].fields) != [a.split(".", 1)[1] for a in gfn.state]:
            self.bad(s, f"record {rec} is not exactly the state of `{meth}`")
        recv = "{ " + ", ".join(f"{f} := {self.v(a)}" for f, a in zip(self.recs[rec].fields, attrs)) + " }"
        call = " ".join([gfn.name, recv] + ([fuel_expr[0].format(self.v(attrs[0])) if fuel_expr else "fuel"] if gfn.fuel else []))
        if gfn.fuel and not self.fn.fuel and not fuel_expr:
            self.bad(s, f"`{meth}` needs fuel, the registry gives this function none")
        sts = ", ".join(self.v(a) for a in attrs)
        x = st.targets[0].id
        ok_env = dict(env, **{x: rty[1][1]})
        ok_b = self.block(s.orelse, ok_env, k)
        ix_b = self.block(h.body, dict(env), k)
        return [f"match {call} with", f"| (.ok {self.v(x)}, {sts}) => ("] + _ind(ok_b) + [")", f"| (.error Py.Err.Index, {sts}) => ("] + \
            _ind(ix_b) + [")", f"| (.error err_, {sts}) => " + self.wrap_ret(None, error="Fuel").replace(".error Py.Err.Fuel", ".error err_", 1)]

    def s_ForRec(self, s, env, k):
        """a `for` with return / raise / break inside → an auxiliary definition, structurally recursive on the list:
             NAME vars [] = rest        NAME vars (p :: todo) = body; NAME vars' todo
           (`continue` / end of body = the recursive call, `break` = rest, `return` / `raise` leave the function)"""
        it, ity = self.iterable(s.iter, env)
        if not ity or ity[0] != "L" or not self.closed(ity):
            self.bad(s.iter, f"iteration over a value of type {ity}")
        names = [x for x in env if not x.startswith("#")]
        if "todo_" in names:
            self.bad(s, "a variable named todo_")
        for x in names:
            if not self.closed(env[x]):
                self.bad(s, f"type of `{x}` unknown at the for loop")
        name = f"{self.fn.name}.for{len(self.aux) + 1}"

        def again(e):
            return [" ".join([name, *[self.v(x) for x in names], "todo_"])]
        self.aux.append(None)
        idx = len(self.aux) - 1
        benv = dict(env)
        pat = self.pattern(s.target, ity[1], benv)
        self.loops.append(again)
        self.breaks.append(lambda e: k({x: t for x, t in e.items() if x in env}))
        body = self.block(s.body, benv, again)
        self.loops.pop()
        self.breaks.pop()
        rest = k(dict(env))
        binders = " ".join(f"({self.v(x)} : {lean_ty(env[x])})" for x in names)
        self.aux[idx] = [f"@[simp] def {name} {binders} : {lean_ty(ity)} → ⟪RET⟫", "  | [] => ("] + _ind(rest, 4) + ["    )",
                         f"  | {pat} :: todo_ => ("] + _ind(body, 4) + ["    )"]
        return [" ".join([name, *[self.v(x) for x in names], it])]

    def s_For(self, s, env, k):
        if s.orelse:
            self.bad(s, "for/else")
        if self.escapes(s.body, loop=True) or any(isinstance(n, ast.Break) for n in ast.walk(
                ast.Module(body=[x for x in s.body if not isinstance(x, (ast.While, ast.For))], type_ignores=[]))):
            return self.s_ForRec(s, env, k)
        if any(isinstance(n, ast.Break) for n in ast.walk(ast.Module(body=[x for x in s.body if not isinstance(x, ast.While)],
                                                                      type_ignores=[]))):
            self.bad(s, "break inside a for loop")
        it, ity = self.iterable(s.iter, env)
        if not ity or ity[0] != "L":
            self.bad(s.iter, f"iteration over a value of type {ity}")
        targets = self.assigned([ast.Assign(targets=[s.target], value=None)])
        vs = [x for x in self.join_vars([s.body], env) if x in env]
        vs = [x for x in vs if x not in targets]
        if not vs:
            return k(env)
        tup = self.tup(vs)
        benv = dict(env)
        pat = self.pattern(s.target, ity[1], benv)
        envs = []

        def fin(e):
            envs.append(e)
            return [tup]
        self.loops.append(fin)
        self.breaks.append(None)
        body = self.block(s.body, benv, fin)
        self.loops.pop()
        self.breaks.pop()
        env = dict(env)
        for x in vs:                      # element types discovered in the body (e.g. first append to [])
            for e in envs:
                if e.get(x) is not None and self.closed(e.get(x)) and not self.closed(env.get(x)):
                    env[x] = e[x]
        return [f"let {tup} := List.foldl (fun {tup} {pat} => ("] + _ind(body, 4) + [f"  )) {tup} {it}"] + k(env)

    # ------------------------------------------------------------------ the definition
    # ------------------------------------------------------------------ cells extension (Cell.add_agent / remove_agent …)
    def cells_narrowing_and(self, e, env):
        """`X is not None and rest` with X a name / attribute of an Option type, in a test position:
           (match X with | some x => rest[x] | none => false) — inside `rest` X has the value type (Python's narrowing)"""
        if not (isinstance(e, ast.BoolOp) and isinstance(e.op, ast.And) and len(e.values) >= 2):
            return None
        t = e.values[0]
        if not (isinstance(t, ast.Compare) and len(t.ops) == 1 and isinstance(t.ops[0], ast.IsNot) and
                isinstance(t.comparators[0], ast.Constant) and t.comparators[0].value is None):
            return None
        d = _dotted(t.left)
        if d is None:
            return None
        x, tx = self.expr(t.left, env)
        if not tx or tx[0] != "O":
            return None
        rest = e.values[1] if len(e.values) == 2 else ast.copy_location(ast.BoolOp(op=ast.And(), values=e.values[1:]), e)
        inner = self.cond(rest, dict(env, **{d: tx[1]}))
        return f"(match {x} with | some {self.v(d)} => {inner} | none => false)"

    def cells_self_now(self, env):
        """`self` as a callee sees it: the record with the state attributes' current values"""
        r = self.recs[self.fn.self_rec]
        upd = [f"{a[5:]} := {self.v(a)}" for a in self.fn.state if a.startswith("self.") and a[5:] in r.fields and a in env]
        if r.extern or len(upd) != len([a for a in self.fn.state if a.startswith("self.")]):
            raise Untranslatable(f"{self.fn.qualname}: call on `self` after state writes: state attributes must be fields of a generated record")
        return "{ self with " + ", ".join(upd) + " }"

    def cells_state_list_call(self, c, env, k):
        if not (isinstance(c.func, ast.Attribute) and isinstance(c.func.value, ast.Attribute) and c.func.attr in ("append", "remove")):
            return None
        x = _dotted(c.func.value)
        if x not in self.fn.state or x not in env or not env[x] or env[x][0] != "L" or len(c.args) != 1 or c.keywords:
            return None
        t, _ = self.expr(c.args[0], env)
        if c.func.attr == "append":
            return self.let(self.v(x), f"{self.v(x)} ++ [{t}]") + k(env)
        if not self.fn.list_remove_raises:
            return self.let(self.v(x), f"{self.v(x)}.erase {t}") + k(env)
        return [f"if ({self.v(x)}.contains {t}) then ("] + _ind(self.let(self.v(x), f"{self.v(x)}.erase {t}") + k(env)) + \
            [") else ("] + _ind([self.wrap_ret(None, error="Value")]) + [")"]

    def cells_record_method_call(self, c, env, k):
        """`x.m(args)` as a statement, x a parameter of record type that is also registry state (returned), m a translated function
           with state attributes on that record and no effects: x's fields become what m returns; an error of m is passed on"""
        if not (isinstance(c.func, ast.Attribute) and isinstance(c.func.value, ast.Name) and c.func.attr in self.group) or c.keywords:
            return None
        x, (gfn, rty) = c.func.value.id, self.group[c.func.attr]
        tx = env.get(x)
        if not (tx and tx[0] == "R" and tx[1] == gfn.self_rec and x in self.fn.state and gfn.state and not gfn.effects and not gfn.snapshot
                and all(a.startswith("self.") for a in gfn.state)):
            return None
        args = [f"self.{self.fn.self_as}" if isinstance(a, ast.Name) and a.id == "self" and self.fn.self_as else self.expr(a, env)[0]
                for a in c.args]
        raises = rty[0] == "T" and rty[1] != "Unit" and rty[1][0] == "E"
        if rty[0] == "T" and not raises and len(rty) - 1 != len(gfn.state):
            return None                                   # a mutator that also returns a value: outside the subset
        vs = [f"r{i + 1}_" for i in range(len(gfn.state))]
        upd = "{ " + self.v(x) + " with " + ", ".join(f"{a[5:]} := {v}" for a, v in zip(gfn.state, vs)) + " }"
        call = "(" + " ".join([gfn.name, self.v(x), *args]) + ")"
        if not raises:
            return self.let("(" + ", ".join(vs) + ")" if len(vs) > 1 else vs[0], call) + self.let(self.v(x), upd) + k(env)
        if not self.can_raise:
            self.bad(c, f"call of `{c.func.attr}`, which can raise, in a function the translator took for non-raising")
        err = self.wrap_ret(None, error="Exception").replace(".error Py.Err.Exception", ".error e_", 1)
        return [f"match {call} with", f"| ({', '.join(['.error e_'] + ['_'] * len(vs))}) => {err}",
                f"| ({', '.join(['.ok _'] + vs)}) => ("] + _ind(self.let(self.v(x), upd) + k(env)) + [")"]

    def translate(self, node: ast.FunctionDef):
        fn = self.fn
        a = node.args
        if a.kwonlyargs or a.posonlyargs or ((a.vararg or a.kwarg) and not fn.snapshot):
            self.bad(node, "*args / **kwargs / keyword-only parameters")
        self.passthrough = (a.vararg.arg if a.vararg else None, a.kwarg.arg if a.kwarg else None)
        fn.reads_ = {n.attr for n in ast.walk(node) if isinstance(n, ast.Attribute) and isinstance(n.value, ast.Name) and n.value.id == "self"}
        for m in sorted(fn.reads_ & set(self.group)):       # attributes of self read by the methods it calls, transitively
            fn.reads_ = fn.reads_ | getattr(self.group[m][0], "reads_", set())
        names = [x.arg for x in a.args]
        env, binders = {}, []
        if names and names[0] == "self":
            if not fn.self_rec:
                self.bad(node, "method without a registry record for self")
            env["self"] = ("R", fn.self_rec)
            binders.append(f"(self : {lean_ty(('R', fn.self_rec))})")
            names = names[1:]
        if set(names) != set(fn.params):
            self.bad(node, f"parameters {names} differ from the registry's {sorted(fn.params)}")
        for n in names:
            env[n] = fn.params[n]
            binders.append(f"({self.v(n)} : {lean_ty(fn.params[n])})")
        if set(fn.varargs) - set(self.passthrough):
            self.bad(node, f"registry varargs {sorted(fn.varargs)} are not the function's *args / **kwargs")
        for n in self.passthrough:                  # the forwarded *args / **kwargs, in this order
            if n in fn.varargs:
                env[n] = fn.varargs[n]
                binders.append(f"({self.v(n)} : {lean_ty(fn.varargs[n])})")
        if fn.callback:                              # ω, the callback and the world it acts on: explicit parameters
            if len(fn.callback) != 1 or fn.effects or fn.snapshot or not fn.state:
                self.bad(node, "a callback needs state attributes and excludes effects")
            (ckey, cpar), = fn.callback.items()
            self.callback_recv = next((t for p, t in fn.params.items() if p == ckey.split(".")[0]), None) or fn.callback_recv_ty
            sty = "(" + " × ".join([lean_ty(t) for t in fn.state.values()] + ["ω"]) + ")"
            for n, t in (("ω", "Type"), (cpar, f"({sty} → {lean_ty(self.callback_recv)} → ((Except Py.Err Unit) × {sty}))"), ("world_", "ω")):
                env[n] = t
                binders.append(f"({n} : {t})")
        self.can_raise = any(isinstance(n, (ast.Raise, ast.While)) for n in ast.walk(node)) or any(
            isinstance(n, ast.Call) and _dotted(n.func) in ("heappop", "heapq.heappop") for n in ast.walk(node))
        if fn.list_remove_raises and any(isinstance(n, ast.Call) and isinstance(n.func, ast.Attribute) and n.func.attr == "remove"
                                         and _dotted(n.func.value) in fn.state for n in ast.walk(node)):
            self.can_raise = True
        if fn.fuel:
            binders.append("(fuel : Nat)")
        self.returns_value = any(isinstance(n, ast.Return) and n.value is not None and not (
            isinstance(n.value, ast.Constant) and n.value.value is None) for n in ast.walk(node))
        if fn.ret is not None:
            self.returns_value = True
        if fn.may_raise:
            self.can_raise = True
        for n in ast.walk(node):
            if isinstance(n, (ast.FunctionDef, ast.AsyncFunctionDef, ast.Lambda, ast.ClassDef)) and n is not node:
                self.bad(n, "nested def / lambda / class")
            if isinstance(n, ast.NamedExpr) and id(n) in self.g_walrus_ok(node):
                continue
            if isinstance(n, (ast.Yield, ast.YieldFrom, ast.Await, ast.Global, ast.Nonlocal, ast.With, ast.NamedExpr,
                              ast.Delete, ast.Import, ast.ImportFrom, ast.Assert)):
                self.bad(n, f"{type(n).__name__} outside the subset")
            if isinstance(n, ast.Try) and not fn.obj_calls:
                self.bad(n, "Try outside the subset")
        lines = []
        if fn.effects or fn.snapshot:
            if fn.effects:
                ety = next(iter(fn.effects.values()))
                ety = ety[1] if ety[0] == "T" and len(ety) == 2 else ety        # an effect call with one argument
            else:
                tys = [fn.state[x] for x in next(iter(fn.snapshot.values()))] + [fn.varargs[x] for x in self.passthrough if x in fn.varargs]
                ety = tys[0] if len(tys) == 1 else ("T", *tys)
            if any(isinstance(n, ast.Name) and n.id == OUT for n in ast.walk(node)):
                self.bad(node, f"a local named {OUT}")
            self.outs = [OUT]
            env[OUT] = ("L", ety)
            lines += [f"let {OUT} : {lean_ty(('L', ety))} := []"]
        for attr, ty in fn.state.items():
            self.outs.append(attr)
            env[attr] = ty
            lines += [f"let {self.v(attr)} : {lean_ty(ty)} := {attr}"]
        if fn.callback:
            self.outs.append("world_")
        lines += self.block(node.body, env, lambda e: [self.wrap_ret(None)])
        for tok, val in self.tokens.items():
            lines = [l.replace(tok, val or "") for l in lines]
        val = self.ret_ty if self.returns_value else "Unit"
        if fn.ret is not None:
            val = fn.ret
        rty = None
        if self.closed(val):
            if self.can_raise:
                val = ("E", val)
            outs = [env[o] for o in self.outs]
            rty = val if not outs else ("T", *outs) if (val == "Unit" and len(outs) > 1) else outs[0] if val == "Unit" \
                else ("T", val, *outs)
        if self.aux:
            if rty is None:
                self.bad(node, "result type of a function with a while loop could not be inferred")
            pre = []
            for a in self.aux:
                pre += [l.replace("⟪RET⟫", lean_ty(rty)) for l in a] + [""]
            for tok, val in self.tokens.items():
                pre = [l.replace(tok, val or "") for l in pre]
            self.prelude = pre
        sig = f"def {fn.name} " + " ".join(binders) + (f" : {lean_ty(rty)}" if rty else "") + " :="
        return sig, _ind(lines), rty


def render_group(namespace, header, recs, items, imports=("MesaModel.Base.PyPrim",)):
    """the text of one generated file; items = [(Fn, info, sig, lines)]; deterministic"""
    L = [f"import {m}" for m in imports]
    L.append("/-! " + header + " -/")
    L.append(f"namespace {namespace}")
    L.append("")
    for r in recs:
        if r.extern:
            L.append(f"/-- `{r.name}`: the model's `{r.extern}`; attributes read as " +
                     ", ".join(f"{a} ↦ {t.format('·')}" for a, t in r.access.items()) + " -/")
            fs = [r.access[f].format("r") for f in r.fields]
        else:
            L.append(f"structure {r.name} where")
            for f, t in r.fields.items():
                L.append(f"  {f} : {lean_ty(t)}")
            L.append("deriving Repr, DecidableEq")
            fs = [f"r.{f}" for f in r.fields]
        L.append(f"instance : Py.Show {lean_ty(('R', r.name))} := ⟨fun r => Py.Show.show_ " + (fs[0] if len(fs) == 1 else "(" + ", ".join(fs) + ")") + "⟩")
        L.append("")
    for fn, info, sig, lines in items:
        if info is not None and not sig.startswith("--") and "\n" in sig:
            L.append(f"-- auxiliary definitions of `{fn.name}` (one per `while` loop), GENERATED from the same source lines")
            aux, sig = sig.rsplit("\n", 1)
            L.append(aux)
        if info is not None and not sig.startswith("--"):
            L.append(f"/-- GENERATED from {info['file']}:{info['lines'][0]}-{info['lines'][1]} (`{fn.qualname}`), do not edit -/")
        L.append(sig)
        L += lines
        L.append("")
    L.append(f"end {namespace}")
    return "\n".join(L) + "\n"


def generate_group(repo, g, group_name):
    """g = {"namespace", "path", "recs": [Rec], "fns": [Fn], "header"} → (lean text, [info], [problem strings])"""
    recs = {r.name: r for r in g["recs"]}
    EXTERN.clear()
    EXTERN.update({r.name: r.extern for r in g["recs"] if r.extern})
    done, items, infos, problems = {}, [], [], []
    files = sorted({fn.file for fn in g["fns"]})
    for fn in g["fns"]:
        try:
            node, info = source_info(repo, fn)
        except (Untranslatable, OSError, SyntaxError) as e:
            problems.append(f"{fn.qualname} ({fn.file}): Untranslatable: {e}")
            items.append((fn, None, f"-- UNTRANSLATABLE `{fn.qualname}`: {e}", []))
            continue
        try:
            tr = Translator(fn, recs, done)
            sig, lines, rty = tr.translate(node)
            done[fn.qualname.split(".")[-1]] = (fn, rty)
            items.append((fn, info, "\n".join(tr.prelude + [sig]), lines))
        except Exception as e:        # noqa: BLE001 — Untranslatable, or a defect of the translator itself: both fail closed
            if not isinstance(e, Untranslatable):
                e = Untranslatable(f"{fn.qualname}: translator error {type(e).__name__}: {e}")
            info = dict(info, untranslatable=str(e))
            problems.append(f"{fn.qualname} ({fn.file}:{info['lines'][0]}-{info['lines'][1]}): Untranslatable: {e}")
            items.append((fn, info, f"-- UNTRANSLATABLE `{fn.qualname}`: " + str(e).replace("\n", " "), []))
        infos.append(info)
    header = (f"GENERATED by harness/py2lean.py (group {group_name}) from " + ", ".join(files) +
              " of the checked repository — rewritten on every check, do not edit.")
    return render_group(g["namespace"], header, g["recs"], items,
                        imports=("MesaModel.Base.PyPrim", *g.get("imports", ()))), infos, problems
