"""Implementation runner, generators and oracles shared by C08 / C09 / C18-legacy.

Protocol: see lean/Driver/Legacy.lean.  Agents are named 0..NAGENTS-1, coordinates are ints,
random movers get their raw draws after a ':' token (ScriptedRandom: _randbelow(n) = draw % n).
"""
from __future__ import annotations

import ast
import math
import os
import random

from . import core

KINDS = ("single", "multi", "hexsingle", "hexmulti")
LAYER_NAMES = ("elev", "heat")  # protocol layer L is LAYER_NAMES[L]; any other index names a layer that does not exist
CMPS = {"ge": lambda k: (lambda d: d >= k), "le": lambda k: (lambda d: d <= k), "eq": lambda k: (lambda d: d == k),
        "ne": lambda k: (lambda d: d != k)}


def layer_name(i):
    return LAYER_NAMES[i] if i < len(LAYER_NAMES) else f"nope{i}"


def parse_sel(w):
    """`sel RL OE NM mask… NC cond… NE ext…` -> (return_list, only_empty, masks, conds, exts) with masks = ("N", x, y, moore, ic, r) |
    ("B", bits), conds = (layer, cmp, k), exts = (layer, mode)"""
    rl, oe = w[1] == "1", w[2] == "1"
    i = 3
    out = []
    for _ in range(3):
        n = int(w[i])
        out.append(w[i + 1:i + 1 + n])
        i += 1 + n
    assert i == len(w)
    masks = []
    for t in out[0]:
        f = t.split("/")
        masks.append(("N", int(f[1]), int(f[2]), f[3] == "1", f[4] == "1", int(f[5])) if f[0] == "N" else ("B", f[1]))
    conds = [(int(f[0]), f[1], int(f[2])) for f in (t.split("/") for t in out[1])]
    exts = [(int(f[0]), f[1]) for f in (t.split("/") for t in out[2])]
    return rl, oe, masks, conds, exts


class ScriptExhausted(Exception):
    pass


class ScriptedRandom(random.Random):
    """random.Random whose _randbelow is driven by a script; shuffle/choice/randrange route through it"""

    def __init__(self):
        super().__init__(0)
        self.s, self.i = [], 0

    def load(self, script):
        self.s, self.i = list(script), 0

    def _randbelow(self, n):
        if self.i >= len(self.s):
            raise ScriptExhausted()
        v = self.s[self.i] % n
        self.i += 1
        return v

    def random(self):
        raise ScriptExhausted()

    def getrandbits(self, k):
        raise ScriptExhausted()


class ReorderedSet(set):
    """a set with the same members whose iteration order is rotated by k and reversed for odd k (len, membership, add, discard
    are the set's own)"""

    def __init__(self, items, k):
        super().__init__(items)
        self.k = k

    def __iter__(self):
        items = list(set.__iter__(self))
        if items:
            r = self.k % len(items)
            items = items[r:] + items[:r]
        return iter(items[::-1] if self.k % 2 else items)


def _mesa():
    core.import_mesa()
    import mesa
    from mesa import space

    return mesa, space


def err_of(e):
    if isinstance(e, ScriptExhausted):
        return "Script"
    if isinstance(e, TypeError):
        return "Type"
    if isinstance(e, ValueError):
        return "Value"
    if isinstance(e, KeyError):
        return "Key"
    if isinstance(e, IndexError):
        return "Index"
    if type(e).__module__.startswith("networkx") and type(e).__name__ in ("NetworkXError", "NodeNotFound"):
        return "NoNode"
    if type(e) is Exception:
        m = str(e)
        if "Cell not empty" in m:
            return "Full"
        if "out of bounds" in m:
            return "OutOfBounds"
        if "not on the grid" in m:
            return "NoPos"
        if "No empty cells" in m:
            return "NoEmpty"
    raise e


def ck(c):
    """key of a cell in a snapshot (snapshots must survive json.dump: no tuple keys)"""
    return f"{c[0]},{c[1]}"


def fmt_coords(cs):
    return " ".join(f"{x},{y}" for x, y in cs)


def fmt_cell(l):
    return ",".join(map(str, l)) if l else "-"


def sp(s):
    return "ok " + s if s else "ok"


def split_script(ws):
    i = ws.index(":")
    return ws[:i], [int(x) for x in ws[i + 1:]]


def parse_ix(tok):
    """`I<int>` -> int, `S<start>/<stop>/<step>` (with `_` = None) -> slice"""
    if tok[0] == "I":
        return int(tok[1:])
    assert tok[0] == "S"
    a, b, c = (None if t == "_" else int(t) for t in tok[1:].split("/"))
    return slice(a, b, c)


def fmt_ix(ix):
    if isinstance(ix, int):
        return f"I{ix}"
    f = lambda v: "_" if v is None else str(v)  # noqa: E731
    return f"S{f(ix.start)}/{f(ix.stop)}/{f(ix.step)}"


def pairs(xs):
    xs = [int(x) for x in xs]
    assert len(xs) % 2 == 0
    return [(xs[i], xs[i + 1]) for i in range(0, len(xs), 2)]


# --------------------------------------------------------------------------------------
# implementation side


_TRUTH_CLASSES = {}


def truth_classes():
    """Agent subclasses with a truth value: `b` answers bool() through __bool__, `l` through __len__ (a depot with a stock, a
    household with members).  An agent of the protocol is a plain mesa.Agent until its first `truth` line."""
    if not _TRUTH_CLASSES:
        mesa, _ = _mesa()

        class FlagAgent(mesa.Agent):
            alive = True

            def __bool__(self):
                return self.alive

        class StockAgent(mesa.Agent):
            stock = 1

            def __len__(self):
                return self.stock

        _TRUTH_CLASSES.update(b=FlagAgent, l=StockAgent)
    return _TRUTH_CLASSES


class GridImpl:
    def __init__(self, kind, w, h, torus, layers, cutoff, nag):
        mesa, space = _mesa()
        cls = {"single": space.SingleGrid, "multi": space.MultiGrid,
               "hexsingle": space.HexSingleGrid, "hexmulti": space.HexMultiGrid}[kind]
        pl = None
        if layers:
            # two int layers that `select_cells` reads (modelled: layers 0 and 1) and a bool one nothing refers to
            pl = [space.PropertyLayer("elev", w, h, 0, dtype=int), space.PropertyLayer("heat", w, h, 0, dtype=int),
                  space.PropertyLayer("flag", w, h, False, dtype=bool)]
        self.nlayers = 2 if layers else 0
        self.kind, self.w, self.h, self.torus, self.nag = kind, w, h, bool(torus), nag
        self.multi = kind in ("multi", "hexmulti")
        self.hex = kind.startswith("hex")
        self.grid = cls(w, h, bool(torus), property_layers=pl)
        self.header_ok = math.floor(self.grid.cutoff_empties) == cutoff
        self.model = mesa.Model(seed=0)
        self.rng = ScriptedRandom()
        self.model.random = self.rng
        self.agents = [mesa.Agent(self.model) for _ in range(nag)]
        self.idx = {a: i for i, a in enumerate(self.agents)}
        self.cells_order = [(x, y) for x in range(w) for y in range(h)]
        self.trace = []

    # observation helpers --------------------------------------------------------------
    def ids(self, content):
        if content is None:
            return ()
        if isinstance(content, list):
            return tuple(self.idx[a] for a in content)
        return (self.idx[content],)

    def snap(self):
        g = self.grid
        # the contents are read from the cell store itself: coord_iter / iteration / indexing are views under test
        cells = {ck((x, y)): self.ids(g._grid[x][y]) for (x, y) in self.cells_order}
        pos = tuple(None if a.pos is None else (int(a.pos[0]), int(a.pos[1])) for a in self.agents)
        mask = tuple(bool(g.empty_mask[x, y]) for (x, y) in self.cells_order)
        empty = tuple(bool(g.is_cell_empty(c)) for c in self.cells_order)
        s = {"pos": pos, "cells": cells, "mask": mask, "empty": empty}
        if self.nlayers:
            s["layers"] = [tuple(int(g.properties[n].data[x, y]) for (x, y) in self.cells_order) for n in LAYER_NAMES[:self.nlayers]]
        return s

    def fmt_dump(self, s):
        ps = " ".join("-" if p is None else f"{p[0]},{p[1]}" for p in s["pos"])
        cs = " ".join(f"{ck(c)}={fmt_cell(s['cells'][ck(c)])}" for c in self.cells_order if s["cells"][ck(c)])
        bits = lambda b: "".join("1" if x else "0" for x in b)  # noqa: E731
        return f"ok P {ps} C {cs} M {bits(s['mask'])} E {bits(s['empty'])}"

    def empty_cells(self):
        """empty cells by inspection of the contents (does NOT read grid.empties)"""
        return [(x, y) for (x, y) in self.cells_order if not self.ids(self.grid._grid[x][y])]

    # one protocol line -------------------------------------------------------------------
    def line(self, w):
        ent = {"op": list(w)}
        if not self.trace:
            ent["before"] = self.snap()  # later entries: before = the previous entry's after (see trace_before)
        try:
            out, val = self.do(w)
        except Exception as e:  # noqa: BLE001
            out, val = "err " + err_of(e), None
        ent["res"], ent["val"] = out, val
        ent["after"] = self.snap()
        self.trace.append(ent)
        return out

    def do(self, w):
        g, A = self.grid, self.agents
        k = w[0]
        if k == "place":
            g.place_agent(A[int(w[1])], (int(w[2]), int(w[3])))
            return "ok", None
        if k == "remove":
            g.remove_agent(A[int(w[1])])
            return "ok", None
        if k == "foreign":
            # outside the quantifier: a second grid of the same class and shape places the agent (writes agent.pos)
            a, p = A[int(w[1])], (int(w[2]), int(w[3]))
            if a.pos is not None or not (0 <= p[0] < self.w and 0 <= p[1] < self.h):
                return "bad-op", None
            type(g)(self.w, self.h, self.torus).place_agent(a, p)
            return "ok", None
        if k == "move":
            g.move_agent(A[int(w[1])], (int(w[2]), int(w[3])))
            return "ok", None
        if k == "swap":
            g.swap_pos(A[int(w[1])], A[int(w[2])])
            return "ok", None
        if k == "mte":
            head, script = split_script(w)
            if len(head) == 3:
                # `mte a R<k>`: the empties set is first replaced by an equal set that iterates in another order (C01's hash-order
                # clause for this group: sorted(self.empties) must make the pick independent of it; the model ignores R<k>)
                g._empties = ReorderedSet(g.empties, int(head[2][1:]))
            self.rng.load(script)
            g.move_to_empty(A[int(w[1])])
            return "ok", None
        if k == "mto":
            head, script = split_script(w)
            a, sel, he, n = int(head[1]), head[2], head[3], int(head[4])
            ps = pairs(head[5:])
            assert len(ps) == n
            self.rng.load(script)
            g.move_agent_to_one_of(A[a], list(ps), selection=sel, handle_empty=None if he == "none" else he)
            return "ok", None
        if k == "empties":
            e = g.empties
            val = sorted((int(x), int(y)) for x, y in e)
            return sp(fmt_coords(val)), val
        if k == "exists":
            v = bool(g.exists_empty_cells())
            return f"ok {int(v)}", v
        if k == "isempty":
            v = bool(g.is_cell_empty((int(w[1]), int(w[2]))))
            return f"ok {int(v)}", v
        if k == "mask":
            v = tuple(bool(g.empty_mask[x, y]) for (x, y) in self.cells_order)
            return sp("".join("1" if b else "0" for b in v)), v
        if k == "agents":
            v = [self.idx[a] for a in g.agents]
            return sp(" ".join(map(str, v))), v
        if k == "iter":
            v = [self.ids(c) for c in g]
            return sp(" ".join(fmt_cell(c) for c in v)), v
        if k == "get":
            v = self.ids(g[int(w[1]), int(w[2])])
            return "ok " + fmt_cell(v), v
        if k == "dump":
            return self.fmt_dump(self.snap()), None
        if k == "truth":
            # the agent object gets a truth value of its own: `truth a b V` -> __bool__ returns bool(V), `truth a l N` -> __len__
            # returns N.  It stays the same object (same cell, same pos); only bool(agent) changes.
            a, kind, v = A[int(w[1])], w[2], int(w[3])
            if kind not in ("b", "l") or v < 0 or (kind == "b" and v > 1):
                return "bad-op", None
            a.__class__ = truth_classes()[kind]
            if kind == "b":
                a.alive = bool(v)
            else:
                a.stock = v
            assert bool(a) == (v != 0)
            return "ok", None
        if k == "geti":
            v = [self.ids(c) for c in g[int(w[1])]]
            return sp(" ".join(fmt_cell(c) for c in v)), v
        if k == "getl":
            ps = pairs(w[2:])
            assert len(ps) == int(w[1])
            v = [self.ids(c) for c in g[tuple(ps)]]
            return sp(" ".join(fmt_cell(c) for c in v)), v
        if k == "gets":
            ix, iy = parse_ix(w[1]), parse_ix(w[2])
            r = g[ix, iy]
            v = [self.ids(r)] if isinstance(ix, int) and isinstance(iy, int) else [self.ids(c) for c in r]
            return sp(" ".join(fmt_cell(c) for c in v)), v
        if k == "coorditer":
            v = [((int(c[0]), int(c[1])), self.ids(content)) for content, c in g.coord_iter()]
            return sp(" ".join(f"{c[0]},{c[1]}={fmt_cell(l)}" for c, l in v)), v
        if k == "lset":
            g.properties[layer_name(int(w[1]))].set_cell((int(w[2]), int(w[3])), int(w[4]))
            return "ok", None
        if k == "sel":
            import numpy as np

            rl, oe, masks, conds, exts = parse_sel(w)
            ms = []
            for m in masks:
                if m[0] == "N":
                    ms.append(g.get_neighborhood_mask((m[1], m[2]), m[3], m[4], m[5]))
                else:
                    ms.append(np.array([c == "1" for c in m[1]], dtype=bool).reshape(self.w, self.h))
            kw = {}
            if ms:
                kw["masks"] = ms[0] if len(ms) == 1 and masks[0][0] == "B" else ms  # a single mask may be passed bare
            if conds:
                kw["conditions"] = {layer_name(l): CMPS[c](kk) for l, c, kk in conds}
            if exts:
                kw["extreme_values"] = {layer_name(l): mode for l, mode in exts}
            r = g.select_cells(only_empty=oe, return_list=rl, **kw)
            if rl:
                v = [(int(x), int(y)) for x, y in r]
                return sp(fmt_coords(v)), v
            # a cell whose entry is masked (no cell was left for an extreme value) is not selected
            data, msk = np.ma.getdata(r), np.ma.getmaskarray(r)
            v = tuple(bool(data[x, y]) and not bool(msk[x, y]) for (x, y) in self.cells_order)
            return sp("".join("1" if b else "0" for b in v)), v
        if k == "tadj":
            x, y = g.torus_adj((int(w[1]), int(w[2])))
            return f"ok {int(x)},{int(y)}", (int(x), int(y))
        if k == "oob":
            v = bool(g.out_of_bounds((int(w[1]), int(w[2]))))
            return f"ok {int(v)}", v
        if k in ("nbhd", "inbhd", "nbrs", "inbrs", "nmask"):
            pos, moore, ic, r = (int(w[1]), int(w[2])), w[3] == "1", w[4] == "1", int(w[5])
            if k == "nbhd":
                v = [(int(x), int(y)) for x, y in g.get_neighborhood(pos, moore, ic, r)]
                return sp(fmt_coords(v)), v
            if k == "inbhd":
                v = [(int(x), int(y)) for x, y in g.iter_neighborhood(pos, moore, ic, r)]
                return sp(fmt_coords(v)), v
            if k == "nmask":
                m = g.get_neighborhood_mask(pos, moore, ic, r)
                v = tuple(bool(m[x, y]) for (x, y) in self.cells_order)
                return sp("".join("1" if b else "0" for b in v)), v
            it = g.get_neighbors(pos, moore, ic, r) if k == "nbrs" else list(g.iter_neighbors(pos, moore, ic, r))
            v = [self.idx[a] for a in it]
            return sp(" ".join(map(str, v))), v
        if k in ("hnbhd", "ihnbhd", "hnbrs", "ihnbrs"):
            pos, ic, r = (int(w[1]), int(w[2])), w[3] == "1", int(w[4])
            if k == "hnbhd":
                v = [(int(x), int(y)) for x, y in g.get_neighborhood(pos, ic, r)]
                return sp(fmt_coords(v)), v
            if k == "ihnbhd":
                v = [(int(x), int(y)) for x, y in g.iter_neighborhood(pos, ic, r)]
                return sp(fmt_coords(v)), v
            it = g.get_neighbors(pos, ic, r) if k == "hnbrs" else list(g.iter_neighbors(pos, ic, r))
            v = [self.idx[a] for a in it]
            return sp(" ".join(map(str, v))), v
        if k in ("clc", "iclc"):
            cs = pairs(w[2:])
            assert len(cs) == int(w[1])
            if k == "clc":
                arg = cs[0] if len(cs) == 1 else cs  # a single position may be passed bare (accept_tuple_argument)
                it = g.get_cell_list_contents(arg)
            else:
                # the iterator form also accepts a bare tuple; passed bare when the coordinate sum is even
                it = list(g.iter_cell_list_contents(cs[0] if len(cs) == 1 and sum(cs[0]) % 2 == 0 else cs))
            v = [self.idx[a] for a in it]
            return sp(" ".join(map(str, v))), v
        raise AssertionError(f"unknown op {w}")


class NetImpl:
    def __init__(self, n, nag, edges):
        mesa, space = _mesa()
        import networkx as nx

        G = nx.Graph()
        G.add_nodes_from(range(n))
        for a, b in edges:
            G.add_edge(a, b)
        self.n, self.nag, self.edges = n, nag, edges
        self.grid = space.NetworkGrid(G)
        self.model = mesa.Model(seed=0)
        self.agents = [mesa.Agent(self.model) for _ in range(nag)]
        self.idx = {a: i for i, a in enumerate(self.agents)}
        self.trace = []
        self.header_ok = True

    def snap(self):
        g = self.grid
        cells = {str(v): tuple(self.idx[a] for a in g.G.nodes[v]["agent"]) for v in range(self.n)}
        return {"pos": tuple(a.pos for a in self.agents), "cells": cells}

    def line(self, w):
        ent = {"op": list(w)}
        if not self.trace:
            ent["before"] = self.snap()  # later entries: before = the previous entry's after (see trace_before)
        try:
            out, val = self.do(w)
        except Exception as e:  # noqa: BLE001
            out, val = "err " + err_of(e), None
        ent["res"], ent["val"] = out, val
        ent["after"] = self.snap()
        self.trace.append(ent)
        return out

    def do(self, w):
        g, A = self.grid, self.agents
        k = w[0]
        if k == "nplace":
            g.place_agent(A[int(w[1])], int(w[2]))
            return "ok", None
        if k == "nremove":
            g.remove_agent(A[int(w[1])])
            return "ok", None
        if k == "nmove":
            g.move_agent(A[int(w[1])], int(w[2]))
            return "ok", None
        if k == "nnbhd":
            v = [int(x) for x in g.get_neighborhood(int(w[1]), w[2] == "1", int(w[3]))]
            return sp(" ".join(map(str, v))), v
        if k == "nnbrs":
            v = [self.idx[a] for a in g.get_neighbors(int(w[1]), w[2] == "1", int(w[3]))]
            return sp(" ".join(map(str, v))), v
        if k in ("nclc", "niclc"):
            vs = [int(x) for x in w[2:]]
            assert len(vs) == int(w[1])
            it = g.get_cell_list_contents(vs) if k == "nclc" else list(g.iter_cell_list_contents(vs))
            v = [self.idx[a] for a in it]
            return sp(" ".join(map(str, v))), v
        if k == "nallc":
            v = [self.idx[a] for a in g.get_all_cell_contents()]
            return sp(" ".join(map(str, v))), v
        if k == "nagents":
            v = [self.idx[a] for a in g.agents]
            return sp(" ".join(map(str, v))), v
        if k == "nisempty":
            v = bool(g.is_cell_empty(int(w[1])))
            return f"ok {int(v)}", v
        if k == "ndump":
            s = self.snap()
            ps = " ".join("-" if p is None else str(p) for p in s["pos"])
            cs = " ".join(f"{v}={fmt_cell(s['cells'][str(v)])}" for v in range(self.n) if s["cells"][str(v)])
            return f"ok P {ps} C {cs}", None
        raise AssertionError(f"unknown op {w}")


def trace_before(tr, i):
    return tr[i]["before"] if i == 0 else tr[i - 1]["after"]


def make_impl(header):
    w = header.split()
    assert w[0] == "scenario"
    if w[1] == "grid":
        kind, W, H, torus, layers, cutoff, nag = w[2], int(w[3]), int(w[4]), int(w[5]), int(w[6]), int(w[7]), int(w[8])
        return GridImpl(kind, W, H, torus, layers, cutoff, nag)
    if w[1] == "net":
        n, nag, m = int(w[2]), int(w[3]), int(w[4])
        es = pairs(w[5:])
        assert len(es) == m
        return NetImpl(n, nag, es)
    raise AssertionError(header)


def run_impl(sc):
    impl = make_impl(sc.lines[0])
    obs = ["ok" if impl.header_ok else "cutoff-mismatch"]
    for line in sc.lines[1:]:
        obs.append(impl.line(line.split()))
    sc.meta["trace"] = impl.trace
    return obs


def real_cutoff(w, h):
    """⌊cutoff_empties⌋ as the running code computes it"""
    _, space = _mesa()
    return math.floor(space.SingleGrid(w, h, False).cutoff_empties)


def grid_header(kind, w, h, torus, layers, nag):
    return f"scenario grid {kind} {w} {h} {int(torus)} {int(layers)} {real_cutoff(w, h)} {nag}"


# --------------------------------------------------------------------------------------
# generators (every generated program terminates: the scripted generator raises when exhausted)


class Builder:
    """builds a scenario while running it on the implementation (to know the reachable state)"""

    def __init__(self, header):
        self.lines = [header]
        self.impl = make_impl(header)

    def add(self, line):
        self.lines.append(line)
        return self.impl.line(line.split())

    def scenario(self, meta=None):
        return core.Scenario(self.lines, dict(meta or {}))


def any_coord(R, w, h):
    k = R.random()
    if k < 0.55:
        return (R.randrange(w), R.randrange(h))
    if k < 0.92:
        return (R.randint(-w - 1, 2 * w + 1), R.randint(-h - 1, 2 * h + 1))
    return (R.randint(-30, 30), R.randint(-30, 30))


def beyond_coord(R, w, h):
    """coordinates beyond the index range -size..size-1 of a w x h nested list (IndexError in place_agent)"""
    return R.choice([(w, 0), (0, h), (w + 3, h + 3), (-w - 1, 0), (0, -h - 2), (R.randrange(w), h), (w, R.randrange(h)),
                     (-w - 1 - R.randrange(3), R.randrange(h)), (R.randrange(w), -h - 1), (2 * w, -1), (-1, h)])


def mte_script(R, impl):
    empt = impl.empty_cells()
    n, w, h = len(empt), impl.w, impl.h
    if n == 0:
        return [R.randrange(100) for _ in range(R.randint(0, 2))]
    if n > math.floor(impl.grid.cutoff_empties):
        s = []
        occ = [(x, y) for (x, y) in impl.cells_order if impl.ids(impl.grid._grid[x][y])]
        for _ in range(R.choice([0, 0, 1, 2, 4])):
            if occ and R.random() < 0.6:
                o = R.choice(occ)  # an attempt that hits an occupied cell: the loop draws again
                s += [o[0] + w * R.randrange(3), o[1] + h * R.randrange(3)]
            else:
                s += [R.randrange(1000), R.randrange(1000)]
        e = R.choice(empt)
        s += [e[0] + w * R.randrange(3), e[1] + h * R.randrange(3)]
        if R.random() < 0.08:
            s = s[: R.randrange(len(s))]
        return s
    return [] if R.random() < 0.08 else [R.randrange(1000)]


def any_int(R, n):
    """an index for a list of length n: mostly in range, also negative aliases and beyond"""
    k = R.random()
    if k < 0.5:
        return R.randrange(n)
    if k < 0.8:
        return R.randint(-n - 2, n + 1)
    return R.randint(-3 * n - 1, 3 * n + 1)


def any_slice(R, n):
    b = lambda: None if R.random() < 0.35 else R.randint(-n - 2, n + 2)  # noqa: E731
    st = R.choice([None, None, None, 1, 1, 2, 3, -1, -1, -2, 0])
    return slice(b(), b(), st)


def gen_index_read(R, w, h):
    """one read through the indexing / raw-coordinate paths: arbitrary ints (Python aliasing), slices, position tuples"""
    k = R.random()
    if k < 0.2:
        return f"isempty {any_int(R, w)} {any_int(R, h)}"
    if k < 0.3:
        return f"geti {any_int(R, w)}"
    if k < 0.45:
        ps = [any_coord(R, w, h) if R.random() < 0.3 else (R.randrange(w), R.randrange(h)) for _ in range(R.choice([0, 1, 1, 2, 3]))]
        return f"getl {len(ps)} " + " ".join(f"{x} {y}" for x, y in ps)
    if k < 0.85:
        m = R.random()
        ix = any_slice(R, w) if m < 0.7 else any_int(R, w)
        iy = any_slice(R, h) if (m < 0.4 or m >= 0.7) else any_int(R, h)
        return f"gets {fmt_ix(ix)} {fmt_ix(iy)}"
    if k < 0.93:
        x, y = any_coord(R, w, h)
        return f"tadj {x} {y}"
    x, y = any_coord(R, w, h)
    return f"oob {x} {y}"


def gen_lset(R, impl):
    """a write to an int property layer: small values (ties are the interesting case), 15% arbitrary ints as coordinates (numpy
    aliasing / IndexError), 4% a layer that does not exist"""
    w, h = impl.w, impl.h
    l = R.randrange(2) if R.random() < 0.96 else R.randrange(2, 4)
    x, y = (any_int(R, w), any_int(R, h)) if R.random() < 0.15 else (R.randrange(w), R.randrange(h))
    v = R.choice([0, 1, 1, 2, 2, 3, 3, 5, -1, 9])
    return f"lset {l} {x} {y} {v}"


def gen_sel(R, impl):
    """one select_cells call: 0-2 masks (get_neighborhood_mask of a mostly in-grid centre, or an explicit array), only_empty, 0-2
    conditions and 0-2 extreme values on distinct layers (4% a layer that does not exist, 4% an invalid mode), either return form"""
    w, h = impl.w, impl.h
    rl, oe = R.random() < 0.75, R.random() < 0.6
    masks = []
    for _ in range(R.choice([0, 0, 0, 1, 1, 2])):
        if R.random() < (0.15 if impl.hex else 0.6):
            x, y = (R.randrange(w), R.randrange(h)) if R.random() < 0.95 else any_coord(R, w, h)
            masks.append(f"N/{x}/{y}/{int(R.random() < 0.5)}/{int(R.random() < 0.5)}/{R.choice([0, 1, 1, 1, 2, 2, 3])}")
        else:
            p = R.choice([0.3, 0.7, 0.9])
            masks.append("B/" + "".join("1" if R.random() < p else "0" for _ in range(w * h)))
    have = impl.nlayers

    def layers(n):
        ls = R.sample(range(2), min(n, 2))
        if n and R.random() < (0.04 if have else 0.5):
            ls[R.randrange(len(ls))] = R.randrange(2, 4)
        return ls

    nc = R.choice([0, 0, 1, 1, 2]) if have else R.choice([0, 0, 0, 0, 1])
    ne = R.choice([0, 0, 1, 1, 1, 2]) if have else R.choice([0, 0, 0, 0, 1])
    conds = [f"{l}/{R.choice(['ge', 'ge', 'le', 'eq', 'ne'])}/{R.choice([0, 1, 1, 2, 3, 5, 100])}" for l in layers(nc)]
    exts = [f"{l}/{R.choice(['highest', 'lowest']) if R.random() < 0.96 else 'bogus'}" for l in layers(ne)]
    return " ".join(["sel", str(int(rl)), str(int(oe)), str(len(masks)), *masks, str(len(conds)), *conds, str(len(exts)), *exts])


def exhaustive_select_c08():
    """select_cells on two small grids with layers (a stacked MultiGrid, a HexSingleGrid): every combination of return form x
    only_empty x {no mask, a neighbourhood mask, an explicit mask} x 4 conditions x 8 extreme-value dicts (ties, two layers in
    both orders, an invalid mode, a missing layer), and coord_iter"""
    out = []
    for kind, w, h in (("multi", 3, 2), ("hexsingle", 2, 2)):
        lines = [grid_header(kind, w, h, False, True, 3), "place 0 1 1", "place 1 1 1" if kind == "multi" else "place 1 0 0", "coorditer",
                 "lset 0 0 0 5", f"lset 0 {w - 1} {h - 1} 5", "lset 0 1 1 9", "lset 1 0 1 -1", "lset 1 1 0 2", "lset 0 -1 0 1", f"lset 1 {w} 0 1", "lset 2 0 0 1"]
        for rl in (1, 0):
            for oe in (0, 1):
                for m in ("0", "1 N/0/0/1/0/1", "1 B/" + "110111"[:w * h], "2 N/1/1/0/1/1 B/" + "011111"[:w * h]):
                    for c in ("0", "1 0/ge/1", "1 1/le/0", "2 1/ne/2 0/ge/5", "1 2/eq/0"):
                        for e in ("0", "1 0/highest", "1 0/lowest", "1 1/highest", "2 0/highest 1/lowest", "2 1/lowest 0/highest",
                                  "1 0/bogus", "1 3/highest"):
                            lines.append(f"sel {rl} {oe} {m} {c} {e}")
        lines += ["remove 0", "coorditer", "sel 1 1 0 0 0", "empties"]
        out.append(core.Scenario(lines, {"exhaustive": True}))
    return out


def exhaustive_index_c08():
    """every slice with bounds in None / -n-1 .. n+1 and steps None, ±1, ±2, 3, 0 on both axes of small grids (the other
    component a fixed int), every int index -2n .. 2n for grid[x] / is_cell_empty, on a bounded MultiGrid and a toroidal SingleGrid"""
    out = []
    for kind, w, h, torus in (("multi", 3, 2, False), ("single", 2, 4, True), ("hexsingle", 1, 3, False)):
        lines = [grid_header(kind, w, h, torus, False, 3)]
        lines += ["place 0 0 0", f"place 1 {w - 1} {h - 1}", f"place 2 {w - 1} {h - 1}" if kind == "multi" else f"place 2 0 {h - 1}"]
        for axis, n in (("x", w), ("y", h)):
            bounds = [None] + list(range(-n - 1, n + 2))
            for a in bounds:
                for b_ in bounds:
                    for st in (None, 1, 2, 3, -1, -2, 0):
                        sl = fmt_ix(slice(a, b_, st))
                        lines.append(f"gets {sl} I0" if axis == "x" else f"gets I0 {sl}")
            for a in (None, 0, 1, -1):
                for st in (None, -1, 2, 0):
                    lines.append(f"gets {fmt_ix(slice(a, None, st))} {fmt_ix(slice(None, a, st))}")
                    lines.append(f"gets {fmt_ix(slice(1, 1, None))} {fmt_ix(slice(a, None, st))}")
        for x in range(-2 * w - 1, 2 * w + 2):
            lines.append(f"geti {x}")
            for y in range(-2 * h - 1, 2 * h + 2):
                lines.append(f"isempty {x} {y}")
                lines.append(f"clc 1 {x} {y}")
            lines.append(f"gets I{x} S_/_/_")
            lines.append(f"gets S_/_/_ I{x}")
        out.append(core.Scenario(lines, {"exhaustive": True}))
    return out


def foreign_agent_scenarios():
    """outside the quantifier, tie only: an agent that lives on another grid is removed / moved / swapped here (SingleGrid.remove_agent
    clears the cell without looking and evicts the occupant; MultiGrid raises ValueError)"""
    out = []
    for kind in KINDS:
        for torus in (0, 1):
            lines = [grid_header(kind, 3, 2, torus, False, 4), "place 1 1 1", "place 2 0 0", "empties", "foreign 0 1 1", "dump",
                     "remove 0", "dump", "empties", "mask", "agents", "foreign 0 0 0", "move 0 2 1", "dump", "foreign 3 2 1", "swap 3 2",
                     "dump", "remove 1", "dump", "foreign 1 2 0", "mto 1 closest none 2 0 1 5 5 : 1 0", "dump", "mte 2 : 3", "dump"]
            out.append(core.Scenario(lines, {"oq": True}))
    return out


def gen_c08(R, tier, rejecting=False):
    kind = R.choice(KINDS)
    m = R.random()
    if m < 0.62:
        w, h = R.randint(1, 5), R.randint(1, 5)
    elif m < 0.82 or rejecting:
        w, h = R.choice([(1, 1), (1, 2), (2, 1), (2, 2), (1, 3), (3, 1), (2, 3)])
    else:
        w, h = R.choice([(6, 6), (7, 5), (5, 7), (7, 7), (6, 7), (8, 8)])
    torus = R.random() < 0.5
    layers = R.random() < 0.3
    nag = R.randint(1, min(7, w * h + 2)) if w * h > 1 else R.randint(1, 3)
    if w * h >= 30:
        nag = R.randint(1, 5)
    b = Builder(grid_header(kind, w, h, torus, layers, nag))
    impl = b.impl
    single = not impl.multi
    late_reads = R.random() < 0.3  # empties is first read only in the second half of the history
    # 4% of the histories leave the property's quantifier (place_agent of an agent that is already placed): they
    # only tie the model's branches for that case to the code; the property oracle does not apply to them
    oq = (not rejecting) and R.random() < 0.04
    if rejecting:
        for a in range(nag):
            e = impl.empty_cells()
            if R.random() < 0.8 and (impl.multi or e):
                x, y = (R.randrange(w), R.randrange(h)) if impl.multi else R.choice(e)
                b.add(f"place {a} {x} {y}")
        b.add("dump")
    n_ops = R.randint(5, 40 if tier == "quick" else 60)
    frozen = False
    if layers and not rejecting:
        for _ in range(R.randint(0, 6)):
            b.add(gen_lset(R, impl))
    # 30% of the histories: some agents are objects with a truth value of their own (falsy two times out of three) and change it
    # between calls; every view shows them all the same (finding L-AGENTS-FALSY: grid.agents went by truthiness)
    truths = (not rejecting) and R.random() < 0.3
    if truths:
        for a in range(nag):
            if R.random() < 0.6:
                b.add(gen_truth(R, a))
    for step in range(n_ops):
        if truths and R.random() < 0.1:
            b.add(gen_truth(R, R.randrange(nag)))
        placed = [i for i, a in enumerate(impl.agents) if a.pos is not None]
        unplaced = [i for i, a in enumerate(impl.agents) if a.pos is None]
        k = R.random()
        if frozen:
            k = 0.99  # reads only
        mut = True
        if rejecting and k < 0.5:
            # a call that is (likely to be) rejected, chosen among the kinds applicable in this state
            pos_of = {i: impl.agents[i].pos for i in placed}
            kinds = ["swap-unplaced", "mto-bad"]
            if placed and not torus:
                kinds += ["move-oob", "mto-oob"]
            if single and len(placed) >= 2:
                kinds += ["move-occupied", "move-occupied", "mto-occupied"]
            if single and placed and unplaced:
                kinds += ["place-occupied"]
            if placed and not impl.empty_cells():
                kinds += ["mte-full", "mte-full"]
            if placed:
                kinds += ["mte-script", "mto-script"]
            if unplaced and impl.multi:
                kinds += ["remove-unplaced", "move-unplaced", "mte-unplaced"]
            if unplaced:
                kinds += ["place-beyond", "place-beyond"]
            kind_ = R.choice(kinds)
            far = lambda: R.choice([(-1, 0), (w, 0), (0, -1), (0, h), (w + 3, h + 3), (-5, 2), (R.randrange(w), h), (w, R.randrange(h))])  # noqa: E731
            if kind_ == "move-oob":
                x, y = far()
                b.add(f"move {R.choice(placed)} {x} {y}")
            elif kind_ == "place-beyond":
                x, y = beyond_coord(R, w, h)
                b.add(f"place {R.choice(unplaced)} {x} {y}")
            elif kind_ in ("move-occupied", "mto-occupied"):
                a = R.choice(placed)
                x, y = pos_of[R.choice([i for i in placed if i != a])]
                if torus and R.random() < 0.5:
                    x, y = x + w * R.choice([-1, 1, 2]), y - h * R.choice([0, 1])
                if kind_ == "move-occupied":
                    b.add(f"move {a} {x} {y}")
                else:
                    sel = R.choice(["random", "closest"])
                    b.add(f"mto {a} {sel} none 1 {x} {y} : {R.randrange(1000)}")
            elif kind_ == "place-occupied":
                x, y = pos_of[R.choice(placed)]
                b.add(f"place {R.choice(unplaced)} {x} {y}")
            elif kind_ == "swap-unplaced":
                a = R.choice(unplaced) if unplaced else nag  # nag: not an agent -> never generated (see below)
                c = R.randrange(nag)
                if a == nag:
                    b.add(f"mto {c} bogus none 1 0 0 : 1")
                else:
                    b.add(f"swap {a} {c}" if R.random() < 0.5 else f"swap {c} {a}")
            elif kind_ == "mto-bad":
                a = R.randrange(nag)
                if R.random() < 0.5:
                    b.add(f"mto {a} closest error 0 : 1 2")
                else:
                    ps = [any_coord(R, w, h) for _ in range(R.randint(1, 3))]
                    b.add(f"mto {a} bogus {R.choice(['none', 'error'])} {len(ps)} " + " ".join(f"{x} {y}" for x, y in ps) + " : 1 2 3")
            elif kind_ == "mto-oob":
                a = R.choice(placed)
                ps = [far() for _ in range(R.randint(1, 2))]
                sel = R.choice(["random", "closest"])
                sc = [R.randrange(1000) for _ in range(len(ps) + 1)]
                b.add(f"mto {a} {sel} none {len(ps)} " + " ".join(f"{x} {y}" for x, y in ps) + " : " + " ".join(map(str, sc)))
            elif kind_ == "mte-full":
                b.add(f"mte {R.choice(placed)} : {R.randrange(1000)}")
            elif kind_ == "mte-script":
                b.add(f"mte {R.choice(placed)} :")
            elif kind_ == "mto-script":
                ps = [any_coord(R, w, h) for _ in range(R.randint(2, 4))]
                sel = R.choice(["random", "closest"])
                b.add(f"mto {R.choice(placed)} {sel} none {len(ps)} " + " ".join(f"{x} {y}" for x, y in ps) + " :" + (" 7" if sel == "closest" else ""))
            elif kind_ == "remove-unplaced":
                b.add(f"remove {R.choice(unplaced)}")
            elif kind_ == "move-unplaced":
                x, y = R.randrange(w), R.randrange(h)
                b.add(f"move {R.choice(unplaced)} {x} {y}")
            elif kind_ == "mte-unplaced":
                b.add(f"mte {R.choice(unplaced)} : " + " ".join(map(str, mte_script(R, impl))))
        elif oq and unplaced and k < 0.10:
            b.add(f"foreign {R.choice(unplaced)} {R.randrange(w)} {R.randrange(h)}")
        elif oq and unplaced and k < 0.16 and step >= n_ops // 3:
            # outside the quantifier: coordinates in the aliasing band -size..-1; the last mutating call of the scenario
            # (the model covers the call itself; `remove_agent` of an agent whose pos is no cell of the grid is not modelled)
            x, y = R.randrange(-w, w), R.randrange(-h, h)
            if x >= 0 and y >= 0:
                x = -1 - R.randrange(w)
            b.add(f"place {R.choice(unplaced)} {x} {y}")
            frozen = True
        elif k < 0.22 and (unplaced or (oq and placed)):
            a = R.choice(placed) if (oq and placed and (not unplaced or R.random() < 0.6)) else R.choice(unplaced)
            x, y = R.randrange(w), R.randrange(h)
            if a in unplaced and R.random() < 0.07:
                x, y = beyond_coord(R, w, h)  # IndexError (also on a torus: place_agent never wraps)
            b.add(f"place {a} {x} {y}")
        elif k < 0.30 and (placed or unplaced):
            a = R.choice(placed) if placed and R.random() < 0.9 else R.randrange(nag)
            b.add(f"remove {a}")
        elif k < 0.50 and (placed or unplaced):
            a = R.choice(placed) if placed and R.random() < 0.93 else R.randrange(nag)
            x, y = any_coord(R, w, h)
            b.add(f"move {a} {x} {y}")
        elif k < 0.57 and len(placed) >= 1:
            a = R.choice(placed)
            c = R.choice(placed) if R.random() < 0.9 else R.randrange(nag)
            b.add(f"swap {a} {c}")
        elif k < 0.67 and (placed or unplaced) and not (late_reads and step < n_ops // 2):
            a = R.choice(placed) if placed and R.random() < 0.93 else R.randrange(nag)
            rot = f" R{R.randrange(1, 12)}" if (not rejecting and R.random() < 0.3) else ""  # reordered empties set
            b.add(f"mte {a}{rot} : " + " ".join(map(str, mte_script(R, impl))))
        elif k < 0.80 and (placed or unplaced):
            a = R.choice(placed) if placed and R.random() < 0.93 else R.randrange(nag)
            n = R.choice([0, 1, 1, 2, 2, 3, 4, 5])
            ps = [any_coord(R, w, h) for _ in range(n)]
            if n >= 2 and R.random() < 0.3:
                ps[1] = ps[0]  # duplicates offered
            if n >= 2 and a in placed and R.random() < 0.3:
                # offers at the same distance from the agent: the tie list has several cells, the last draw decides
                px, py = impl.agents[a].pos
                d = R.randint(1, 2)
                ring = [(px + d, py), (px - d, py), (px, py + d), (px, py - d)]
                R.shuffle(ring)
                for j in range(min(n, R.randint(2, 4))):
                    ps[j] = ring[j]
            if n >= 2 and torus and R.random() < 0.4:
                ps[0] = (ps[0][0] + w * R.choice([-2, -1, 1, 2]), ps[0][1] + h * R.choice([-1, 0, 1]))
            sel = R.choice(["random", "closest", "closest", "closest", "bogus"] if R.random() < 0.15 else ["random", "closest", "closest"])
            he = R.choice(["none", "warning", "error"])
            need = 1 if sel == "random" else max(n - 1, 0) + 1
            sc = [R.randrange(1000) for _ in range(need if R.random() < 0.93 else R.randrange(need + 1))]
            b.add(f"mto {a} {sel} {he} {n} " + " ".join(f"{x} {y}" for x, y in ps) + " : " + " ".join(map(str, sc)))
        else:
            mut = False
            j = R.random()
            if late_reads and step < n_ops // 2:
                j = 0.3 + 0.7 * j
            if j < 0.18:
                b.add("empties")
            elif j < 0.3:
                b.add("exists")
            elif j < 0.40:
                b.add(f"isempty {R.randrange(w)} {R.randrange(h)}")
            elif j < 0.45:
                b.add(gen_index_read(R, w, h))
            elif j < 0.55:
                b.add("mask")
            elif j < 0.63:
                b.add("agents")
            elif j < 0.69:
                b.add("iter")
            elif j < 0.74:
                b.add("coorditer")
            elif j < 0.88:
                b.add(gen_sel(R, impl))
            elif j < 0.92 and layers:
                b.add(gen_lset(R, impl))
            else:
                x, y = any_coord(R, w, h)
                b.add(f"get {x} {y}")
        if mut:
            b.add("dump")
    return b.scenario({"oq": True} if oq else None)


def random_graph(R, n):
    p = R.choice([0.0, 0.15, 0.3, 0.5, 1.0])
    cand = [(a, c) for a in range(n) for c in range(a + 1, n) if R.random() < p]
    R.shuffle(cand)
    return [(a, c) if R.random() < 0.5 else (c, a) for a, c in cand]


def gen_c08_net(R, tier, rejecting=False):
    """NetworkGrid as a space: histories of place / move / remove (existing and missing nodes, placed and
    unplaced agents) interleaved with the reads; a dump (pos, node lists) follows every mutating call"""
    n = R.randint(1, 7)
    edges = random_graph(R, n)
    nag = R.randint(1, 6)
    b = Builder(f"scenario net {n} {nag} {len(edges)} " + " ".join(f"{a} {c}" for a, c in edges))
    impl = b.impl
    node = lambda: R.randrange(n)  # noqa: E731
    missing = lambda: n + R.randrange(3)  # noqa: E731
    p_bad = 0.45 if rejecting else 0.12
    # 5% of the histories leave the quantifier (place_agent of an agent that is already in the space: it ends up in two node
    # lists): model-vs-code tie only, the oracle does not apply
    oq = (not rejecting) and R.random() < 0.05
    if rejecting:
        for a in range(nag):
            if R.random() < 0.7:
                b.add(f"nplace {a} {node()}")
        b.add("ndump")
    for _ in range(R.randint(5, 30 if tier == "quick" else 45)):
        placed = [i for i, a in enumerate(impl.agents) if a.pos is not None]
        unplaced = [i for i, a in enumerate(impl.agents) if a.pos is None]
        k = R.random()
        mut = True
        if k < 0.2 and (unplaced or (oq and placed)):
            a = R.choice(placed) if (oq and placed and (not unplaced or R.random() < 0.6)) else R.choice(unplaced)
            b.add(f"nplace {a} {missing() if R.random() < p_bad else node()}")
        elif k < 0.5 and (placed or unplaced):
            a = R.choice(unplaced) if unplaced and (not placed or R.random() < p_bad / 2) else R.choice(placed)
            if placed and a in placed and R.random() < 0.15:
                v = impl.agents[a].pos  # onto its own node: goes to the end of the list
            else:
                v = missing() if R.random() < p_bad else node()
            b.add(f"nmove {a} {v}")
        elif k < 0.62 and (placed or unplaced):
            a = R.choice(unplaced) if unplaced and (not placed or R.random() < p_bad) else R.choice(placed)
            b.add(f"nremove {a}")
        else:
            mut = False
            j = R.random()
            if j < 0.2:
                b.add(f"nisempty {missing() if R.random() < 0.15 else node()}")
            elif j < 0.45:
                vs = [missing() if R.random() < 0.06 else node() for _ in range(R.randrange(5))]
                b.add(f"{R.choice(['nclc', 'niclc'])} {len(vs)} " + " ".join(map(str, vs)))
            elif j < 0.6:
                b.add("nallc")
            elif j < 0.75:
                b.add("nagents")
            else:
                r = R.choice([0, 1, 1, 1, 2, 2, 3, n])
                b.add(f"{R.choice(['nnbrs', 'nnbrs', 'nnbhd'])} {node()} {int(R.random() < 0.5)} {r}")
        if mut:
            b.add("ndump")
    return b.scenario({"oq": True} if oq else None)


def exhaustive_c08_net():
    """bounded-exhaustive NetworkGrid state machine: every history of length <= 3 (two agents) and <= 4 (one agent) over
    {place a v, move a v, remove a} with v in {0, 1, 2 = a node that does not exist} that stays within the quantifier
    (place_agent of unplaced agents only), each followed by a dump; NetworkGrid has no hidden state, so removing the
    placed agents returns to the initial state and all histories are chained in one scenario per setting"""
    import itertools

    out = []
    for nag, length in ((2, 3), (1, 4)):
        ops = [(k, a, v) for a in range(nag) for k in ("nplace", "nmove") for v in (0, 1, 2)] + [("nremove", a, None) for a in range(nag)]
        lines = [f"scenario net 2 {nag} 1 0 1"]
        for hist in itertools.product(ops, repeat=length):
            placed, ok, body = set(), True, []
            for k, a, v in hist:
                if k == "nplace":
                    if a in placed:
                        ok = False
                        break
                    if v < 2:
                        placed.add(a)
                elif k == "nremove":
                    placed.discard(a)
                body.append(f"{k} {a}" + ("" if v is None else f" {v}"))
                body.append("ndump")
            if not ok:
                continue
            lines += body + ["nallc"] + [f"nremove {a}" for a in sorted(placed)]
        out.append(core.Scenario(lines, {"exhaustive": True}))
    return out


def exhaustive_c08_grid():
    """bounded-exhaustive grid state machine on a 2x1 grid with two agents: every within-quantifier history of length <= 3 over
    {place a c (both cells and one beyond the grid), remove a, move a t (in-grid, x beyond the edge, y beyond the edge), swap} — first with `empties` never read, then
    (length <= 2) with `empties` built —, a dump after every call.  Removing both agents returns to the initial observable state
    (`remove_agent` of an unplaced agent is silent on a SingleGrid and a rejected TypeError on a MultiGrid), so the histories are
    chained in one scenario per class and torus flag.  A tiny simulation of occupancy decides which `place` calls are within
    the quantifier (an error in it would show as an oracle failure on the unchanged tree)."""
    import itertools

    cells = [(0, 0), (1, 0)]
    targets = [(0, 0), (1, 0), (2, 0), (0, -1)]
    ops = [("swap", 0, 1)]
    for a in (0, 1):
        ops += [("place", a, c) for c in cells + [(2, 0)]] + [("remove", a, None)] + [("move", a, t) for t in targets]

    def simulate(hist, multi, torus):
        """-> lines or None if a place call would leave the quantifier"""
        pos, body = {0: None, 1: None}, []
        occ = lambda c, but=None: [b for b in pos if pos[b] == c and b != but]  # noqa: E731
        for k, a, x in hist:
            if k == "place":
                if pos[a] is not None:
                    return None
                if x in cells and (multi or not occ(x)):
                    pos[a] = x  # (2, 0) is beyond the grid: IndexError, nothing changes
                body.append(f"place {a} {x[0]} {x[1]}")
            elif k == "remove":
                pos[a] = None
                body.append(f"remove {a}")
            elif k == "move":
                t = x if x in cells else ((x[0] % 2, x[1] % 1) if torus else None)
                if t is not None and (pos[a] is not None or not multi) and (multi or not occ(t, a)):
                    pos[a] = t
                body.append(f"move {a} {x[0]} {x[1]}")
            else:
                if pos[0] is not None and pos[1] is not None:
                    pos[0], pos[1] = pos[1], pos[0]
                body.append("swap 0 1")
            body.append("dump")
        return body + ["remove 0", "remove 1"]

    out = []
    for kind in ("single", "multi"):
        for torus in (0, 1):
            # one scenario per (empties built?, first call of the history): each starts from a fresh grid
            for built, length in ((False, 3), (True, 2)):
                for first in ops:
                    lines = [grid_header(kind, 2, 1, torus, False, 2)] + (["empties", "dump"] if built else [])
                    for n in range(1, length + 1):
                        for rest in itertools.product(ops, repeat=n - 1):
                            body = simulate((first, *rest), kind == "multi", torus)
                            if body:
                                lines += body + (["empties", "mask"] if built and n == length else [])
                    if len(lines) > 3:
                        out.append(core.Scenario(lines, {"exhaustive": True}))
    return out


RADII = [1, 1, 1, 2, 2, 3, 4, 7]


def gen_truth(R, a):
    """agent a gets a truth value: falsy two times out of three (through __bool__ or an empty __len__)"""
    return f"truth {a} " + R.choice(["b 0", "b 0", "l 0", "l 0", "b 1", "l 3"])


def truth_scenarios_c09():
    """every agent query on small grids of the four classes whose agents are falsy objects (through __bool__ / __len__ == 0),
    truthy ones with a length, or plain; then the same queries after the truth values are flipped"""
    out = []
    for kind in KINDS:
        hexk, multi = kind.startswith("hex"), kind in ("multi", "hexmulti")
        for torus in (False, True):
            w, h = (4, 3) if hexk else (3, 3)
            lines = [grid_header(kind, w, h, torus, False, 5), "place 0 0 0", "place 1 1 1", "place 2 2 1",
                     "place 3 1 1" if multi else "place 3 1 2", "place 4 0 2",
                     "truth 0 b 0", "truth 1 l 0", "truth 2 l 2", "truth 3 b 1"]
            qs = []
            for x in range(w):
                for y in range(h):
                    for ic in (0, 1):
                        for r in (1, 2):
                            if hexk:
                                qs += [f"hnbrs {x} {y} {ic} {r}", f"ihnbrs {x} {y} {ic} {r}"]
                            else:
                                qs += [f"nbrs {x} {y} {m} {ic} {r}" for m in (0, 1)] + [f"inbrs {x} {y} 1 {ic} {r}"]
                    qs += [f"clc 1 {x} {y}", f"iclc 1 {x} {y}"]
            allc = " ".join(f"{x} {y}" for x in range(w) for y in range(h))
            qs += [f"clc {w * h} {allc}", f"iclc {w * h} {allc}", "dump", "agents"]  # `agents`: judged by C08's oracle (truth_scenarios_c08)
            lines += qs + ["truth 0 b 1", "truth 1 l 1", "truth 2 l 0", "truth 3 b 0", "truth 4 l 0", "move 4 2 2"] + qs[::3] + ["dump"]
            out.append(core.Scenario(lines, {"exhaustive": True}))
    return out


def gen_c09_grid(R, tier):
    kind = R.choice(KINDS)
    hexk = kind.startswith("hex")
    w, h = R.randint(1, 7), R.randint(1, 7)
    torus = R.random() < 0.5
    oq = False
    if hexk and torus and w % 2:
        if R.random() < 0.12:
            oq = True  # odd-width hex torus: no wrapped hexagonal tiling exists (outside the quantifier) — model-vs-code tie only
        else:
            w += 1
    multi = kind in ("multi", "hexmulti")
    nag = R.randint(0, 8)
    b = Builder(grid_header(kind, w, h, torus, R.random() < 0.2, nag))
    impl = b.impl
    for a in range(nag):
        if R.random() < 0.85:
            if multi:
                b.add(f"place {a} {R.randrange(w)} {R.randrange(h)}")
            else:
                e = impl.empty_cells()
                if e:
                    x, y = R.choice(e)
                    b.add(f"place {a} {x} {y}")
    stack = None
    if multi and nag >= 3 and R.random() < 0.5:
        # several agents on one cell: queried with and without include_center, from the cell itself and from a neighbour
        stack = (R.randrange(w), R.randrange(h))
        for a in R.sample(range(nag), R.randint(2, min(4, nag))):
            if impl.agents[a].pos is None:
                b.add(f"place {a} {stack[0]} {stack[1]}")
            else:
                b.add(f"move {a} {stack[0]} {stack[1]}")
    # 40% of the scenarios with agents: some agents are objects with a truth value of their own (a dead animal, an empty depot):
    # they occupy their cell all the same, and may change their truth value between queries
    truths = bool(nag) and R.random() < 0.4
    if truths:
        for a in range(nag):
            if R.random() < 0.6:
                b.add(gen_truth(R, a))
    keys = []
    for _ in range(R.randint(8, 30)):
        k = R.random()
        if k < 0.12 and nag:
            a = R.randrange(nag)
            if impl.agents[a].pos is not None:
                # in-grid targets only: C09 scenarios must not depend on torus_adj (that is C08's business)
                b.add(f"move {a} {R.randrange(w)} {R.randrange(h)}")
            continue
        if truths and k < 0.2:
            b.add(gen_truth(R, R.randrange(nag)))
            continue
        if keys and R.random() < 0.3:
            pos, moore, ic, r = R.choice(keys)  # a repeated key: answered from the cache
        else:
            pos = (R.randrange(w), R.randrange(h)) if R.random() < (0.95 if hexk else 0.93) else any_coord(R, w, h)
            if stack and R.random() < 0.35:
                pos = stack if R.random() < 0.5 else (min(w - 1, stack[0] + R.randrange(2)), max(0, stack[1] - R.randrange(2)))
            moore, ic = R.random() < 0.5, R.random() < 0.5
            r = R.choice(RADII + [w, h, max(w, h) + 1, 0])
            if hexk and r > 6:
                r = 5
            keys.append((pos, moore, ic, r))
        x, y = pos
        if hexk:
            op = R.choice(["hnbhd", "hnbhd", "ihnbhd", "hnbrs", "hnbrs", "ihnbrs"])
            b.add(f"{op} {x} {y} {int(ic)} {r}")
            if R.random() < 0.03:
                b.add(f"nmask {x} {y} {int(moore)} {int(ic)} {r}")  # inherited, but calls the hex get_neighborhood with 4 arguments
        else:
            op = R.choice(["nbhd", "nbhd", "inbhd", "nbrs", "nbrs", "inbrs", "nmask"])
            b.add(f"{op} {x} {y} {int(moore)} {int(ic)} {r}")
        if R.random() < 0.12:
            n = R.choice([0, 1, 2, 3, 5])
            raw = R.random() < 0.2  # arbitrary integers: Python aliasing of -size..-1, IndexError beyond
            cs = [(any_int(R, w), any_int(R, h)) if raw else (R.randrange(w), R.randrange(h)) for _ in range(n)]
            b.add(f"{R.choice(['clc', 'iclc'])} {n} " + " ".join(f"{x} {y}" for x, y in cs))
    return b.scenario({"oq": True} if oq else None)


def gen_c09_net(R, tier):
    n = R.randint(1, 8)
    edges = random_graph(R, n)
    nag = R.randint(0, 6)
    b = Builder(f"scenario net {n} {nag} {len(edges)} " + " ".join(f"{a} {c}" for a, c in edges))
    impl = b.impl
    for a in range(nag):
        if R.random() < 0.85:
            b.add(f"nplace {a} {R.randrange(n)}")
    for _ in range(R.randint(6, 24)):
        k = R.random()
        placed = [i for i, a in enumerate(impl.agents) if a.pos is not None]
        if k < 0.1 and placed:
            b.add(f"nmove {R.choice(placed)} {R.randrange(n)}")
        elif k < 0.15 and placed:
            b.add(f"nremove {R.choice(placed)}")
        elif k < 0.2:
            vs = [R.randrange(n) for _ in range(R.randrange(4))]
            b.add(f"nclc {len(vs)} " + " ".join(map(str, vs)))
        elif k < 0.25:
            b.add(R.choice(["nagents", f"nisempty {R.randrange(n)}", "ndump"]))
        else:
            r = R.choice([0, 1, 1, 1, 2, 2, 3, 4, n, n + 1])
            v = n + R.randrange(2) if R.random() < 0.04 else R.randrange(n)
            b.add(f"{R.choice(['nnbhd', 'nnbhd', 'nnbrs'])} {v} {int(R.random() < 0.5)} {r}")
    return b.scenario()


def exhaustive_c09(max_side, radii, hex_radii):
    """every (position, radius, flags) on every grid up to max_side², in two query orders (forward, then
    reversed: the second pass is answered from the cache) — one scenario per grid"""
    out = []
    for kind in ("single", "hexmulti"):
        hexk = kind.startswith("hex")
        for w in range(1, max_side + 1):
            for h in range(1, max_side + 1):
                for torus in (False, True):
                    if hexk and torus and w % 2:
                        continue
                    lines = [grid_header(kind, w, h, torus, False, 0)]
                    qs = []
                    for x in range(w):
                        for y in range(h):
                            for r in (hex_radii if hexk else radii):
                                for ic in (0, 1):
                                    if hexk:
                                        qs.append(f"hnbhd {x} {y} {ic} {r}")
                                    else:
                                        for moore in (0, 1):
                                            qs.append(f"nbhd {x} {y} {moore} {ic} {r}")
                    lines += qs + qs[::-7]
                    out.append(core.Scenario(lines, {"exhaustive": True}))
    return out


def exhaustive_c09_net(max_n):
    """every simple undirected graph on up to max_n labelled nodes (edges added in lexicographic order, and once more reversed and
    flipped, which changes G.neighbors order), every node, both include_center values, every radius 0..n; three agents on the
    first nodes so that get_neighbors is exercised too — one scenario per node count and edge order"""
    import itertools

    out = []
    for n in range(1, max_n + 1):
        cand = [(a, c) for a in range(n) for c in range(a + 1, n)]
        for flip in (False, True):
            lines_all = []
            for mask in range(1 << len(cand)):
                es = [e for i, e in enumerate(cand) if mask >> i & 1]
                if flip:
                    es = [(c, a) for a, c in reversed(es)]
                lines = [f"scenario net {n} 3 {len(es)} " + " ".join(f"{a} {c}" for a, c in es)]
                lines += [f"nplace {a} {a % n}" for a in range(3)]
                for v, ic, r in itertools.product(range(n), (0, 1), range(n + 1)):
                    lines.append(f"nnbhd {v} {ic} {r}")
                    if r <= 2:
                        lines.append(f"nnbrs {v} {ic} {r}")
                lines_all.append(lines)
            out += [core.Scenario(ls, {"exhaustive": True}) for ls in lines_all]
    return out


# --------------------------------------------------------------------------------------
# oracles: the properties' clauses evaluated on what the implementation did


def _hdr(sc):
    w = sc.lines[0].split()
    if w[1] == "grid":
        return {"type": "grid", "kind": w[2], "w": int(w[3]), "h": int(w[4]), "torus": w[5] == "1", "nag": int(w[8]),
                "multi": w[2] in ("multi", "hexmulti"), "hex": w[2].startswith("hex")}
    return {"type": "net", "n": int(w[2]), "nag": int(w[3]), "edges": pairs(w[5:])}


def check_views(H, s, bad, where):
    """C08 state clauses on one snapshot"""
    w, h = H["w"], H["h"]
    cells = {tuple(map(int, k.split(","))): tuple(v) for k, v in s["cells"].items()}
    where_is = {}
    for c, l in cells.items():
        for a in l:
            where_is.setdefault(a, []).append(c)
    for a, p in enumerate(s["pos"]):
        occ = where_is.get(a, [])
        if p is None:
            if occ:
                bad.append(f"pos-content: {where}: agent {a} has pos None but is in cell(s) {occ}")
        else:
            if not (0 <= p[0] < w and 0 <= p[1] < h):
                bad.append(f"pos-ingrid: {where}: agent {a} has pos {p} outside the {w}x{h} grid")
            if occ != [p]:
                bad.append(f"pos-content: {where}: agent {a} has pos {p} but is in cell(s) {occ}")
    if not H["multi"]:
        for c, l in cells.items():
            if len(l) > 1:
                bad.append(f"single-two: {where}: cell {c} holds {l}")
    order = [(x, y) for x in range(w) for y in range(h)]
    for i, c in enumerate(order):
        e = not cells[c]
        if s["mask"][i] != e:
            bad.append(f"mask: {where}: empty_mask[{c}] = {s['mask'][i]} but the cell holds {cells[c]}")
            break
    for i, c in enumerate(order):
        e = not cells[c]
        if s["empty"][i] != e:
            bad.append(f"isempty: {where}: is_cell_empty({c}) = {s['empty'][i]} but the cell holds {cells[c]}")
            break


def check_views_net(H, s, bad, where):
    """pos / node-list agreement on one NetworkGrid snapshot"""
    where_is = {}
    for v, l in s["cells"].items():
        if len(set(l)) != len(l):
            bad.append(f"net-pos-content: {where}: node {v} lists an agent twice: {l}")
        for a in l:
            where_is.setdefault(a, []).append(int(v))
    for a, p in enumerate(s["pos"]):
        occ = where_is.get(a, [])
        if p is None:
            if occ:
                bad.append(f"net-pos-content: {where}: agent {a} has pos None but is in node(s) {occ}")
        elif occ != [p]:
            bad.append(f"net-pos-content: {where}: agent {a} has pos {p} but is in node(s) {occ}")


def oracle_c08_net(sc, obs, H):
    """NetworkGrid as a space: the C08-style clauses evaluated on the implementation's trace"""
    tr = sc.meta.get("trace") or []
    bad = []
    n = H["n"]
    for i, e in enumerate(tr):
        op, res, B, A = e["op"], e["res"], trace_before(tr, i), e["after"]
        k = op[0]
        where = f"line {i + 1} ({' '.join(op[:4])})"
        if i == 0:
            check_views_net(H, B, bad, "initial state")
        check_views_net(H, A, bad, where)
        Bc = {int(v): list(l) for v, l in B["cells"].items()}
        Ac = {int(v): list(l) for v, l in A["cells"].items()}
        same = (list(A["pos"]), Ac) == (list(B["pos"]), Bc)
        mutator = k in ("nplace", "nremove", "nmove")
        if res.startswith("err") and not same:
            bad.append(f"net-reject-unchanged: {where}: raised {res} but the observable state changed")
        if not mutator and not same:
            bad.append(f"net-read-pure: {where}: a read changed the observable state")
        if k == "nisempty":
            v = int(op[1])
            if v < n:
                if not res.startswith("ok") or e["val"] != (not Bc[v]):
                    bad.append(f"net-isempty: {where}: gave {res}, node holds {Bc[v]}")
            elif res != "err Key":
                bad.append(f"net-isempty: {where}: node {v} does not exist, gave {res}")
        elif k in ("nclc", "niclc"):
            vs = [int(x) for x in op[2:]]
            if all(v < n for v in vs):
                want = [a for v in vs for a in Bc[v]]
                if not res.startswith("ok") or e["val"] != want:
                    bad.append(f"net-clc: {where}: gave {res}, agents on those nodes are {want}")
            elif res != "err Key":
                bad.append(f"net-clc: {where}: a listed node does not exist, gave {res}")
        elif k in ("nallc", "nagents"):
            want = [a for v in range(n) for a in Bc[v]]
            if not res.startswith("ok") or e["val"] != want:
                bad.append(f"net-all: {where}: gave {res}, the node lists hold {want}")
        if not mutator:
            continue
        a = int(op[1])
        pa = B["pos"][a]
        if any(A["pos"][j] != B["pos"][j] for j in range(H["nag"]) if j != a):
            bad.append(f"net-frame: {where}: the position of an agent not named in the call changed")
        touched = {pa} | ({int(op[2])} if k != "nremove" else set())
        if any(Ac[v] != Bc[v] for v in range(n) if v not in touched):
            bad.append(f"net-frame: {where}: the list of a node not involved in the call changed")
        if k == "nplace" and pa is None:
            v = int(op[2])
            if v >= n:
                if res != "err Key":
                    bad.append(f"net-place: {where}: node {v} does not exist, gave {res}")
            elif res != "ok" or A["pos"][a] != v or Ac[v] != Bc[v] + [a]:
                bad.append(f"net-place: {where}: gave {res}, pos {A['pos'][a]}, node list {Ac[v]}")
        elif k == "nremove":
            if pa is None:
                if res != "err Key":
                    bad.append(f"net-remove: {where}: agent not in the space, gave {res}")
            elif res != "ok" or A["pos"][a] is not None or Ac[pa] != [x for x in Bc[pa] if x != a]:
                bad.append(f"net-remove: {where}: gave {res}, pos {A['pos'][a]}, node list {Ac[pa]}")
        elif k == "nmove":
            v = int(op[2])
            if v >= n or pa is None:
                if res != "err Key":
                    bad.append(f"net-move-reject: {where}: {'node does not exist' if v >= n else 'agent not in the space'}, gave {res}")
            elif res != "ok" or A["pos"][a] != v or Ac[v] != [x for x in Bc[v] if x != a] + [a] or (pa != v and Ac[pa] != [x for x in Bc[pa] if x != a]):
                bad.append(f"net-move: {where}: gave {res}, pos {A['pos'][a]}, target list {Ac[v]}, old list {Ac[pa]}")
    return bad


def torus_dist_sq(H, p, q):
    """squared distance between the cells two coordinates denote (per axis the least distance over all translates on a torus)"""
    w, h = H["w"], H["h"]
    dx, dy = abs(p[0] - q[0]), abs(p[1] - q[1])
    if H["torus"]:
        dx, dy = min(dx % w, w - dx % w), min(dy % h, h - dy % h)
    return dx * dx + dy * dy


def closest_ties(H, ps, cur):
    """the offers at minimal distance from cur (with multiplicity)"""
    best = min(torus_dist_sq(H, q, cur) for q in ps)
    return [q for q in ps if torus_dist_sq(H, q, cur) == best]


def aliased_place(H, line):
    """a `place` whose coordinates lie in Python's aliasing band -size..-1 (accepted by place_agent, leaves pos outside the grid)"""
    t = line.split()
    if t[0] != "place" or H["type"] != "grid":
        return False
    x, y = int(t[2]), int(t[3])
    return -H["w"] <= x < H["w"] and -H["h"] <= y < H["h"] and (x < 0 or y < 0)


def oracle_c08(sc, obs):
    H = _hdr(sc)
    if sc.meta.get("oq") or any(l.startswith("foreign ") or aliased_place(H, l) for l in sc.lines[1:]):
        return []  # outside the quantifier (also after shrinking): model-vs-code tie only
    if H["type"] == "net":
        return oracle_c08_net(sc, obs, H)
    tr = sc.meta.get("trace") or []
    bad = []
    w, h, torus, multi = H["w"], H["h"], H["torus"], H["multi"]
    order = [(x, y) for x in range(w) for y in range(h)]
    ing = lambda p: 0 <= p[0] < w and 0 <= p[1] < h  # noqa: E731
    wrap = lambda p: (p[0] % w, p[1] % h)  # noqa: E731

    def tdist(p, q):
        dx, dy = abs(p[0] - q[0]), abs(p[1] - q[1])
        if torus:
            # distance between the cells the coordinates denote on the torus: least over all translates
            dx = min(abs(p[0] - q[0] + k * w) for k in range(-abs(p[0] - q[0]) // w - 2, abs(p[0] - q[0]) // w + 3))
            dy = min(abs(p[1] - q[1] + k * h) for k in range(-abs(p[1] - q[1]) // h - 2, abs(p[1] - q[1]) // h + 3))
        return dx * dx + dy * dy

    for i, e in enumerate(tr):
        op, res, B, A = e["op"], e["res"], trace_before(tr, i), e["after"]
        Bc = {tuple(map(int, kk.split(","))): tuple(v) for kk, v in B["cells"].items()}
        k = op[0]
        where = f"line {i + 1} ({' '.join(op[:4])})"
        if i == 0:
            check_views(H, B, bad, "initial state")
        check_views(H, A, bad, where)
        mutator = k in ("place", "remove", "move", "swap", "mte", "mto")
        if res.startswith("err") and (A["pos"], A["cells"], A["mask"], A["empty"]) != (B["pos"], B["cells"], B["mask"], B["empty"]):
            bad.append(f"reject-unchanged: {where}: raised {res} but the observable state changed")
        if not mutator and (A["pos"], A["cells"], A["mask"], A["empty"]) != (B["pos"], B["cells"], B["mask"], B["empty"]):
            bad.append(f"read-pure: {where}: a read changed the observable state")
        empties_now = [c for c in order if not Bc[c]]
        if k == "empties" and res.startswith("ok"):
            if e["val"] != empties_now:
                bad.append(f"empties: {where}: empties = {e['val']}, empty cells are {empties_now}")
        elif k == "exists" and res.startswith("ok"):
            if e["val"] != bool(empties_now):
                bad.append(f"exists: {where}: exists_empty_cells() = {e['val']}, empty cells are {empties_now}")
        elif k == "isempty" and res.startswith("ok") and ing((int(op[1]), int(op[2]))):
            c = (int(op[1]), int(op[2]))
            if e["val"] != (not Bc[c]):
                bad.append(f"isempty: {where}: is_cell_empty = {e['val']}, cell holds {Bc[c]}")
        elif k == "mask" and res.startswith("ok"):
            want = tuple(not Bc[c] for c in order)
            if tuple(e["val"]) != want:
                bad.append(f"mask: {where}: empty_mask does not describe the empty cells")
        elif k == "agents" and res.startswith("ok"):
            want = [a for c in order for a in Bc[c]]
            if e["val"] != want:
                bad.append(f"agents: {where}: grid.agents = {e['val']}, contents are {want}")
        elif k == "iter" and res.startswith("ok"):
            want = [Bc[c] for c in order]
            if [tuple(x) for x in e["val"]] != want:
                bad.append(f"iter: {where}: iteration shows {e['val']}, contents are {want}")
        elif k == "get":
            p = (int(op[1]), int(op[2]))
            if ing(p) or torus:
                want = Bc[wrap(p)]
                if not res.startswith("ok") or tuple(e["val"]) != want:
                    bad.append(f"get-wrap: {where}: grid[{p}] gave {res}, cell {wrap(p)} holds {want}")
            elif res != "err OutOfBounds":
                bad.append(f"get-reject: {where}: grid[{p}] on a bounded grid gave {res}")
        elif k == "geti" and res.startswith("ok") and 0 <= int(op[1]) < w:
            want = [Bc[(int(op[1]), y)] for y in range(h)]
            if [tuple(x) for x in e["val"]] != want:
                bad.append(f"index: {where}: grid[{op[1]}] shows {e['val']}, the column holds {want}")
        elif k == "getl" and len(op) > 2:
            ps = pairs(op[2:])
            if all(ing(p) or torus for p in ps):
                want = [Bc[wrap(p)] for p in ps]
                if not res.startswith("ok") or [tuple(x) for x in e["val"]] != want:
                    bad.append(f"index: {where}: grid[{ps}] gave {res}, those cells hold {want}")
            elif res != "err OutOfBounds":
                bad.append(f"get-reject: {where}: a position outside a bounded grid gave {res}")
        elif k == "gets":
            # reference: Python's own list slicing applied to the nested lists of cell contents (ints wrap / reject like grid[x, y])
            ix, iy = parse_ix(op[1]), parse_ix(op[2])
            ref = [[Bc[(x, y)] for y in range(h)] for x in range(w)]
            want, rej = None, False
            try:
                if isinstance(ix, int) and isinstance(iy, int):
                    if ing((ix, iy)) or torus:
                        want = [Bc[wrap((ix, iy))]]
                    else:
                        rej = True
                elif isinstance(ix, int):
                    if 0 <= ix < w or torus:
                        want = list(ref[ix % w][iy])
                    else:
                        rej = True
                elif isinstance(iy, int):
                    if 0 <= iy < h or torus:
                        want = [col[iy % h] for col in ref[ix]]
                    else:
                        rej = True
                else:
                    want = [c for col in ref[ix] for c in col[iy]]
            except ValueError:
                want = "err Value"
            if rej:
                if res != "err OutOfBounds":
                    bad.append(f"get-reject: {where}: an int index outside a bounded grid gave {res}")
            elif want == "err Value":
                if res != "err Value":
                    bad.append(f"index: {where}: a zero slice step gave {res}")
            elif not res.startswith("ok") or [tuple(x) for x in e["val"]] != want:
                bad.append(f"index: {where}: gave {res}, Python slicing of the contents gives {want}")
        elif k == "coorditer":
            want = [(c, Bc[c]) for c in order]
            if not res.startswith("ok") or [(tuple(c), tuple(l)) for c, l in e["val"]] != want:
                bad.append(f"coord-iter: {where}: coord_iter() gave {e['val']}, the cells in order hold {want}")
        elif k == "lset":
            l, p, v = int(op[1]), (int(op[2]), int(op[3])), int(op[4])
            lay_b, lay_a = B.get("layers") or [], A.get("layers") or []
            if l < len(lay_b) and ing(p):
                i = order.index(p)
                want = [list(x) for x in lay_b]
                want[l][i] = v
                if res != "ok" or [list(x) for x in lay_a] != want:
                    bad.append(f"layer-set: {where}: gave {res}; the layers are {lay_a}, expected {want}")
            elif res.startswith("err") and lay_a != lay_b:
                bad.append(f"reject-unchanged: {where}: raised {res} but a layer changed")
        elif k == "sel":
            rl, oe, masks, conds, exts = parse_sel(op)
            lay = B.get("layers") or []
            val = lambda l, c: lay[l][order.index(c)]  # noqa: E731
            err, sel = None, set(order)
            for m in masks:  # the masks are built first, left to right
                if m[0] == "N":
                    if H["hex"]:
                        err = "Type"  # get_neighborhood_mask is inherited by the hex classes but cannot work there
                    elif not ing((m[1], m[2])):
                        err = "OutOfBounds"
                    else:
                        ball = orth_ball(w, h, torus, (m[1], m[2]), m[3], m[5])
                        if not m[4]:
                            ball.discard((m[1], m[2]))
                        sel &= ball
                else:
                    sel &= {c for c, bit in zip(order, m[1]) if bit == "1"}
                if err:
                    break
            if err is None:
                if oe:
                    sel = {c for c in sel if not Bc[c]}
                for l, cmp_, kk in conds:
                    if l >= len(lay):
                        err = "Key"
                        break
                    sel = {c for c in sel if {"ge": val(l, c) >= kk, "le": val(l, c) <= kk, "eq": val(l, c) == kk, "ne": val(l, c) != kk}[cmp_]}
            if err is None:
                for l, mode in exts:
                    if l >= len(lay):
                        err = "Key"
                        break
                    if mode not in ("highest", "lowest"):
                        err = "Value"
                        break
                    if sel:
                        t = (max if mode == "highest" else min)(val(l, c) for c in sel)
                        sel = {c for c in sel if val(l, c) == t}
            if err:
                if res != "err " + err:
                    bad.append(f"select-reject: {where}: gave {res}, expected err {err}")
            else:
                want = [c for c in order if c in sel]
                got = [tuple(c) for c in e["val"]] if rl and res.startswith("ok") else (
                    [c for c, bit in zip(order, e["val"]) if bit] if res.startswith("ok") else None)
                if got != want:
                    bad.append(f"select: {where}: select_cells gave {res if got is None else got}, the cells that qualify "
                               f"(masks, {'empty, ' if oe else ''}conditions, extreme values) are {want}")
        elif k == "tadj":
            p = (int(op[1]), int(op[2]))
            if ing(p) or torus:
                if not res.startswith("ok") or tuple(e["val"]) != wrap(p):
                    bad.append(f"torus-adj: {where}: gave {res}, expected {wrap(p)}")
            elif res != "err OutOfBounds":
                bad.append(f"torus-adj: {where}: outside a bounded grid gave {res}")
        elif k == "oob" and res.startswith("ok"):
            if e["val"] != (not ing((int(op[1]), int(op[2])))):
                bad.append(f"oob: {where}: out_of_bounds gave {e['val']}")
        if not mutator:
            continue
        a = int(op[1])
        others_same = all(A["pos"][j] == B["pos"][j] for j in range(H["nag"]) if j != a and not (k == "swap" and j == int(op[2])))
        if not others_same:
            bad.append(f"frame: {where}: the position of an agent not named in the call changed")
        pa = B["pos"][a]
        if res == "ok" and not (k == "place" and pa is not None):
            # what the call does to the cell lists: every agent whose pos changed left its old list and was appended to its new
            # one (swap: a first, then the other), no other list is touched — the order inside a MultiGrid cell is observable
            want = {c: list(l) for c, l in Bc.items()}
            movers = [a] + ([int(op[2])] if k == "swap" and int(op[2]) != a else [])
            movers = [m for m in movers if A["pos"][m] != B["pos"][m] or k in ("move", "mte", "mto")]
            if k == "mto" and not pairs(split_script(op)[0][5:]):
                movers = []
            for m in movers:
                if B["pos"][m] is not None and m in want[tuple(B["pos"][m])]:
                    want[tuple(B["pos"][m])].remove(m)
            for m in movers:
                if A["pos"][m] is not None and tuple(A["pos"][m]) in want:
                    want[tuple(A["pos"][m])].append(m)
            Ac = {tuple(map(int, kk.split(","))): list(v) for kk, v in A["cells"].items()}
            if Ac != want:
                diff = sorted(c for c in want if want[c] != Ac.get(c))
                bad.append(f"lists: {where}: cell list(s) {diff} are {[Ac.get(c) for c in diff]}, expected {[want[c] for c in diff]}")
        if k == "place" and pa is None and not ing((int(op[2]), int(op[3]))):
            # beyond the grid's index range (the aliasing band never gets here): IndexError, on a torus too; nothing changes
            if res != "err Index":
                bad.append(f"place-outside: {where}: placing outside the grid gave {res}, pos {A['pos'][a]}")
        elif k == "place" and pa is None:
            p = (int(op[2]), int(op[3]))
            occupied = bool(Bc[p])
            if not multi and occupied:
                if res != "err Full":
                    bad.append(f"single-two: {where}: placing on occupied cell {p} gave {res}")
            elif res != "ok" or A["pos"][a] != p:
                bad.append(f"place: {where}: gave {res}, pos is {A['pos'][a]}")
        elif k == "remove" and pa is not None:
            if res != "ok" or A["pos"][a] is not None:
                bad.append(f"remove: {where}: gave {res}, pos is {A['pos'][a]}")
        elif k == "move" and pa is not None:
            p = (int(op[2]), int(op[3]))
            if not ing(p) and not torus:
                if res != "err OutOfBounds":
                    bad.append(f"move-reject: {where}: target {p} outside a bounded grid gave {res}, pos {A['pos'][a]}")
            else:
                t = wrap(p)
                blocked = (not multi) and any(x != a for x in Bc[t])
                if blocked:
                    if res != "err Full":
                        bad.append(f"single-two: {where}: move onto occupied cell {t} gave {res}")
                elif res != "ok" or A["pos"][a] != t:
                    bad.append(f"move-wrap: {where}: target {p} should land on {t}; gave {res}, pos {A['pos'][a]}")
        elif k == "swap":
            c = int(op[2])
            pc = B["pos"][c]
            if pa is None or pc is None:
                if res != "err NoPos":
                    bad.append(f"swap: {where}: unplaced agent, gave {res}")
            elif res != "ok" or A["pos"][a] != pc or A["pos"][c] != pa:
                bad.append(f"swap: {where}: gave {res}, positions {A['pos'][a]}, {A['pos'][c]} (were {pa}, {pc})")
        elif k == "mte" and pa is not None:
            if not empties_now:
                if res != "err NoEmpty":
                    bad.append(f"mte-full: {where}: no empty cell, gave {res}")
            elif res == "ok":
                if A["pos"][a] not in empties_now:
                    bad.append(f"mte-empty: {where}: landed on {A['pos'][a]} which was not empty (empty cells: {empties_now})")
            elif res != "err Script":
                bad.append(f"mte-empty: {where}: empty cells exist but gave {res}")
        elif k == "mto" and pa is not None:
            head, _ = split_script(op)
            sel, he, n = head[2], head[3], int(head[4])
            ps = pairs(head[5:])
            if res == "ok" and ps and sel in ("random", "closest"):
                np_ = A["pos"][a]
                offered = [wrap(q) if (torus or ing(q)) else None for q in ps]
                if np_ not in offered:
                    bad.append(f"mto-offered: {where}: landed on {np_}, offered cells are {offered}")
                elif sel == "closest":
                    best = min(tdist(q, pa) for q in ps)
                    if tdist(np_, pa) != best:
                        bad.append(f"mto-closest: {where}: landed on {np_} at squared distance {tdist(np_, pa)} from {pa}; "
                                   f"an offered cell is at {best}")
            elif res == "ok" and not ps:
                if he == "error" or A["pos"][a] != pa:
                    bad.append(f"mto-empty-list: {where}: empty list gave {res}, pos {A['pos'][a]}")
            elif res == "err OutOfBounds":
                if torus or all(ing(q) for q in ps):
                    bad.append(f"mto-reject: {where}: gave {res} although every offered cell is on the grid")
            elif res == "err Full":
                if multi or not any((torus or ing(q)) and any(x != a for x in Bc[wrap(q)]) for q in ps):
                    bad.append(f"mto-reject: {where}: gave {res} although no offered cell is occupied")
    return bad


def hex_neighbours_axial(c):
    """the six hexagons touching hexagon c of the odd-q style layout mesa uses (columns are straight;
    odd columns are shifted half a cell towards smaller y), computed through axial coordinates"""
    x, y = c
    q, r = x, y - (x + (x & 1)) // 2  # offset -> axial
    res = []
    for dq, dr in ((1, 0), (-1, 0), (0, 1), (0, -1), (1, -1), (-1, 1)):
        q2, r2 = q + dq, r + dr
        res.append((q2, r2 + (q2 + (q2 & 1)) // 2))  # axial -> offset
    return res


def hex_ball(w, h, torus, pos, r):
    seen = {pos}
    frontier = [pos]
    for _ in range(r):
        nxt = []
        for c in frontier:
            for n in hex_neighbours_axial(c):
                if torus:
                    n = (n[0] % w, n[1] % h)
                elif not (0 <= n[0] < w and 0 <= n[1] < h):
                    continue
                if n not in seen:
                    seen.add(n)
                    nxt.append(n)
        frontier = nxt
    return seen


def orth_ball(w, h, torus, pos, moore, r):
    res = set()
    for x in range(w):
        for y in range(h):
            dx, dy = abs(x - pos[0]), abs(y - pos[1])
            if torus:
                dx, dy = min(dx, w - dx), min(dy, h - dy)
            if (max(dx, dy) if moore else dx + dy) <= r:
                res.add((x, y))
    return res


def oracle_c09(sc, obs):
    H = _hdr(sc)
    if sc.meta.get("oq"):
        return []
    tr = sc.meta.get("trace") or []
    bad = []
    if H["type"] == "net":
        n = H["n"]
        adj = {v: set() for v in range(n)}
        for a, c in H["edges"]:
            adj[a].add(c)
            adj[c].add(a)
        for i, e in enumerate(tr):
            op, res, B = e["op"], e["res"], trace_before(tr, i)
            where = f"line {i + 1} ({' '.join(op)})"
            if op[0] in ("nnbhd", "nnbrs") and int(op[1]) >= n:
                continue  # a node that is not in the graph: outside the quantifier, tie only
            if op[0] in ("nnbhd", "nnbrs") and not res.startswith("ok"):
                bad.append(f"net-raise: {where}: gave {res}")
            elif op[0] in ("nnbhd", "nnbrs") and res.startswith("ok"):
                v, ic, r = int(op[1]), op[2] == "1", int(op[3])
                dist = {v: 0}
                fr = [v]
                for d in range(1, r + 1):
                    nx = []
                    for u in fr:
                        for t in adj[u]:
                            if t not in dist:
                                dist[t] = d
                                nx.append(t)
                    fr = nx
                want = set(dist)
                if not ic:
                    want.discard(v)
                if op[0] == "nnbhd":
                    if len(set(e["val"])) != len(e["val"]):
                        bad.append(f"net-dup: {where}: {e['val']}")
                    if set(e["val"]) != want:
                        bad.append(f"net-exact: {where}: got {sorted(e['val'])}, nodes within {r} hops are {sorted(want)}")
                else:
                    wa = sorted(a for u in want for a in B["cells"][str(u)])
                    if sorted(e["val"]) != wa:
                        bad.append(f"net-neighbors: {where}: got {sorted(e['val'])}, agents on those nodes are {wa}")
            elif op[0] == "nclc" and res.startswith("ok") and all(u < n for u in map(int, op[2:])):
                wa = [a for u in map(int, op[2:]) for a in B["cells"][str(u)]]
                if e["val"] != wa:
                    bad.append(f"net-clc: {where}: got {e['val']}, agents on those nodes are {wa}")
        return bad
    w, h, torus = H["w"], H["h"], H["torus"]
    order = [(x, y) for x in range(w) for y in range(h)]
    ing = lambda p: 0 <= p[0] < w and 0 <= p[1] < h  # noqa: E731
    for i, e in enumerate(tr):
        op, res, B = e["op"], e["res"], trace_before(tr, i)
        k = op[0]
        where = f"line {i + 1} ({' '.join(op)})"
        if k in ("nbhd", "inbhd", "nbrs", "inbrs", "nmask"):
            if H["hex"]:
                continue  # get_neighborhood_mask inherited by a hex class: TypeError by construction (tie only)
            pos, moore, ic, r = (int(op[1]), int(op[2])), op[3] == "1", op[4] == "1", int(op[5])
            if not ing(pos):
                if res != "err OutOfBounds":
                    bad.append(f"nbhd-oob: {where}: centre outside the grid gave {res}")
                continue
            if not res.startswith("ok"):
                bad.append(f"nbhd-raise: {where}: gave {res}")
                continue
            want = orth_ball(w, h, torus, pos, moore, r)
            if not ic:
                want.discard(pos)
        elif k in ("hnbhd", "ihnbhd", "hnbrs", "ihnbrs"):
            pos, ic, r = (int(op[1]), int(op[2])), op[3] == "1", int(op[4])
            if not ing(pos):
                continue  # outside the quantifier: tie only
            if not res.startswith("ok"):
                bad.append(f"nbhd-raise: {where}: gave {res}")
                continue
            want = hex_ball(w, h, torus, pos, r)
            if not ic:
                want.discard(pos)
        elif k in ("clc", "iclc"):
            if all(ing(c) for c in pairs(op[2:])):  # in-grid coordinates: the property's clause; others: tie only
                wa = [a for c in pairs(op[2:]) for a in B["cells"][ck(c)]]
                if not res.startswith("ok") or e["val"] != wa:
                    bad.append(f"clc: {where}: gave {res}, agents in those cells are {wa}")
            continue
        else:
            continue
        if k in ("nbhd", "inbhd", "hnbhd", "ihnbhd"):
            v = e["val"]
            if len(set(v)) != len(v):
                bad.append(f"nbhd-dup: {where}: duplicates in {v}")
            if set(v) != want:
                bad.append(f"nbhd-exact: {where}: got {sorted(v)}, cells in range are {sorted(want)}")
        elif k == "nmask":
            got = {c for c, bit in zip(order, e["val"]) if bit}
            if got != want:
                bad.append(f"nbhd-mask: {where}: mask covers {sorted(got)}, cells in range are {sorted(want)}")
        else:
            wa = sorted(a for c in want for a in B["cells"][ck(c)])
            if sorted(e["val"]) != wa:
                bad.append(f"neighbors-exact: {where}: got {sorted(e['val'])}, agents in range are {wa}")
    return bad


# --------------------------------------------------------------------------------------
# generated model part: the hex offset tables


def _hex_tables_ast(src):
    """the two `adjacent = [...]` list literals of _HexGrid.get_neighborhood, evaluated at (0, 0), in source order"""
    tree = ast.parse(src)
    for cls in ast.walk(tree):
        if isinstance(cls, ast.ClassDef) and cls.name == "_HexGrid":
            for fn in cls.body:
                if isinstance(fn, ast.FunctionDef) and fn.name == "get_neighborhood":
                    for node in ast.walk(fn):
                        if (isinstance(node, ast.If) and isinstance(node.test, ast.Compare)
                                and ast.unparse(node.test).replace(" ", "") == "x%2==0"):
                            def lit(body):
                                for st in body:
                                    if (isinstance(st, ast.Assign) and len(st.targets) == 1 and isinstance(st.targets[0], ast.Name)
                                            and st.targets[0].id == "adjacent" and isinstance(st.value, ast.List)):
                                        val = eval(compile(ast.Expression(st.value), "<hex>", "eval"), {"__builtins__": {}}, {"x": 0, "y": 0})  # noqa: S307
                                        return [(int(a), int(b)) for a, b in val]
                                return None
                            ev, od = lit(node.body), lit(node.orelse)
                            if ev and od:
                                return ev, od
    return None


def _hex_tables_probe():
    _, space = _mesa()
    g = space.HexSingleGrid(9, 9, False)
    ev = [(x - 4, y - 4) for x, y in g.get_neighborhood((4, 4), False, 1)]
    od = [(x - 5, y - 4) for x, y in g.get_neighborhood((5, 4), False, 1)]
    return ev, od


GRID_PARAMS = ["pos", "moore", "include_center", "radius"]
HEX_PARAMS = ["pos", "include_center", "radius"]


def _cache_keys_ast(src):
    """{"_Grid": (params, key names), "_HexGrid": …}: the parameters (without self) of the two get_neighborhood functions and the
    names in the tuple that indexes self._neighborhood_cache when the result is stored (a name is resolved through its assignment)"""
    out = {}
    for cls in ast.parse(src).body:
        if isinstance(cls, ast.ClassDef) and cls.name in ("_Grid", "_HexGrid"):
            for fn in cls.body:
                if isinstance(fn, ast.FunctionDef) and fn.name == "get_neighborhood":
                    params = [a.arg for a in fn.args.args[1:]]
                    assigns, key = {}, None
                    for node in ast.walk(fn):
                        if isinstance(node, ast.Assign) and len(node.targets) == 1:
                            t = node.targets[0]
                            if isinstance(t, ast.Name):
                                assigns.setdefault(t.id, node.value)
                            elif isinstance(t, ast.Subscript) and ast.unparse(t.value) == "self._neighborhood_cache":
                                key = t.slice
                    if isinstance(key, ast.Name):
                        key = assigns.get(key.id)
                    if isinstance(key, ast.Tuple) and all(isinstance(e, ast.Name) for e in key.elts):
                        out[cls.name] = (params, [e.id for e in key.elts])
    return out


def _cache_keys_probe():
    """which arguments the cache distinguishes, by behaviour: two calls that differ in one argument only must leave two entries"""
    _, space = _mesa()
    res = {}
    for name, cls, base, other in (
            ("_Grid", space.SingleGrid, {"pos": (3, 3), "moore": True, "include_center": False, "radius": 1},
             {"pos": (2, 3), "moore": False, "include_center": True, "radius": 2}),
            ("_HexGrid", space.HexSingleGrid, {"pos": (3, 3), "include_center": False, "radius": 1},
             {"pos": (2, 3), "include_center": True, "radius": 2})):
        seen = []
        for k in base:
            g = cls(8, 8, False)
            g.get_neighborhood(**base)
            n = len(g._neighborhood_cache)
            g.get_neighborhood(**{**base, k: other[k]})
            if len(g._neighborhood_cache) == n + 1:
                seen.append(k)
        res[name] = (list(base), seen)
    return res


def _truth_probe():
    """do the readers take a falsy agent (an object whose class defines __bool__) for an empty cell?  By behaviour, on the four
    classes: (the content readers, grid.agents)"""
    import warnings
    mesa, space = _mesa()
    contents = agents = False
    allc = [(x, y) for x in range(3) for y in range(3)]
    for name in ("SingleGrid", "MultiGrid", "HexSingleGrid", "HexMultiGrid"):
        with warnings.catch_warnings():
            warnings.simplefilter("ignore")
            m = mesa.Model()
            g = getattr(space, name)(3, 3, False)
            a, b = truth_classes()["b"](m), mesa.Agent(m)
            a.alive = False
            g.place_agent(a, (1, 1))
            g.place_agent(b, (1, 2))
            kw = {"include_center": True, "radius": 1} if name.startswith("Hex") else {"moore": True, "include_center": True, "radius": 1}
            readers = [lambda: g.get_cell_list_contents(allc), lambda: list(g.iter_cell_list_contents(allc)),
                       lambda: g.get_neighbors((1, 2), **kw), lambda: list(g.iter_neighbors((1, 2), **kw))]
            for r in readers:
                try:
                    got = r()
                    if any(x is b for x in got) and not any(x is a for x in got):
                        contents = True
                except Exception:  # noqa: BLE001  (a reader that raises is the tie's business)
                    pass
            try:
                got = list(g.agents)
                if any(x is b for x in got) and not any(x is a for x in got):
                    agents = True
            except Exception:  # noqa: BLE001
                pass
    return contents, agents


def gen_tables():
    _, space = _mesa()
    src = open(space.__file__).read()
    probe = _cache_keys_probe()
    truth_contents, truth_agents = _truth_probe()
    try:
        keys = _cache_keys_ast(src)
    except Exception:  # noqa: BLE001
        keys = {}
    key_how = {}
    for c in ("_Grid", "_HexGrid"):
        if c in keys and set(keys[c][1]) == set(probe[c][1]):
            key_how[c] = "ast (parameter list and the tuple that indexes self._neighborhood_cache), cross-checked by probing the cache"
        else:
            keys[c] = probe[c]
            key_how[c] = "probe (two calls differing in one argument leave two cache entries)"
    pev, pod = _hex_tables_probe()
    how = "probe (radius-1 neighbourhoods of an even and an odd interior column of a HexSingleGrid; sorted)"
    ev, od = pev, pod
    try:
        t = _hex_tables_ast(open(space.__file__).read())
    except Exception:  # noqa: BLE001
        t = None
    if t and sorted(t[0]) == sorted(pev) and sorted(t[1]) == sorted(pod):
        ev, od = t
        how = "ast (the two `adjacent` list literals of `_HexGrid.get_neighborhood`, evaluated at (0, 0)), cross-checked by probing a HexSingleGrid"
    f = lambda l: "[" + ", ".join(f"({a}, {b})" for a, b in l) + "]"  # noqa: E731
    fs = lambda l: "[" + ", ".join('"' + x + '"' for x in l) + "]"  # noqa: E731
    content = f"""/-! GENERATED by harness/legacy_common.py:gen_tables() from mesa/space.py — do not edit.
source: {how} -/
namespace Mesa.Legacy.Gen

/-- offsets of the six neighbours of a hexagon in an even column (`x % 2 == 0`), in source order -/
def hexEven : List (Int × Int) := {f(ev)}

/-- offsets of the six neighbours of a hexagon in an odd column, in source order -/
def hexOdd : List (Int × Int) := {f(od)}

/-- parameters of `_Grid.get_neighborhood` (without `self`) — source: {key_how["_Grid"]} -/
def nbhdParams : List String := {fs(keys["_Grid"][0])}

/-- the arguments that make up the key of `_neighborhood_cache` in `_Grid.get_neighborhood` -/
def nbhdCacheKey : List String := {fs(keys["_Grid"][1])}

/-- parameters of `_HexGrid.get_neighborhood` — source: {key_how["_HexGrid"]} -/
def hexParams : List String := {fs(keys["_HexGrid"][0])}

/-- the arguments that make up the cache key in `_HexGrid.get_neighborhood` -/
def hexCacheKey : List String := {fs(keys["_HexGrid"][1])}

/-- do `iter_neighbors` / `get_neighbors` / `iter_cell_list_contents` / `get_cell_list_contents` take an agent whose truth value is
    False for an empty cell (`if cell` instead of `!= default_val()`)?  source: probe (a falsy agent next to a plain one on a 3x3
    grid of each of the four classes) -/
def contentsReadTruth : Bool := {"true" if truth_contents else "false"}

/-- does `grid.agents` leave out an agent whose truth value is False (`if not entry` instead of `is None`)?  source: same probe -/
def agentsReadTruth : Bool := {"true" if truth_agents else "false"}

end Mesa.Legacy.Gen
"""
    return {"MesaModel/Gen/LegacyTables.lean": content}


def guarded(oracle):
    """an oracle must not crash on whatever a changed implementation returns: an observation the clauses cannot even evaluate
    (a pos that is no cell of the space, a value of the wrong shape) is reported as a failed clause"""

    def run(sc, obs):
        try:
            return oracle(sc, obs)
        except Exception as e:  # noqa: BLE001
            return [f"unevaluable: the observations are outside what the property's clauses can be evaluated on ({type(e).__name__}: {e})"]

    return run


def tier_from_argv():
    import sys

    a = sys.argv
    if "--tier" in a and a.index("--tier") + 1 < len(a):
        return a[a.index("--tier") + 1]
    for x in a:
        if x.startswith("--tier="):
            return x.split("=", 1)[1]
    return os.environ.get("VERIF_TIER", "quick")
