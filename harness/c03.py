"""C03 — AgentSet behaves as an ordered set and its queries match list semantics.

Scenario kind `aset` of lean/Driver/Agents.lean (protocol in its header): a population of agents with int attributes
x (always), y (sometimes), z (only after `setattr`), classes T0 <- T1 <- T2 and T3, and the AgentSets
made so far.  Every op prints its result and a dump of all sets and all attributes, so the copying
form is checked for not touching its source and the in-place form for equalling the copy.
"""
from __future__ import annotations

import weakref
from fractions import Fraction

from . import core
from .scripted_random import scripted_model

PROP = "C03"
DRIVER = "drv_agents"
LEAN_MODULES = ["MesaModel.Props.C03", "MesaModel.Props.C18Agents"]
THEOREMS = ["Mesa.ASet." + t for t in (
    "C03_select_is_filter_take", "C03_select_limit_bounds", "C03_sort_perm_ordered_stable", "C03_shuffle_is_permutation",
    "C03_groupby_partitions_in_order", "C03_constructor_is_ordered_set", "C03_add_discard_remove",
    "C03_len_iter_contains_getitem_agree", "C03_no_duplicates_all_histories",
    "C03_inplace_equals_copy_and_copy_preserves", "C03_get_set_agg_map_list_semantics",
    "C03_set_algebra_members_and_order", "C03_comparisons_are_subset_order", "C03_inplace_operators_match_copying",
    "C03_index_count_reversed_agree", "C03_operators_pop_clear_on_the_store", "C03_dead_member_leaves_every_set",
    "C03_select_every_parameter_combination", "C03_constructor_keeps_first_occurrences", "C03_set_writes_members_only",
    "C03_rebuilding_a_result_is_the_identity", "C03_set_then_get_reads_the_value",
    "C03_getitem_negative_indices_and_slices", "C03_agg_min_max_and_error_arms",
    "C03_map_by_name_is_the_agents_own_attribute",
    "C18_agents_remove_absent_reject_unchanged", "C18_agents_sort_missing_key_reject_unchanged",
    "C18_agents_groupby_missing_key_reject_unchanged", "C18_agents_pop_empty_reject_unchanged",
    "C18_agents_any_reject_unchanged", "C18_agents_reject_exactly_when")]
COUNTS = {"quick": 1200, "thorough": 150000}
TRUSTED = [
    "CPython dict / WeakKeyDictionary insertion order; sorted() is a stable sort and reverse=True keeps the order of equal keys (the model uses List.mergeSort)",
    "select(at_most=float): the count int(len*f) is computed on IEEE doubles; the driver recomputes it with Lean Float (same operations), the theorems take the count as a parameter",
    "CPython random.shuffle is built on _randbelow only (scripted generator, Base/Rng.lean follows it draw by draw)",
    "filter / key / map callables are the harness's small total functions; arbitrary Python callables are not modelled",
    "the operators and methods AgentSet inherits (| & - ^ and in-place forms, comparisons, isdisjoint, pop, clear, index, count, reversed) are CPython's collections.abc mixins over AgentSet's own __contains__/__iter__/__len__/add/discard/__getitem__/_from_iterable; the model follows _collections_abc.py of Python 3.12; a non-iterable operand (TypeError) is answered by the driver, not the model",
]
ASSUMPTIONS = ["members die only between operations (`kill`: removed from the model and dropped by the program); death in the middle of a call is C04's subject",
               "at_most is inf, a non-negative int, or a float in [0, 1]; IEEE ties of len*f just below an integer are excluded (DESIGN §2)"]
RULE = ("random op sequences on 0-9 agents (one class or mixed subclasses, tie-heavy attribute values, optional attribute y) and on every "
        "set derived so far: AgentSet(...) incl. duplicates, select (predicates x agent_type x at_most in inf/int/fraction x inplace), "
        "sort (attribute / callable / missing key, asc/desc, inplace), shuffle (scripted), groupby (agentset/list), get (one/many, "
        "error/default/bogus), set, agg, map, [], slices, add, discard, remove, in, len, and (1 op in 5) the inherited mixin methods: "
        "| & - ^ with a set / the set itself / a list, tuple or generator with duplicates / a non-iterable, reflected forms, |= &= -= ^=, "
        "<= < >= > == !=, isdisjoint, pop, clear, index with 0-2 bounds, count, reversed; now and then a member dies between two "
        "operations (weak references: it leaves every set); non-trivial = a set of >= 3 members went through "
        ">= 3 set-returning operations")

NAMES = ["x", "y", "z"]
HEADER_LINES = 1

_CL = None


class _Own:
    """a callable stored on an instance under the name `own<k>` (strategy pattern); it refers to its owner weakly - a strong
    reference back would be a cycle and the harness relies on refcounting deaths (`kill`)"""

    __slots__ = ("ref", "name")

    def __init__(self, agent, name):
        self.ref, self.name = weakref.ref(agent), name

    def __call__(self, d):
        return 3 * getattr(self.ref(), self.name) + d


def classes():
    global _CL
    if _CL is None:
        core.import_mesa()
        from mesa import Agent, Model
        from mesa.agent import AgentSet

        class T0(Agent):
            def __init__(self, model, x, y=None):
                super().__init__(model)
                self.x = x
                if y is not None:
                    self.y = y
                self.own0, self.own1, self.own2 = _Own(self, "x"), _Own(self, "y"), _Own(self, "z")

            def plus0(self, d):
                return self.x + d

            def plus1(self, d):
                return self.y + d

            def plus2(self, d):
                return self.z + d

            def base(d):  # (decorated below: a staticmethod)
                return 2 * d

            base = staticmethod(base)

            @classmethod
            def rank(cls, d):
                return classes()[1].index(cls) + d

            # decoys: every instance carries its own `own<k>` (see _Own), which is what `agent.own<k>` means
            def own0(self, d):
                return -999

            def own1(self, d):
                return -999

            def own2(self, d):
                return -999

        class T1(T0):
            pass

        class T2(T1):
            pass

        class T3(Agent):  # a sibling hierarchy: direct subclass of Agent
            def __init__(self, model, x, y=None):
                super().__init__(model)
                self.x = x
                if y is not None:
                    self.y = y
                self.own0, self.own1, self.own2 = _Own(self, "x"), _Own(self, "y"), _Own(self, "z")

            def plus0(self, d):
                return self.x + d

            def plus1(self, d):
                return self.y + d

            def plus2(self, d):
                return self.z + d

            def base(d):  # (decorated below: a staticmethod)
                return 2 * d

            base = staticmethod(base)

            @classmethod
            def rank(cls, d):
                return classes()[1].index(cls) + d

            # decoys: every instance carries its own `own<k>` (see _Own), which is what `agent.own<k>` means
            def own0(self, d):
                return -999

            def own1(self, d):
                return -999

            def own2(self, d):
                return -999

        _CL = (Model, [T0, T1, T2, T3], AgentSet)
    return _CL


def pred_fn(tok):
    w = tok.split(":")
    if w[0] == "-":
        return None
    if w[0] == "odd":
        return lambda a: a.unique_id % 2 == 1
    if w[0] == "has":
        n = NAMES[int(w[1])]
        return lambda a: hasattr(a, n)
    n, v = NAMES[int(w[1])], int(w[2])
    if w[0] == "lt":
        return lambda a: getattr(a, n, 0) < v
    if w[0] == "ge":
        return lambda a: getattr(a, n, 0) >= v
    if w[0] == "eq":
        return lambda a: getattr(a, n, 0) == v
    raise ValueError(tok)


class Impl:
    def __init__(self):
        self.Model, self.CLS, self.AgentSet = classes()
        self.model = None
        self.agents, self.sets, self.trace = [], [], []
        self.tys = []

    def need_model(self):
        if self.model is None:
            self.model = scripted_model(self.Model, [])
        return self.model

    def key_fn(self, tok):
        w = tok.split(":")
        CLS = self.CLS
        if w[0] == "attr":
            return NAMES[int(w[1])]
        if w[0] == "uid":
            return "unique_id"
        if w[0] == "mod":
            n, m = NAMES[int(w[1])], int(w[2])
            return lambda a: getattr(a, n) % m
        if w[0] == "neg":
            n = NAMES[int(w[1])]
            return lambda a: -getattr(a, n)
        if w[0] == "ty":
            return lambda a: CLS.index(type(a))
        raise ValueError(tok)

    def snap(self):
        """(member ids of every set, attributes of every agent, class of every agent); an agent that has died
        (`kill`) keeps its slot: attributes None, class as it was"""
        return ([[a.id for a in s] for s in self.sets],
                [tuple(getattr(a, n, None) for n in NAMES) if a is not None else (None,) * len(NAMES) for a in self.agents],
                list(self.tys))

    def dump(self):
        sets, attrs, _ = self.snap()
        ss = "|".join(f"S{k}=" + ",".join(map(str, s)) for k, s in enumerate(sets))
        ags = " ".join(f"{i}:dead" if self.agents[i] is None else f"{i}:" + "/".join("None" if v is None else str(v) for v in t)
                       for i, t in enumerate(attrs))
        return f"{ss} || {ags}"

    def ok(self, res):
        return f"ok {res} || {self.dump()}"

    def line(self, w):
        pre = self.snap()
        self.cur = {"line": " ".join(w), "pre": pre}
        try:
            out = self._line(w)
        except AttributeError:
            out = "err Attr"
        except KeyError:
            out = "err Key"
        except IndexError:
            out = "err Index"
        except ValueError:
            out = "err Value"
        except TypeError:
            out = "err Type"
        except (AssertionError, core.ScenarioTimeout):
            raise
        except Exception as e:  # noqa: BLE001
            out = "err Unexpected " + type(e).__name__
        self.cur["post"] = self.snap()
        self.cur["out"] = out
        self.trace.append(self.cur)
        return out

    def put(self, s, r, inplace):
        if inplace:
            self.cur["same_object"] = r is s
            k = next(i for i, t in enumerate(self.sets) if t is s)  # not .index(): Set.__eq__ compares contents
        else:
            self.cur["same_object"] = r is s
            self.sets.append(r)
            k = len(self.sets) - 1
        self.cur["result_set"] = k
        self.cur["random_carried"] = r.random is self.model.random
        return self.ok(f"set={k}")

    def _line(self, w):
        k = w[0]
        inf = float("inf")
        if k == "rng":
            script = [] if w[1] == "-" else [int(x) for x in w[1].split(",")]
            if self.model is None:
                self.model = scripted_model(self.Model, script)
            else:
                self.model.random.script, self.model.random.i = script, 0
            return "ok"
        if k == "agent":
            ty, x = int(w[1]), int(w[2])
            y = None if w[3] == "-" else int(w[3])
            a = self.CLS[ty](self.need_model(), x, y)
            a.id = len(self.agents)
            self.agents.append(a)
            self.tys.append(ty)
            return self.ok(f"id={a.id}")
        if k == "kill":
            i = int(w[1])
            if i >= len(self.agents) or self.agents[i] is None:
                return "bad-op"
            # removed from its model, and the program drops the only reference it holds: the agent dies (refcounting)
            self.agents[i].remove()
            self.agents[i] = None
            return self.ok("killed")
        if k == "mk":
            if any(int(i) >= len(self.agents) or self.agents[int(i)] is None for i in w[1:]):
                return "bad-op"  # only the shrinker produces dangling references; the driver says the same
            s = self.AgentSet([self.agents[int(i)] for i in w[1:]], random=self.need_model().random)
            self.sets.append(s)
            self.cur["result_set"] = len(self.sets) - 1
            return self.ok(f"set={len(self.sets) - 1}")
        if k in ("setop", "isetop", "cmp"):
            return self._mixin_binary(w)
        if int(w[1]) >= len(self.sets) or (k in ("add", "discard", "remove", "contains", "count", "index")
                                           and (int(w[2]) >= len(self.agents) or self.agents[int(w[2])] is None)):
            return "bad-op"
        s = self.sets[int(w[1])]
        if k == "disjoint":
            o = self.other(w[2])
            if o is None:
                return "bad-op"
            r = s.isdisjoint(o[1])
            self.cur["values"], self.cur["other"] = r, o[0]
            return self.ok(f"disjoint={1 if r else 0}")
        if k == "pop":
            r = s.pop()
            self.cur["values"] = r.id
            return self.ok(f"pop={r.id}")
        if k == "clear":
            r = s.clear()
            self.cur["values"] = r
            return self.ok("cleared")
        if k == "reversed":
            r = [a.id for a in reversed(s)]
            self.cur["values"] = r
            return self.ok("items=" + ",".join(map(str, r)))
        if k == "count":
            r = s.count(self.agents[int(w[2])])
            self.cur["values"] = r
            return self.ok(f"count={r}")
        if k == "index":
            r = s.index(self.agents[int(w[2])], *map(int, w[3:]))
            self.cur["values"] = r
            return self.ok(f"index={r}")
        if k == "select":
            f, inplace = pred_fn(w[2]), w[5] == "1"
            cls = None if w[3] == "-" else self.CLS[int(w[3])]
            am = w[4].split(":")
            kw = {}
            if f is not None:
                kw["filter_func"] = f
            if cls is not None:
                kw["agent_type"] = cls
            if am[0] == "n":
                kw["at_most"] = int(am[1])
            elif am[0] == "f":
                kw["at_most"] = int(am[1]) / int(am[2])
            elif len(w[2]) % 2:  # glue: inf passed explicitly or left to the default
                kw["at_most"] = inf
            if inplace:
                kw["inplace"] = True
            return self.put(s, s.select(**kw), inplace)
        if k == "sort":
            inplace = w[4] == "1"
            return self.put(s, s.sort(self.key_fn(w[2]), ascending=(w[3] == "asc"), inplace=inplace), inplace)
        if k == "shuffle":
            inplace = w[2] == "1"
            return self.put(s, s.shuffle(inplace=inplace), inplace)
        if k == "group":
            kind = "agentset" if w[3] == "sets" else "list"
            gb = s.groupby(self.key_fn(w[2]), result_type=kind)
            groups = [(kk, [a.id for a in g]) for kk, g in gb]
            self.cur["groups"] = groups
            self.cur["group_types_ok"] = all(isinstance(g, self.AgentSet if kind == "agentset" else list) for _, g in gb)
            cnt = gb.count()
            sm = gb.agg("x", sum)
            self.cur["counts"], self.cur["sums"], self.cur["glen"] = list(cnt.items()), list(sm.items()), len(gb)
            first = len(self.sets)
            if kind == "agentset":
                for _, g in gb:
                    self.sets.append(g)
            self.cur["first_new"] = first
            g = ";".join(f"{kk}:{'.'.join(map(str, l))}" for kk, l in groups)
            c = ";".join(f"{kk}:{v}" for kk, v in cnt.items())
            sms = ";".join(f"{kk}:{v}" for kk, v in sm.items())
            return self.ok(f"groups={g} counts={c} sums={sms} n={len(gb)}")
        if k == "get":
            kind, _, ks = w[2].partition(":")
            names = NAMES[int(ks)] if kind == "one" else [NAMES[int(i)] for i in ks.split(",")] if ks != "-" else []
            mode = w[3].split(":")
            if mode[0] == "error":
                r = s.get(names) if len(w[1]) % 2 else s.get(names, handle_missing="error")
            elif mode[0] == "default":
                r = s.get(names, handle_missing="default", default_value=None if mode[1] == "None" else int(mode[1]))
            else:
                r = s.get(names, handle_missing="ignore")
            self.cur["values"] = r
            f = lambda v: "None" if v is None else str(v)  # noqa: E731
            if kind == "one":
                return self.ok("vals=" + ",".join(f(v) for v in r))
            return self.ok("vals=" + ",".join("[" + "/".join(f(v) for v in row) + "]" for row in r))
        if k == "setattr":
            r = s.set(NAMES[int(w[2])], int(w[3]))
            self.cur["same_object"] = r is s
            return self.ok("set")
        if k == "agg":
            fn = {"sum": sum, "min": min, "max": max, "len": len}[w[3]]
            r = s.agg(NAMES[int(w[2])], fn)
            self.cur["values"] = r
            return self.ok(f"val={r}")
        if k == "map":
            f = w[2].split(":")
            if f[0] == "dbl":
                n = NAMES[int(f[1])]
                r = s.map(lambda a: getattr(a, n) * 2 + 1)
            elif f[0] == "plus":
                r = s.map(f"plus{int(f[1])}", int(f[2]))
            elif f[0] == "stat":
                r = s.map("base", int(f[1])) if int(f[1]) % 2 else s.map("base", d=int(f[1]))
            elif f[0] == "cls":
                r = s.map("rank", int(f[1])) if int(f[1]) % 2 else s.map("rank", d=int(f[1]))
            elif f[0] == "own":
                r = s.map(f"own{int(f[1])}", int(f[2]))
            else:
                r = s.map("nosuch")
            self.cur["values"] = r
            return self.ok("vals=" + ",".join(map(str, r)))
        if k == "item":
            r = s[int(w[2])]
            self.cur["values"] = r.id
            return self.ok(f"item={r.id}")
        if k == "slice":
            r = s[int(w[2]):int(w[3])]
            self.cur["values"] = [a.id for a in r]
            return self.ok("items=" + ",".join(str(a.id) for a in r))
        if k == "len":
            self.cur["values"] = len(s)
            return self.ok(f"len={len(s)}")
        a = self.agents[int(w[2])]
        if k == "add":
            s.add(a)
            return self.ok("added")
        if k == "discard":
            s.discard(a)
            return self.ok("discarded")
        if k == "remove":
            s.remove(a)
            return self.ok("removed")
        if k == "contains":
            r = a in s
            self.cur["values"] = r
            return self.ok(f"in={1 if r else 0}")
        raise ValueError(w)

    def other(self, tok):
        """right-hand operand: (ids, python object) or None for a dangling reference; glue: a plain iterable
        travels as a list, a tuple or a generator"""
        kind, _, rest = tok.partition(":")
        if kind == "x":
            return ([], 3)
        if kind == "s":
            if int(rest) >= len(self.sets):
                return None
            o = self.sets[int(rest)]
            return ([a.id for a in o], o)
        ids = [int(i) for i in rest.split(",")] if rest != "-" else []
        if any(i >= len(self.agents) or self.agents[i] is None for i in ids):
            return None
        objs = [self.agents[i] for i in ids]
        form = len(ids) % 3
        return (ids, objs if form == 0 else tuple(objs) if form == 1 else (a for a in objs))

    def _mixin_binary(self, w):
        """the operators AgentSet inherits from collections.abc.Set / MutableSet"""
        import operator as op

        k, which = w[0], w[1]
        if int(w[2]) >= len(self.sets):
            return "bad-op"
        s = self.sets[int(w[2])]
        if k == "cmp":
            if int(w[3]) >= len(self.sets):
                return "bad-op"
            t = self.sets[int(w[3])]
            r = {"le": op.le, "lt": op.lt, "ge": op.ge, "gt": op.gt, "eq": op.eq, "ne": op.ne}[which](s, t)
            assert r is True or r is False
            self.cur["values"] = r
            return self.ok(f"cmp={1 if r else 0}")
        o = self.other(w[3])
        if o is None or (which == "rsub" and (k == "isetop" or w[3][0] != "l")):
            return "bad-op"
        self.cur["other"] = o[0]
        try:
            if k == "setop":
                if which == "rsub":
                    r = o[1] - s if not hasattr(o[1], "__next__") else list(o[1]) - s
                else:
                    # glue: a plain-iterable operand on the left exercises the reflected methods (__ror__ = __or__, …)
                    f = {"or": op.or_, "and": op.and_, "sub": op.sub, "xor": op.xor}[which]
                    if which != "sub" and isinstance(o[1], list) and len(o[0]) % 2:
                        r = f(o[1], s)
                    else:
                        r = f(s, o[1])
                assert type(r) is self.AgentSet
                return self.put(s, r, False)
            f = {"or": op.ior, "and": op.iand, "sub": op.isub, "xor": op.ixor}[which]
            r = f(s, o[1])
            self.cur["same_object"] = r is s
            return self.ok("self")
        except TypeError:
            return "err Type"

    def close(self):
        core.import_mesa()
        from mesa import Agent

        if self.model is not None:
            Agent._ids.pop(self.model, None)


def run_impl(sc):
    assert sc.lines[0].split() == ["scenario", "aset"]
    impl = Impl()
    obs = ["ok"]
    try:
        for line in sc.lines[1:]:
            obs.append(impl.line(line.split()))
    finally:
        impl.close()
    sc.meta["trace"] = impl.trace
    return obs


# --------------------------------------------------------------------------------------------
# generator

FRACS = [(0, 1), (1, 1), (1, 2), (1, 3), (2, 3), (1, 4), (3, 4), (1, 10), (9, 10), (17, 50), (1, 7), (3, 5), (999, 1000)]


def gen_pred(R):
    k = R.random()
    if k < 0.3:
        return "-"
    if k < 0.5:
        return f"lt:0:{R.randrange(-1, 5)}"
    if k < 0.65:
        return f"ge:0:{R.randrange(-1, 5)}"
    if k < 0.75:
        return f"eq:{R.choice([0, 1, 2])}:{R.randrange(0, 4)}"
    if k < 0.88:
        return f"has:{R.choice([1, 1, 2])}"
    return "odd"


def gen_key(R, allow_missing=True):
    k = R.random()
    if k < 0.35:
        return "attr:0"
    if k < 0.5:
        return "mod:0:" + str(R.choice([2, 3]))
    if k < 0.6:
        return "neg:0"
    if k < 0.7:
        return "ty"
    if k < 0.8:
        return "uid"
    if allow_missing:
        return R.choice(["attr:1", "attr:1", "mod:1:2", "neg:1", "attr:2"])
    return "attr:0"


def gen_atmost(R):
    k = R.random()
    if k < 0.3:
        return "inf"
    if k < 0.6:
        return f"n:{R.choice([0, 1, 2, 3, 5, 9, 20])}"
    p, q = R.choice(FRACS)
    return f"f:{p}:{q}"


MIXIN_P = 0.2


def gen_other(R, s, nsets, living, p_self=0.15):
    k = R.random()
    if k < p_self:
        return f"s:{s}"  # the set itself (`a -= a` and `a ^= a` clear it)
    if k < 0.6 or not living:
        return f"s:{R.randrange(nsets)}"
    if k < 0.97:
        return "l:" + (",".join(str(R.choice(living)) for _ in range(R.randrange(0, 6))) or "-")  # duplicates welcome
    return "x"


def gen_mixin(R, s, nsets, living):
    """the methods inherited from collections.abc.Set / MutableSet / Sequence"""
    k = R.random()
    n = len(living)
    if not living:
        return f"{R.choice(['pop', 'clear', 'reversed'])} {s}" if R.random() < 0.5 else f"cmp {R.choice(['le', 'eq', 'lt'])} {s} {R.randrange(nsets)}"
    an = R.choice(living)
    if k < 0.34:
        op = R.choice(["or", "and", "sub", "xor", "and", "xor"])
        o = gen_other(R, s, nsets, living)
        if o.startswith("l:") and R.random() < 0.2:
            op = "rsub"
        return f"setop {op} {s} {o}"
    if k < 0.56:
        return f"isetop {R.choice(['or', 'and', 'sub', 'xor'])} {s} {gen_other(R, s, nsets, living, p_self=0.1)}"
    if k < 0.72:
        return f"cmp {R.choice(['le', 'lt', 'ge', 'gt', 'eq', 'ne', 'eq', 'le'])} {s} {R.randrange(nsets)}"
    if k < 0.77:
        return f"disjoint {s} {gen_other(R, s, nsets, living, p_self=0.05)}"
    if k < 0.85:
        return f"pop {s}"
    if k < 0.88:
        return f"clear {s}"
    if k < 0.92:
        return f"reversed {s}"
    if k < 0.94:
        return f"count {s} {an}"
    j = R.random()
    if j < 0.4:
        return f"index {s} {an}"
    if j < 0.7:
        return f"index {s} {an} {R.randrange(-n - 2, n + 2)}"
    return f"index {s} {an} {R.randrange(-n - 2, n + 2)} {R.randrange(-n - 2, n + 3)}"


def gen_scenario(R, rejecting=False):
    lines = ["scenario aset"]
    n = R.choice([0, 1, 2, 3, 5, 6, 8, 9])
    ns = R.choice([0, 4, 10, 10, 30])
    lines.append("rng " + (",".join(str(R.randrange(0, 40)) for _ in range(ns)) or "-"))
    one_class = R.random() < 0.3
    ty0 = R.randrange(4)
    xr = R.choice([2, 3, 3, 6])
    py = R.choice([0.0, 0.5, 0.8, 1.0])
    for _ in range(n):
        ty = ty0 if one_class else R.randrange(4)
        y = str(R.randrange(0, 3)) if R.random() < py else "-"
        lines.append(f"agent {ty} {R.randrange(0, xr)} {y}")
    ids = list(range(n))
    first = ids[:]
    if n and R.random() < 0.3:
        R.shuffle(first)
    if n and R.random() < 0.3:
        first += [R.randrange(n) for _ in range(R.randrange(1, 4))]  # duplicates: a set keeps the first occurrence
    lines.append("mk " + " ".join(map(str, first)))
    nsets = 1
    if R.random() < 0.4:
        lines.append("mk " + " ".join(str(R.randrange(n)) for _ in range(R.randrange(0, 5)) if n))
        nsets += 1
    living = list(range(n))
    for _ in range(R.randrange(5, 26)):
        s = R.randrange(nsets) if R.random() < 0.5 else nsets - 1 - R.randrange(min(nsets, 2))
        inpl = R.choice([0, 0, 1])
        inpl_sel = 1 if R.random() < 0.12 else 0  # in-place selections empty the sets quickly
        k = R.random()
        an = R.choice(living) if living else None
        if living and R.random() < 0.04:
            # a member dies between two operations: every set, original or derived, loses it
            lines.append(f"kill {an}")
            living.remove(an)
            continue
        if rejecting and R.random() < 0.35:
            # calls that raise: the following ops see whether anything was damaged
            opts = ["sort {s} attr:2 desc {i}", "sort {s} attr:1 asc {i}", "get {s} one:2 error", "get {s} one:0 bogus",
                    "agg {s} 0 min", "agg {s} 2 sum", "map {s} nosuch", "item {s} 40", "item {s} -40", "group {s} attr:2 sets",
                    "setop or {s} x", "isetop xor {s} x", "isetop and {s} x", "disjoint {s} x"]
            if an is not None:
                opts += ["remove {s} {a}", "remove {s} {a}", "index {s} {a} 30", "index {s} {a} 0 0"]
            if R.random() < 0.1:
                lines.append(f"clear {s}")
                opts = ["pop {s}"]
            lines.append(R.choice(opts).format(s=s, i=inpl, a=an))
            continue
        if R.random() < MIXIN_P:
            lines.append(gen_mixin(R, s, nsets, living))
            if lines[-1].startswith("setop"):
                nsets += 1
            continue
        if k < 0.22:
            ty = "-" if R.random() < 0.6 else str(R.randrange(4))
            lines.append(f"select {s} {gen_pred(R)} {ty} {gen_atmost(R)} {inpl_sel}")
            nsets += 1 - inpl_sel
        elif k < 0.36:
            key = gen_key(R)
            lines.append(f"sort {s} {key} {R.choice(['asc', 'desc', 'desc'])} {inpl}")
            nsets += 1 - inpl  # if the key is missing the harness/model raise and no set is made: fixed below
        elif k < 0.46:
            lines.append(f"shuffle {s} {inpl}")
            nsets += 1 - inpl
        elif k < 0.54:
            lines.append(f"group {s} {gen_key(R)} {R.choice(['sets', 'list'])}")
        elif k < 0.62:
            ks = R.choice(["one:0", "one:1", "one:2", "many:0,1", "many:1,0,2", "many:0", "many:-"])
            mode = R.choice(["error", "error", "default:None", "default:7", "bogus"])
            lines.append(f"get {s} {ks} {mode}")
        elif k < 0.68:
            lines.append(f"setattr {s} {R.choice([0, 1, 2, 2])} {R.randrange(0, 4)}")
        elif k < 0.74:
            lines.append(f"agg {s} {R.choice([0, 0, 1, 2])} {R.choice(['sum', 'min', 'max', 'len'])}")
        elif k < 0.80:
            lines.append(f"map {s} " + R.choice(["dbl:0", "dbl:1", "plus:0:3", "plus:1:-2", "plus:2:1", "nosuch", "stat:3", "stat:-2", "cls:1", "cls:4",
                                                "own:0:2", "own:1:-1", "own:2:5"]))
        elif k < 0.85:
            lines.append(f"item {s} {R.randrange(-n - 2, n + 2)}")
        elif k < 0.88:
            lines.append(f"slice {s} {R.randrange(-n - 1, n + 2)} {R.randrange(-n - 1, n + 2)}")
        elif k < 0.90:
            lines.append(f"len {s}")
        elif an is not None:
            lines.append(f"{R.choice(['add', 'add', 'discard', 'discard', 'remove', 'remove', 'contains'])} {s} {an}")
        else:
            lines.append(f"len {s}")
    return fix_set_indices(lines)


def fix_set_indices(lines):
    """set indices are positional: run the scenario once to learn how many sets exist at each line (a sort
    on a missing key or a `group … sets` changes the count) and clamp the references"""
    impl = Impl()
    out = [lines[0]]
    try:
        for l in lines[1:]:
            w = l.split()
            if w[0] not in ("rng", "agent", "mk", "kill"):
                ns = len(impl.sets)
                if ns == 0:
                    continue
                if w[0] in ("setop", "isetop", "cmp"):
                    w[2] = str(int(w[2]) % ns)
                    if w[0] == "cmp":
                        w[3] = str(int(w[3]) % ns)
                else:
                    w[1] = str(int(w[1]) % ns)
                if w[-1].startswith("s:"):
                    w[-1] = "s:" + str(int(w[-1][2:]) % ns)
            l = " ".join(w)
            impl.line(l.split())
            out.append(l)
    finally:
        impl.close()
    return core.Scenario(out, {})


def generate(rng, tier, count):
    for i in range(count):
        yield gen_scenario(rng, rejecting=(i % 5 == 4))


def generate_rejecting(rng, tier, count):
    """C18 material: scenarios rich in raising calls (missing sort key, remove of a non-member, bad index,
    bogus handle_missing, min of nothing) followed by valid ops"""
    for _ in range(count):
        yield gen_scenario(rng, rejecting=True)


# --------------------------------------------------------------------------------------------
# oracle: list semantics evaluated on the observed pre-state


def _pred(tok, attrs, tys, i):
    w = tok.split(":")
    x = lambda k: attrs[i][k] if attrs[i][k] is not None else 0  # noqa: E731
    if w[0] == "-":
        return True
    if w[0] == "odd":
        return (i + 1) % 2 == 1
    if w[0] == "has":
        return attrs[i][int(w[1])] is not None
    k, v = int(w[1]), int(w[2])
    return {"lt": x(k) < v, "ge": x(k) >= v, "eq": x(k) == v}[w[0]]


def _isinst(ty, c):
    return ty == c or (c == 0 and ty in (1, 2)) or (c == 1 and ty == 2)


def _key(tok, attrs, tys, i):
    w = tok.split(":")
    if w[0] == "ty":
        return tys[i]
    if w[0] == "uid":
        return i + 1
    v = attrs[i][int(w[1])]
    if v is None:
        return None
    return {"attr": v, "neg": -v, "mod": v % int(w[2]) if w[0] == "mod" else None}[w[0]]


# the only ways a call of this protocol may raise (everything else "never raises")
LEGITIMATE_ERRORS = {("sort", "Attr"), ("group", "Attr"), ("get", "Attr"), ("get", "Value"), ("agg", "Attr"), ("agg", "Value"),
                     ("map", "Attr"), ("item", "Index"), ("remove", "Key"), ("pop", "Key"), ("index", "Value"),
                     ("setop", "Type"), ("isetop", "Type"), ("disjoint", "Type")}


def oracle(sc, obs):
    try:
        return _oracle(sc, obs)
    except Exception as e:  # noqa: BLE001 - e.g. a result naming an agent that no longer exists
        return [f"unjudgeable: the observations cannot be read as list / ordered-set results at all ({type(e).__name__}: {e})"]


def _oracle(sc, obs):
    bad = []
    dead = set()
    for ev in sc.meta.get("trace") or []:
        w = ev["line"].split()
        k = w[0]
        (sets0, attrs0, tys), (sets1, attrs1, _), out = ev["pre"], ev["post"], ev["out"]
        if k == "kill" and out.startswith("ok"):
            dead.add(int(w[1]))
        zombies = sorted({i for t in sets1 for i in t if i in dead})
        if zombies:
            # (and nothing else can be judged by list semantics while a set lists an agent that no longer exists)
            bad.append(f"zombie: after `{ev['line']}` a set still lists agent(s) {zombies}, which died: {sets1}")
            continue
        for j, s in enumerate(sets1):
            if len(set(s)) != len(s):
                bad.append(f"nodup: set {j} lists a member twice after `{ev['line']}`: {s}")
        if out == "bad-op":
            continue
        if out.startswith("err"):
            if (sets0, attrs0) != (sets1, attrs1):
                bad.append(f"reject: `{ev['line']}` raised ({out}) and changed the state")
            err = out.split()[1]
            if k == "remove" and err == "Key" and int(w[2]) in sets0[int(w[1])]:
                bad.append(f"remove: `{ev['line']}` raised KeyError for a member")
            if err == "Unexpected":
                bad.append(f"crash: `{ev['line']}` raised {out}")
            if k == "pop" and sets0[int(w[1])]:
                bad.append(f"pop: `{ev['line']}` raised {err} on the non-empty set {sets0[int(w[1])]}")
            if k == "index" and err == "Value":
                try:
                    i = sets0[int(w[1])].index(int(w[2]), *map(int, w[3:]))
                    bad.append(f"index: `{ev['line']}` raised ValueError, list semantics give {i}")
                except ValueError:
                    pass
            if err == "Type" and not ev["line"].endswith(" x"):
                bad.append(f"crash: `{ev['line']}` raised TypeError")
            if err != "Unexpected" and (k, err) not in LEGITIMATE_ERRORS:
                bad.append(f"raised: `{ev['line']}` raised {err}; this call never raises in list / ordered-set semantics")
            continue
        if k in ("rng", "agent"):
            continue
        if k == "kill":
            a = int(w[1])
            if sets1 != [[i for i in t if i != a] for t in sets0]:
                bad.append(f"kill: after agent {a} died the sets are {sets1}, expected every set of {sets0} without it")
            if [t for i, t in enumerate(attrs1) if i != a] != [t for i, t in enumerate(attrs0) if i != a]:
                bad.append(f"kill: the death of agent {a} changed another agent's attributes")
            continue
        if k == "mk":
            ids = [int(x) for x in w[1:]]
            want = list(dict.fromkeys(ids))
            if sets1[ev["result_set"]] != want or sets1[:-1] != sets0:
                bad.append(f"mk: AgentSet({ids}) lists {sets1[ev['result_set']]}")
            continue
        s = int(w[2] if k in ("setop", "isetop", "cmp") else w[1])
        L = sets0[s]

        def check_put(want, what, exact=True, inplace=None):
            r = ev["result_set"]
            inplace = (w[-1] == "1") if inplace is None else inplace
            got = sets1[r]
            if exact and got != want:
                bad.append(f"{what}: `{ev['line']}` on {L} gave {got}, list semantics give {want}")
            if inplace:
                if r != s or not ev["same_object"]:
                    bad.append(f"{what}: in-place form did not return the set itself")
                if sets1[:s] + sets1[s + 1:] != sets0[:s] + sets0[s + 1:]:
                    bad.append(f"{what}: in-place `{ev['line']}` changed another set")
            else:
                if sets1[:-1] != sets0:
                    bad.append(f"{what}: copying `{ev['line']}` altered an existing set: {sets0} -> {sets1[:-1]}")
                if ev["same_object"]:
                    bad.append(f"{what}: copying form returned the original object")
            if not ev["random_carried"]:
                bad.append(f"{what}: result does not carry the set's generator")
            if attrs1 != attrs0:
                bad.append(f"{what}: `{ev['line']}` changed agent attributes")
            return got

        if k == "select":
            am = w[4].split(":")
            cand = [i for i in L if _pred(w[2], attrs0, tys, i) and (w[3] == "-" or _isinst(tys[i], int(w[3])))]
            if am[0] == "inf":
                want = cand
            elif am[0] == "n":
                want = cand[: int(am[1])]
            else:
                p, q = int(am[1]), int(am[2])
                exact = (Fraction(p, q) * len(L)).__floor__()
                if exact != int(len(L) * (p / q)):
                    continue  # IEEE tie just below an integer: outside the quantifier (DESIGN §2)
                want = cand[:exact]
            check_put(want, "select")
        elif k == "sort":
            got = check_put(None, "sort", exact=False)
            keys = {i: _key(w[2], attrs0, tys, i) for i in L}
            if sorted(got) != sorted(L):
                bad.append(f"sort: `{ev['line']}` on {L} lost or duplicated members: {got}")
                continue
            asc = w[3] == "asc"
            for a, b in zip(got, got[1:]):
                if (keys[a] > keys[b]) if asc else (keys[a] < keys[b]):
                    bad.append(f"sort: `{ev['line']}` result {got} is not ordered (keys {[keys[i] for i in got]})")
                    break
            for v in set(keys.values()):
                if [i for i in got if keys[i] == v] != [i for i in L if keys[i] == v]:
                    bad.append(f"sort: `{ev['line']}` is not stable: members with key {v} were {[i for i in L if keys[i] == v]}, now {[i for i in got if keys[i] == v]}")
                    break
        elif k == "shuffle":
            got = check_put(None, "shuffle", exact=False)
            if sorted(got) != sorted(L):
                bad.append(f"shuffle: `{ev['line']}` on {L} lost or duplicated members: {got}")
        elif k == "group":
            groups = ev["groups"]
            keys = {i: _key(w[2], attrs0, tys, i) for i in L}
            first = list(dict.fromkeys(keys[i] for i in L))
            if [kk for kk, _ in groups] != first:
                bad.append(f"groupby: group keys {[kk for kk, _ in groups]} are not in first-occurrence order {first}")
            for kk, g in groups:
                if g != [i for i in L if keys[i] == kk]:
                    bad.append(f"groupby: group {kk} is {g}, members with that key are {[i for i in L if keys[i] == kk]}")
            if sorted(i for _, g in groups for i in g) != sorted(L):
                bad.append(f"groupby: groups {groups} do not partition {L}")
            if ev["counts"] != [(kk, len(g)) for kk, g in groups] or ev["glen"] != len(groups):
                bad.append(f"groupby: count() = {ev['counts']} for groups {groups}")
            if ev["sums"] != [(kk, sum(attrs0[i][0] for i in g)) for kk, g in groups]:
                bad.append(f"groupby: agg('x', sum) = {ev['sums']} for groups {groups}")
            if not ev["group_types_ok"]:
                bad.append("groupby: result_type not honoured")
            if w[3] == "sets":
                if sets1[: ev["first_new"]] != sets0 or sets1[ev["first_new"]:] != [g for _, g in groups]:
                    bad.append("groupby: group AgentSets differ from the groups / source altered")
            elif sets1 != sets0:
                bad.append("groupby: altered a set")
        elif k == "get":
            kind, _, ks = w[2].partition(":")
            cols = [int(ks)] if kind == "one" else ([int(x) for x in ks.split(",")] if ks != "-" else [])
            mode = w[3].split(":")
            d = None if mode[0] != "default" or mode[1] == "None" else int(mode[1])
            rows = [[attrs0[i][c] if attrs0[i][c] is not None else d for c in cols] for i in L]
            want = [r[0] for r in rows] if kind == "one" else rows
            if ev["values"] != want:
                bad.append(f"get: `{ev['line']}` on {L} returned {ev['values']}, list semantics give {want}")
            if (sets0, attrs0) != (sets1, attrs1):
                bad.append("get: changed the state")
        elif k == "setattr":
            c, v = int(w[2]), int(w[3])
            want = [tuple(v if (j == c and i in L) else t[j] for j in range(3)) for i, t in enumerate(attrs0)]
            if attrs1 != want or sets1 != sets0 or not ev["same_object"]:
                bad.append(f"set: `{ev['line']}` on {L}: attributes {attrs1}, expected {want}")
        elif k == "agg":
            vals = [attrs0[i][int(w[2])] for i in L]
            want = {"sum": sum, "min": min, "max": max, "len": len}[w[3]](vals)
            if ev["values"] != want:
                bad.append(f"agg: `{ev['line']}` = {ev['values']}, {w[3]} of {vals} is {want}")
        elif k == "map":
            f = w[2].split(":")
            if f[0] == "nosuch":
                want = []
            elif f[0] == "dbl":
                want = [attrs0[i][int(f[1])] * 2 + 1 for i in L]
            elif f[0] == "stat":
                want = [2 * int(f[1]) for i in L]  # [a.base(d) for a in members]
            elif f[0] == "cls":
                want = [tys[i] + int(f[1]) for i in L]  # [a.rank(d) for a in members]
            elif f[0] == "own":
                want = [3 * attrs0[i][int(f[1])] + int(f[2]) for i in L]  # [a.own<k>(d) for a in members]
            else:
                want = [attrs0[i][int(f[1])] + int(f[2]) for i in L]
            if ev["values"] != want:
                bad.append(f"map: `{ev['line']}` on {L} returned {ev['values']}, list semantics give {want}")
        elif k == "item":
            if ev["values"] != L[int(w[2])]:
                bad.append(f"getitem: `{ev['line']}` = {ev['values']}, list(set)[{w[2]}] = {L[int(w[2])]}")
        elif k == "slice":
            if ev["values"] != L[int(w[2]):int(w[3])]:
                bad.append(f"getitem: `{ev['line']}` = {ev['values']}, list semantics give {L[int(w[2]):int(w[3])]}")
        elif k == "len":
            if ev["values"] != len(L):
                bad.append(f"len: {ev['values']} for members {L}")
        elif k == "contains":
            if ev["values"] != (int(w[2]) in L):
                bad.append(f"contains: `{ev['line']}` = {ev['values']} for members {L}")
        elif k in ("add", "discard", "remove"):
            a = int(w[2])
            want = (L if a in L else L + [a]) if k == "add" else [i for i in L if i != a]
            if k == "remove" and a not in L:
                bad.append(f"remove: `{ev['line']}` of a non-member did not raise")
            if sets1[s] != want or sets1[:s] + sets1[s + 1:] != sets0[:s] + sets0[s + 1:] or attrs1 != attrs0:
                bad.append(f"{k}: `{ev['line']}` on {L} gave {sets1[s]}, ordered-set semantics give {want}")
        elif k in ("setop", "isetop"):
            which, M = w[1], ev["other"]
            Md = list(dict.fromkeys(M))
            l_only = [i for i in L if i not in M]
            m_only = [i for i in Md if i not in L]
            want = {"or": [L + m_only], "sub": [l_only], "xor": [l_only + m_only], "rsub": [m_only],
                    # the property fixes the members of an intersection, not whose order it takes
                    "and": [[i for i in Md if i in L], [i for i in L if i in M]]}[which]
            if k == "setop":
                got = check_put(None, "setop", exact=False, inplace=False)
                if got not in want:
                    bad.append(f"setop: `{ev['line']}` on {L} and {M} gave {got}, ordered-set semantics give {want[0]}")
            else:
                if sets1[s] not in want:
                    bad.append(f"isetop: `{ev['line']}` on {L} and {M} left {sets1[s]}, ordered-set semantics give {want[-1]}")
                if not ev["same_object"]:
                    bad.append(f"isetop: `{ev['line']}` did not return the set itself")
                if sets1[:s] + sets1[s + 1:] != sets0[:s] + sets0[s + 1:] or attrs1 != attrs0:
                    bad.append(f"isetop: `{ev['line']}` changed another set or an attribute")
        elif k == "cmp":
            A, B = set(L), set(sets0[int(w[3])])
            want = {"le": A <= B, "lt": A < B, "ge": A >= B, "gt": A > B, "eq": A == B, "ne": A != B}[w[1]]
            if ev["values"] != want:
                bad.append(f"cmp: `{ev['line']}` = {ev['values']} for members {L} and {sets0[int(w[3])]}")
        elif k == "disjoint":
            if ev["values"] != (not (set(L) & set(ev["other"]))):
                bad.append(f"isdisjoint: `{ev['line']}` = {ev['values']} for members {L} and {ev['other']}")
        elif k == "pop":
            if not L:
                bad.append(f"pop: `{ev['line']}` on an empty set did not raise")
            elif ev["values"] != L[0] or sets1[s] != L[1:] or sets1[:s] + sets1[s + 1:] != sets0[:s] + sets0[s + 1:]:
                bad.append(f"pop: `{ev['line']}` on {L} returned {ev['values']} and left {sets1[s]}; the first member goes")
        elif k == "clear":
            if sets1[s] != [] or sets1[:s] + sets1[s + 1:] != sets0[:s] + sets0[s + 1:] or attrs1 != attrs0:
                bad.append(f"clear: `{ev['line']}` on {L} left {sets1[s]}")
        elif k == "reversed":
            if ev["values"] != L[::-1]:
                bad.append(f"reversed: `{ev['line']}` on {L} gave {ev['values']}")
        elif k == "count":
            if ev["values"] != L.count(int(w[2])):
                bad.append(f"count: `{ev['line']}` = {ev['values']} for members {L}")
        elif k == "index":
            try:
                want = L.index(int(w[2]), *map(int, w[3:]))
            except ValueError:
                want = "ValueError"
            if ev["values"] != want:
                bad.append(f"index: `{ev['line']}` = {ev['values']}, list semantics give {want} for {L}")
        if k in ("item", "slice", "len", "contains", "agg", "map", "cmp", "disjoint", "reversed", "count", "index") and (sets0, attrs0) != (sets1, attrs1):
            bad.append(f"{k}: a query changed the state")
    return bad


def nontrivial(sc, obs):
    n = 0
    for ev in sc.meta.get("trace") or []:
        w = ev["line"].split()
        if w[0] in ("select", "sort", "shuffle", "group") and ev["out"].startswith("ok") and len(ev["pre"][0][int(w[1])]) >= 3:
            n += 1
        if w[0] in ("setop", "isetop") and ev["out"].startswith("ok") and len(ev["pre"][0][int(w[2])]) >= 3:
            n += 1
    return n >= 3


def tags(sc, obs):
    for ev in sc.meta.get("trace") or []:
        w = ev["line"].split()
        yield "op:" + w[0]
        if ev["out"] == "bad-op":
            continue
        if ev["out"].startswith("err"):
            yield "reject:" + w[0] + ":" + ev["out"].split()[1]
            continue
        if w[0] == "select":
            yield "at_most:" + w[4].split(":")[0]
            yield "select:" + ("inplace" if w[5] == "1" else "copy")
            # the combination of parameters (C03_select_every_parameter_combination)
            yield ("select-combo:" + ("filter" if w[2] != "-" else "nofilter") + "+" + ("type" if w[3] != "-" else "notype")
                   + "+" + w[4].split(":")[0] + "+" + ("inplace" if w[5] == "1" else "copy"))
            if w[3] != "-":
                yield "select:agent_type"
            if len(ev["pre"][0][int(w[1])]) == 0:
                yield "select:empty-set"
        if w[0] == "sort":
            L = ev["pre"][0][int(w[1])]
            keys = [_key(w[2], ev["pre"][1], ev["pre"][2], i) for i in L]
            if len(set(keys)) < len(keys):
                yield "sort:ties"
            yield "sort:" + w[3]
        if w[0] in ("select", "sort", "shuffle") and int(w[1]) > 0:
            yield "on-derived-set"
        if w[0] in ("setop", "isetop"):
            yield f"{w[0]}:{w[1]}:" + ("self" if w[3] == "s:" + w[2] else "set" if w[3][0] == "s" else "iterable")
        if w[0] == "cmp":
            yield f"cmp:{w[1]}:{ev.get('values')}"


if __name__ == "__main__":
    import sys
    core.main(sys.modules[__name__])
