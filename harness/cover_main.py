"""python -m harness.cover_main Cxx [core args]  — one check in-process (VERIF_JOBS=1), for `coverage run` (tools/tie_coverage.sh)"""
import importlib
import sys

from . import core

if __name__ == "__main__":
    core.main(importlib.import_module("harness." + sys.argv[1].lower()), sys.argv[2:])
