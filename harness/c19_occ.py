"""C19, cell-space half at identity level — deepcopy / pickle of a cell space together with its agents
(lean/MesaModel/Model/CopyOcc.lean, drv_copyocc).

The harness names every object by the identity the Lean model gives it (the pair space/model, then its k cells in the
order of `space.all_cells`; one identity per agent; `old + next` for every object reconstructed by a copy: cells by zipping
`all_cells` of original and copy, agents by zipping the two models' registries) and reports identity-level reads: `agent.cell`
as a cell name (`?` for an object that is not a cell of any known space — the ghost cell of defect S22), `cell.agents` as agent
names, the targets of `cell.connections` as cell names.  The spaces are real mesa spaces (OrthogonalMooreGrid,
OrthogonalVonNeumannGrid in 1-3 axes, HexGrid, Network) with `CellAgent`s; the connection relation sent to the model is computed
by the generator from the geometry on its own, so that the `look` lines also compare mesa's wiring with it.

Oracle clauses (evaluated on the implementation's observations, no model involved):
  space-faithful  right after `copy s`: the copy shows, cell by cell and agent by agent, the original's coordinates, capacities,
                  unique_ids, occupancy, pointers and connections with every name shifted to the copy's objects; nothing shared
  space-closure   in every read of a space: every pointer names an object of that same space (connection targets and
                  `agent.cell` are cells of it, listed agents are registered in its model), the mirror holds (an agent is
                  listed exactly once, by the cell it points to, and by no other), capacities are respected
  space-empty     the `empty` property layer of a grid shows exactly the cells that list no agent (S21: it stopped tracking)
  space-generator the space, its model, its cell collection and every cell use one generator object, the space's own (a copy:
                  its own copy of it, in the same state)
  space-class     all cells of a grid have one dynamically created class, the grid's own (a copy: a new one; S21: one per cell);
                  network cells have the plain class
  space-collection the space's cached cell collection (`all_cells`, the source of `space.agents`) lists exactly the agents the cells list
  space-detached  an operation addressed to another family (a space and what was created in it / one copy), or a rejected
                  operation, never changes what a space shows
"""
from __future__ import annotations

import copy
import itertools
import pickle

from . import core

DRIVER = "drv_copyocc"
HEADER = "scenario occ"


# ----------------------------------------------------------------------------------------
# geometry, computed independently of mesa (the generator sends it to the model)

MOORE_2D = [(-1, -1), (-1, 0), (-1, 1), (0, -1), (0, 1), (1, -1), (1, 0), (1, 1)]
VN_2D = [(-1, 0), (0, -1), (0, 1), (1, 0)]
HEX_ODD_COL = [(-1, -1), (0, -1), (-1, 0), (1, 0), (-1, 1), (0, 1)]   # used when coordinate[1] is odd
HEX_EVEN_COL = [(0, -1), (1, -1), (-1, 0), (1, 0), (0, 1), (1, 1)]


def parse_spec(spec):
    """spec -> (kind, dims | edges, torus)"""
    p = spec.split(":")
    if p[0] == "net":
        edges = [] if p[1] == "-" else [tuple(int(x) for x in e.split("-")) for e in p[1].split(",")]
        return "net", edges, False
    return p[0], tuple(int(x) for x in p[1].split("x")), p[2] == "t"


def coords_of(spec, k):
    kind, dims, _ = parse_spec(spec)
    if kind == "net":
        return list(range(k))
    return list(itertools.product(*(range(d) for d in dims)))


def pairs_of(spec, k):
    """[(i, j)] in the order of each cell's connections dict"""
    kind, dims, torus = parse_spec(spec)
    if kind == "net":
        adj = {i: [] for i in range(k)}
        for u, v in dims:
            if v not in adj[u]:
                adj[u].append(v)
            if u not in adj[v]:
                adj[v].append(u)
        return [(i, j) for i in range(k) for j in adj[i]]
    coords = coords_of(spec, k)
    index = {c: i for i, c in enumerate(coords)}
    n = len(dims)
    out = []
    for i, c in enumerate(coords):
        if kind == "hex":
            offs = HEX_ODD_COL if c[1] % 2 else HEX_EVEN_COL
        elif kind == "moore":
            offs = MOORE_2D if n == 2 else [o for o in itertools.product([-1, 0, 1], repeat=n) if any(o)]
        else:
            offs = VN_2D if n == 2 else [tuple(d if a == ax else 0 for a in range(n)) for ax in range(n) for d in (-1, 1)]
        for o in offs:
            t = tuple(x + d for x, d in zip(c, o))
            if torus:
                t = tuple(x % d for x, d in zip(t, dims))
            if all(0 <= x < d for x, d in zip(t, dims)):
                out.append((i, index[t]))
    return out


# ----------------------------------------------------------------------------------------
# implementation side


class OccImpl:
    def __init__(self):
        core.import_mesa()
        import mesa.discrete_space as ds
        from mesa import Model

        self.ds, self.Model = ds, Model
        self.next = 0
        self.spaces = {}   # identity -> (space, model, coordinates in enumeration order)
        self.cells = {}    # identity -> cell
        self.agents = {}   # identity -> agent (the program forgets a removed agent)
        self.owner = {}    # identity of a cell / agent -> identity of its space
        self.name = {}     # id(object) -> identity (the objects are kept alive by the dicts above / by mesa)
        self.keep = []     # removed agents: kept alive so that their id() is never reused

    def build(self, k, cap, spec):
        kind, dims, torus = parse_spec(spec)
        model = self.Model(seed=0)
        if kind == "net":
            import networkx as nx

            g = nx.Graph()
            g.add_nodes_from(range(k))
            for u, v in dims:
                g.add_edge(u, v)
            return self.ds.Network(g, capacity=cap, random=model.random), model
        klass = {"moore": self.ds.OrthogonalMooreGrid, "vn": self.ds.OrthogonalVonNeumannGrid, "hex": self.ds.HexGrid}[kind]
        return klass(dims, torus=torus, capacity=cap, random=model.random), model

    def cname(self, obj):
        return "-" if obj is None else str(self.name.get(id(obj), "?"))

    def line(self, ws):
        k = ws[0]
        if k == "space":
            n, cap, spec = int(ws[1]), (None if ws[2] == "-" else int(ws[2])), ws[3]
            space, model = self.build(n, cap, spec)
            cells = list(space.all_cells)
            if len(cells) != n:
                return f"err Cells {len(cells)}"
            s = self.next
            self.spaces[s] = (space, model, coords_of(spec, n))
            self.name[id(space.random)] = s     # the generator and (grids) the dynamic cell class belong to the pair space/model
            if type(cells[0]) is not self.ds.Cell:
                self.name[id(type(cells[0]))] = s
            for i, c in enumerate(cells):
                self.cells[s + 1 + i] = c
                self.owner[s + 1 + i] = s
                self.name[id(c)] = s + 1 + i
            self.next = s + 1 + n
            return f"ok {s}"
        if k == "agent":
            sp = self.spaces.get(int(ws[1]))
            if sp is None:
                return "err NoSpace"
            a = self.ds.CellAgent(sp[1])
            name = self.next
            self.next += 1
            self.agents[name] = a
            self.owner[name] = int(ws[1])
            self.name[id(a)] = name
            return f"ok {name} {a.unique_id}"
        if k == "set":
            a = self.agents.get(int(ws[1]))
            if a is None:
                return "err NoAgent"
            c = self.cells.get(int(ws[2]))
            if c is None:
                return "err NoCell"
            if self.owner[int(ws[2])] != self.owner[int(ws[1])]:
                return "err Foreign"   # the program keeps the agents of a model in that model's space
            try:
                a.cell = c
            except Exception as e:  # noqa: BLE001  mesa raises a bare Exception for a full cell
                if type(e) is Exception and "full" in str(e).lower():
                    return "err Full"
                raise
            return "ok"
        if k in ("unset", "remove"):
            a = self.agents.get(int(ws[1]))
            if a is None:
                return "err NoAgent"
            if k == "unset":
                a.cell = None
            else:
                a.remove()
                self.keep.append(self.agents.pop(int(ws[1])))
            return "ok"
        if k == "copy":
            sp = self.spaces.get(int(ws[1]))
            if sp is None:
                return "err NoSpace"
            return self.copy(int(ws[1]), sp, ws[2])
        if k == "look":
            sp = self.spaces.get(int(ws[1]))
            if sp is None:
                return "err NoSpace"
            return self.look(sp)
        return "bad-op"

    def copy(self, s, sp, how):
        space, model, coords = sp
        B = self.next
        pair = (space, model)
        space2, model2 = copy.deepcopy(pair) if how == "deepcopy" else pickle.loads(pickle.dumps(pair))
        problems = []
        if space2 is space:
            problems.append("space-shared")
        if model2 is model:
            problems.append("model-shared")
        olds, news = list(space.all_cells), list(space2.all_cells)
        if len(olds) != len(news):
            problems.append("cells-length")
        for c, c2 in zip(olds, news):
            if c is c2 or id(c2) in self.name:
                problems.append("cell-shared")
                continue
            n = self.name.get(id(c))
            if n is not None:
                self.cells[n + B] = c2
                self.owner[n + B] = s + B
                self.name[id(c2)] = n + B
        for c2 in news:
            k2 = type(c2)
            if k2 is self.ds.Cell:
                continue
            if id(k2) not in self.name:
                if (s + B) in self.name.values():
                    continue                      # a second new class in one copy: stays unnamed ('?')
                self.name[id(k2)] = s + B
            elif self.name[id(k2)] != s + B:
                problems.append("class-shared")
        olda, newa = list(model._agents), list(model2._agents)
        if len(olda) != len(newa):
            problems.append("agents-length")
        for a, a2 in zip(olda, newa):
            if a is a2 or id(a2) in self.name:
                problems.append("agent-shared")
                continue
            n = self.name.get(id(a))
            if n is not None:
                self.agents[n + B] = a2
                self.owner[n + B] = s + B
                self.name[id(a2)] = n + B
        if space2.random is space.random or id(space2.random) in self.name:
            problems.append("generator-shared")
        else:
            self.name[id(space2.random)] = s + B
            if space2.random.getstate() != space.random.getstate():
                problems.append("generator-state")
        self.spaces[s + B] = (space2, model2, coords)
        self.next = B + B
        return f"ok {s + B} " + ("fresh" if not problems else "shared:" + ",".join(sorted(set(problems))))

    def look(self, sp):
        space, model, coords = sp
        cells = list(space.all_cells)
        parts = []
        for c in cells:
            idx = coords.index(c.coordinate) if c.coordinate in coords else "?"
            cap = "-" if c.capacity is None else int(c.capacity)
            listed = ".".join(self.cname(a) for a in c.agents)
            conns = ".".join(self.cname(t) for t in c.connections.values())
            one = c.random is space.random and space.random is model.random and space.all_cells.random is space.random
            gen = self.cname(c.random) if one or c.random is None else "?"
            klass = "-" if type(c) is self.ds.Cell else self.cname(type(c))
            parts.append(f"{self.cname(c)}:{idx}:{cap}:{listed}:{conns}:{gen}:{klass}")
        ags = [f"{self.cname(a)}:{a.unique_id}:{self.cname(a.cell)}" for a in model._agents]
        if hasattr(space, "_mesa_property_layers"):
            data = space._mesa_property_layers["empty"].data
            empt = [self.cname(c) for c in cells if bool(data[c.coordinate])]
        else:
            empt = [self.cname(c) for c in cells if c.is_empty]
        through = [self.cname(a) for a in space.all_cells.agents]   # the cached collection {cell: cell._agents}
        return "ok " + " ".join(parts) + " | " + " ".join(ags) + " | " + " ".join(empt) + " | " + " ".join(through)


def run_impl(sc):
    impl = OccImpl()
    obs = ["ok"]
    for l in sc.lines[1:]:
        try:
            obs.append(impl.line(l.split()))
        except Exception as e:  # noqa: BLE001  an operation that cannot be carried out on a copy is a property failure
            obs.append(f"err Crash {type(e).__name__}")
    return obs


# ----------------------------------------------------------------------------------------
# oracle


def parse_look(o):
    """-> (cells [(name, idx, cap, listed, conns, generator, class)], agents [(name, uid, cell)], empties [name]), names as strings"""
    body = o[3:] if o.startswith("ok ") else ""
    p = body.split(" | ") if body else ["", "", ""]
    p = (p + ["", "", ""])[:3]
    cells = []
    for t in p[0].split():
        f = t.split(":")
        cells.append((f[0], f[1], f[2], [x for x in f[3].split(".") if x], [x for x in f[4].split(".") if x], f[5], f[6]))
    agents = [tuple(t.split(":")) for t in p[1].split()]
    return cells, agents, p[2].split()


def look_problems(o, space=None, grid=True):
    """the closure / mirror / capacity / empty-layer / generator clauses on one read"""
    bad = []
    cells, agents, empt = parse_look(o)
    if "?" in o:
        bad.append(("space-closure", "an object that is not a known cell / agent is referenced"))
    cnames = [c[0] for c in cells]
    anames = [a[0] for a in agents]
    if len(set(cnames)) != len(cnames) or len(set(anames)) != len(anames):
        bad.append(("space-closure", "an object is listed twice by the space / the model"))
    for c, _idx, cap, listed, conns, gen, klass in cells:
        if space is not None and gen != str(space):
            bad.append(("space-generator", f"cell {c} uses generator {gen}; the space, its model and all its cells use the space's own one "
                        f"({space}) ('-': none, '?': another object)"))
        if space is not None and klass != (str(space) if grid else "-"):
            bad.append(("space-class", f"cell {c} has class {klass}; all cells of a grid have the grid's own dynamic class ({space}), "
                        "network cells the plain Cell class ('-')"))
        for t in conns:
            if t not in cnames:
                bad.append(("space-closure", f"cell {c} is connected to {t}, which is not a cell of this space"))
        for a in listed:
            if a not in anames:
                bad.append(("space-closure", f"cell {c} lists agent {a}, which is not registered in this space's model"))
            elif listed.count(a) != 1:
                bad.append(("space-closure", f"cell {c} lists agent {a} {listed.count(a)} times"))
        if cap != "-" and len(listed) > int(cap):   # capacity 0 is a capacity (repair SC3)
            bad.append(("space-closure", f"cell {c} holds {len(listed)} agents, capacity {cap}"))
    at = {a: [c[0] for c in cells if a in c[3]] for a in anames}
    for a, _uid, c in agents:
        want = [] if c == "-" else [c]
        if c != "-" and c not in cnames:
            bad.append(("space-closure", f"agent {a} points to {c}, which is not a cell of this space"))
        elif at[a] != want:
            bad.append(("space-closure", f"agent {a} points to {c} and is listed by {at[a]}"))
    through = (o[3:].split(" | ") + [""] * 4)[3].split() if o.startswith("ok ") else []
    if through != [a for c in cells for a in c[3]]:
        bad.append(("space-collection", f"space.all_cells.agents lists {through}, the cells list {[a for c in cells for a in c[3]]}"))
    if sorted(empt) != sorted(c[0] for c in cells if not c[3]):
        bad.append(("space-empty", f"the empty layer shows {empt}, the cells without agents are {[c[0] for c in cells if not c[3]]}"))
    return bad


def shift_look(o, B):
    cells, agents, empt = parse_look(o)

    def sh(x):
        return str(int(x) + B) if x.isdigit() else x

    return ([(sh(c), i, cap, [sh(a) for a in l], [sh(t) for t in cn], sh(g), sh(k)) for c, i, cap, l, cn, g, k in cells],
            [(sh(a), u, sh(c)) for a, u, c in agents], [sh(e) for e in empt])


def oracle(sc, obs):
    bad = []
    fam = {}            # identity -> family
    nfam = 0
    last = {}           # space -> last look
    since = {}          # space -> list of (families touched | None for a rejected op) since its last look
    is_grid = {}        # space -> it is a Grid (one dynamic cell class) rather than a Network
    for i, (l, o) in enumerate(zip(sc.lines, obs)):
        ws = l.split()
        k = ws[0]
        if k == "scenario":
            continue
        if o.startswith("err Crash"):
            bad.append(f"space-unusable: `{l}` raised {o.split()[-1]} (a copy must behave like a freshly built space)")
            continue
        if k == "look":
            s = int(ws[1])
            if not o.startswith("ok"):
                continue
            for clause, msg in look_problems(o, s, is_grid.get(s, True)):
                bad.append(f"{clause}: `{l}` (line {i}): {msg}")
            if s in last and last[s] != o and all(f is None or f != fam.get(s) for f in since.get(s, [])):
                bad.append(f"space-detached: space {s} showed {last[s]!r} and, after operations on other objects / rejected "
                           f"operations only, {o!r} (line {i})")
            last[s] = o
            since[s] = []
            continue
        touched = []
        if k == "space" and o.startswith("ok"):
            s = int(o.split()[1])
            for x in range(s, s + 1 + int(ws[1])):
                fam[x] = nfam
            nfam += 1
            is_grid[s] = not ws[3].startswith("net")
        elif k == "agent":
            if o.startswith("ok"):
                fam[int(o.split()[1])] = fam.get(int(ws[1]))
                touched = [fam.get(int(ws[1]))]
        elif k in ("set", "unset", "remove"):
            touched = [fam.get(int(x)) for x in ws[1:]] if o == "ok" else [None]
        elif k == "copy" and o.startswith("ok"):
            s, s2 = int(ws[1]), int(o.split()[1])
            B = s2 - s
            is_grid[s2] = is_grid.get(s, True)
            for x in [x for x, f in fam.items() if f == fam.get(s)]:
                fam[x + B] = nfam
            nfam += 1
            if not o.endswith(" fresh"):
                bad.append(f"space-faithful: `{l}`: the copy shares or loses objects ({o.split()[-1]})")
            r1 = next((obs[j] for j in range(i + 1, min(i + 4, len(obs))) if sc.lines[j] == f"look {s}"), None)
            r2 = next((obs[j] for j in range(i + 1, min(i + 4, len(obs))) if sc.lines[j] == f"look {s2}"), None)
            if r1 and r2 and r1.startswith("ok") and r2.startswith("ok") and shift_look(r1, B) != parse_look(r2):
                bad.append(f"space-faithful: after `{l}` the copy shows {r2!r}, the original {r1!r} (names must differ by {B})")
        if o.startswith("err"):
            touched = [None]
        for s in since:
            since[s].extend(touched)
    return bad


# ----------------------------------------------------------------------------------------
# generator


def gen_spec(R):
    j = R.random()
    if j < 0.3:
        k = R.randint(1, 6)
        edges = [(R.randrange(k), R.randrange(k)) for _ in range(R.randint(0, 7))]
        return k, "net:" + (",".join(f"{u}-{v}" for u, v in edges) if edges else "-")
    torus = "t" if R.random() < 0.5 else "f"
    if j < 0.45:
        dims = (R.randint(1, 3), R.randint(1, 3))
        kind = "hex"
    else:
        kind = R.choice(["moore", "vn"])
        n = R.choice([1, 2, 2, 2, 3])
        dims = tuple(R.randint(1, 4 if n == 1 else (3 if n == 2 else 2)) for _ in range(n))
    k = 1
    for d in dims:
        k *= d
    return k, f"{kind}:{'x'.join(map(str, dims))}:{torus}"


def generate_one(R, tier):
    lines = [HEADER]
    nxt = 0
    sides = []   # {"s": space, "cells": [...], "agents": [...]}  (agents: believed alive; a removed one may stay to be named again)

    def looks():
        for sd in sides[-4:]:
            lines.append(f"look {sd['s']}")

    def new_space():
        nonlocal nxt
        k, spec = gen_spec(R)
        cap = R.choice(["-", "-", "1", "1", "2", "3", "0"])
        lines.append(f"space {k} {cap} {spec} " + " ".join(f"{i}>{j}" for i, j in pairs_of(spec, k)))
        sides.append({"s": nxt, "cells": list(range(nxt + 1, nxt + 1 + k)), "agents": []})
        nxt += 1 + k

    def new_agent(sd):
        nonlocal nxt
        lines.append(f"agent {sd['s']}")
        sd["agents"].append(nxt)
        nxt += 1

    def some_op(sd):
        j = R.random()
        ags, cells = sd["agents"], sd["cells"]
        if j < 0.50 and ags:
            a = R.choice(ags)
            t = R.random()
            if t < 0.07 and len(sides) > 1:
                c = R.choice(R.choice([x for x in sides if x is not sd])["cells"])      # a cell of another space
            elif t < 0.11:
                c = R.choice([sd["s"], nxt + R.randrange(3), a])                          # not a cell at all
            else:
                c = R.choice(cells)
            lines.append(f"set {a} {c}")
            if R.random() < 0.25:
                looks()
                lines.append(f"set {a} {c}")    # re-entering the current cell (or a second refusal)
        elif j < 0.62 and ags:
            lines.append(f"unset {R.choice(ags)}")
        elif j < 0.74 and ags:
            a = R.choice(ags)
            lines.append(f"remove {a}")
            if R.random() < 0.75:
                ags.remove(a)
        elif j < 0.78:
            ghost = R.choice([sd["s"], nxt + 1] + cells[:1])    # not an agent
            what = R.choice(["set", "unset", "remove"])
            lines.append(f"set {ghost} {R.choice(cells)}" if what == "set" else f"{what} {ghost}")
        elif j < 0.80:
            lines.append(f"agent {R.choice(cells + [nxt + 2])}")     # not a space
        else:
            new_agent(sd)
        looks()

    new_space()
    if R.random() < 0.3:
        new_space()
    for sd in sides:
        for _ in range(R.randint(1, 5)):
            new_agent(sd)
        for a in sd["agents"]:
            if R.random() < 0.8:
                lines.append(f"set {a} {R.choice(sd['cells'])}")
    looks()
    for _ in range(R.randint(0, 5)):
        some_op(R.choice(sides))

    n_copies = 1 if R.random() < 0.75 else 2
    for _ in range(n_copies):
        src = R.choice(sides)
        B = nxt
        lines.append(f"copy {src['s']} {R.choice(['deepcopy', 'pickle'])}")
        lines.append(f"look {src['s']}")
        lines.append(f"look {src['s'] + B}")
        sides.append({"s": src["s"] + B, "cells": [c + B for c in src["cells"]], "agents": [a + B for a in src["agents"]]})
        nxt = B + B
        if R.random() < 0.05:
            lines.append(f"copy {nxt + 2} pickle")   # no such space
        for _ in range(R.randint(3, 10) if tier == "quick" else R.randint(3, 16)):
            some_op(R.choice(sides[-3:]) if R.random() < 0.85 else R.choice(sides))
    looks()
    return core.Scenario(lines, {"part": "occ"})


def tags(sc, obs):
    yield "part:occ"
    copied = False
    cell_of = {}
    copies = set()
    for l, o in zip(sc.lines, obs):
        ws = l.split()
        k = ws[0]
        if k == "space":
            yield "occ:space:" + ws[3].split(":")[0] + (":cap" if ws[2] not in ("-", "0") else ":nocap")
            continue
        if k in ("look", "scenario"):
            continue
        if k == "copy":
            copied = copied or o.startswith("ok")
            if o.startswith("ok"):
                B = int(o.split()[1]) - int(ws[1])
                if int(ws[1]) in copies:
                    yield "occ:copy:of-a-copy"
                copies.add(int(o.split()[1]))
                for a, c in list(cell_of.items()):
                    if a < B:
                        cell_of[a + B] = None if c is None else c + B
                yield "occ:copy:" + ws[2] + ":ok"
            else:
                yield "occ:copy:" + ws[2] + ":" + o.split()[1]
            continue
        pre = "occ:" + ("post:" if copied else "pre:")
        if o.startswith("err"):
            yield pre + k + ":" + o.split()[1]
            continue
        if k == "agent":
            cell_of[int(o.split()[1])] = None
            yield pre + "agent" + (":uid1-again" if copied and o.split()[2] == "1" else "")
        elif k == "set":
            a, c = int(ws[1]), int(ws[2])
            old = cell_of.get(a)
            yield pre + "set:" + ("place" if old is None else ("reenter" if old == c else "move"))
            cell_of[a] = c
        elif k == "unset":
            yield pre + "unset:" + ("unplaced" if cell_of.get(int(ws[1])) is None else "placed")
            cell_of[int(ws[1])] = None
        elif k == "remove":
            yield pre + "remove:" + ("unplaced" if cell_of.get(int(ws[1])) is None else "placed")
            cell_of.pop(int(ws[1]), None)


def nontrivial(sc, obs):
    """a copy of a space that holds at least one placed agent, followed by at least two accepted state-changing operations"""
    i = next((k for k, l in enumerate(sc.lines) if l.startswith("copy ") and obs[k].startswith("ok")), None)
    if i is None or i + 2 >= len(obs):
        return False
    _, agents, _ = parse_look(obs[i + 2]) if obs[i + 2].startswith("ok") else ([], [], [])
    placed = any(a[2] != "-" for a in agents)
    changing = sum(1 for l, o in zip(sc.lines[i + 1:], obs[i + 1:]) if o.startswith("ok") and l.split()[0] in
                   ("set", "unset", "remove", "agent"))
    return placed and changing >= 2
