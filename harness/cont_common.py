"""Implementation runner, generators and property oracle shared by C10 / C18-cont.

Protocol: see lean/Driver/Cont.lean.  Every coordinate / radius on the wire is an int in units
of 1/64, every squared distance an int in units of 1/4096.  The implementation is driven with
the corresponding binary64 values (exact), its answers are converted back exactly:
a distance `d` the code returns is `sqrt` (correctly rounded) of an exactly computed sum of
squares `N/4096`; the observation is that `N` (recovered by squaring and confirmed by
`sqrt(N)/64 == d`; anything else is reported as `inexact:<hex>` and disagrees with the model).
"""
from __future__ import annotations

import math

from . import core

U = 64


def _mesa():
    core.import_mesa()
    import numpy as np
    from mesa import Agent, Model
    from mesa.experimental.continuous_space import ContinuousSpace as ESpace
    from mesa.experimental.continuous_space import ContinuousSpaceAgent
    from mesa.space import ContinuousSpace as LSpace

    return np, Model, Agent, LSpace, ESpace, ContinuousSpaceAgent


# ----------------------------------------------------------------------------------------
# exact conversions


def to_units(v):
    f = float(v) * U
    if not math.isfinite(f):
        return "inexact:" + repr(float(v))
    i = int(round(f))
    return str(i) if f == i else "inexact:" + float(v).hex()


def sq_units(d):
    d = float(d)
    if not math.isfinite(d) or abs(d) > 2.0**40:
        return "inexact:" + repr(d)
    n = int(round((d * U) ** 2))
    for c in (n, n - 1, n + 1):
        if c >= 0 and math.sqrt(c) / U == d:
            return str(c)
    return "inexact:" + d.hex()


def err_of(e, op):
    """small enum of exception kinds; anything unexpected propagates (harness crash -> disagreement)"""
    if isinstance(e, KeyError):
        return "err Key"
    if isinstance(e, IndexError):
        return "err Index"
    if isinstance(e, TypeError):
        return "err Type"
    if isinstance(e, AttributeError):
        return "err Attr"
    if isinstance(e, ValueError):
        if op in ("set", "iadd") and "outside the bounds" in str(e):
            return "err OutOfBounds"
        return "err Value"
    if type(e) is Exception:
        if "out of bounds" in str(e):
            return "err OutOfBounds"
        if "does not exist" in str(e):
            return "err NotInSpace"
    raise e


def knn_canon(all_d2, res):
    """res: [(aid, d2)] -> (tie, [(d2, aid|None)]): agents at the largest returned distance are
    anonymous if an agent at that same distance was left out"""
    if not res:
        return False, []
    m = max(d for _, d in res)
    tie = sum(1 for _, d in res if d == m) < sum(1 for d in all_d2 if d == m)
    return tie, [(d, None if (tie and d == m) else a) for a, d in res]


def fmt_knn(can):
    can = sorted(can, key=lambda x: (x[0], 0 if x[1] is None else x[1] + 1))
    return ",".join(f"{d}:{'*' if a is None else a}" for d, a in can)


# ----------------------------------------------------------------------------------------
# implementation side


class LegacyImpl:
    def __init__(self, w):
        np, Model, Agent, LSpace, _, _ = _mesa()
        self.np, self.Agent = np, Agent
        torus, xmin, xmax, ymin, ymax = map(int, w[1:])
        self.ints, self.arr = w[0] == "i", w[0] == "a"
        self.model = Model(seed=0)
        self.space = LSpace(self.c(xmax), self.c(ymax), bool(torus), self.c(xmin), self.c(ymin))
        self.agents, self.ids = {}, {}

    def c(self, x):
        x = int(x)
        if self.ints and x % U == 0:
            return x // U
        return x / U

    def pt(self, x, y):
        if self.arr:
            return self.np.array([int(x) / U, int(y) / U])
        return (self.c(x), self.c(y))

    def agent(self, a):
        a = int(a)
        if a not in self.agents:
            ag = self.Agent(self.model)
            self.agents[a] = ag
            self.ids[ag] = a
        return self.agents[a]

    def line(self, w):
        k = w[0]
        sp = self.space
        try:
            if k == "place":
                sp.place_agent(self.agent(w[1]), self.pt(w[2], w[3]))
                return "ok"
            if k == "move":
                sp.move_agent(self.agent(w[1]), self.pt(w[2], w[3]))
                return "ok"
            if k == "remove":
                sp.remove_agent(self.agent(w[1]))
                return "ok"
            if k == "setpos":
                self.agent(w[1]).pos = self.pt(w[2], w[3])  # the user, not the space
                return "ok"
            if k == "pos":
                p = self.agent(w[1]).pos
                return "ok pos=None" if p is None else "ok pos=" + ",".join(to_units(v) for v in p)
            if k == "agents":
                return "ok agents=" + ",".join(map(str, sorted(self.ids[a] for a in sp.agents)))
            if k == "nbrs":
                res = sp.get_neighbors(self.pt(w[1], w[2]), self.c(w[3]), include_center=bool(int(w[4])))
                return "ok nbrs=" + ",".join(map(str, sorted(self.ids[a] for a in res)))
            if k == "dist":
                return "ok d2=" + sq_units(sp.get_distance(self.pt(w[1], w[2]), self.pt(w[3], w[4])))
            if k == "heading":
                h = sp.get_heading(self.pt(w[1], w[2]), self.pt(w[3], w[4]))
                return "ok h=" + ",".join(to_units(v) for v in h)
            if k == "oob":
                return "ok %d" % bool(sp.out_of_bounds(self.pt(w[1], w[2])))
            if k == "adj":
                return "ok pos=" + ",".join(to_units(v) for v in sp.torus_adj(self.pt(w[1], w[2])))
        except Exception as e:  # noqa: BLE001
            return err_of(e, k)
        raise ValueError(w)


class ExpImpl:
    def __init__(self, w):
        np, Model, _, _, ESpace, CAgent = _mesa()
        self.np, self.CAgent = np, CAgent
        torus, cap = int(w[1]), int(w[2])
        b = list(map(int, w[3:]))
        self.nd = len(b) // 2
        self.lists = w[0] == "l"
        self.model = Model(seed=0)
        dims = [[b[2 * i] / U, b[2 * i + 1] / U] for i in range(self.nd)]
        self.space = ESpace(dims, torus=bool(torus), random=self.model.random, n_agents=cap)
        self.agents, self.ids = {}, {}
        self.held = {}  # references to space.agent_positions the "user" keeps

    def pt(self, xs):
        v = [int(x) / U for x in xs]
        return v if self.lists else self.np.array(v)

    def pairs(self, agents, dists):
        return [(self.ids[a], self.d2(d)) for a, d in zip(agents, dists, strict=True)]

    @staticmethod
    def d2(d):
        v = sq_units(d)
        return int(v) if v.isdigit() else v

    @staticmethod
    def fmt_pairs(ps, sort=True):
        return ",".join(f"{a}:{d}" for a, d in (sorted(ps) if sort else ps))

    def split(self, rest):
        if ":" in rest:
            i = rest.index(":")
            return rest[:i], [self.agents[int(a)] for a in rest[i + 1:]]
        return rest, None

    def line(self, w):
        k = w[0]
        sp, nd = self.space, self.nd
        try:
            if k == "new":
                a = int(w[1])
                if a in self.agents:
                    return "bad-op"
                ag = self.CAgent(sp, self.model)
                self.agents[a] = ag
                self.ids[ag] = a
                return "ok"
            if k == "set":
                self.agents[int(w[1])].position = self.pt(w[2:])
                return "ok"
            if k == "iadd":
                ag = self.agents[int(w[1])]
                ag.position += self.pt(w[2:])
                return "ok"
            if k == "poke":
                p = self.agents[int(w[1])].position  # whatever the getter hands out
                p[int(w[2])] = int(w[3]) / U
                return "ok"
            if k == "raw":
                sp.agent_positions[int(w[1])] = self.pt(w[2:])
                return "ok"
            if k == "compat":
                if int(w[1]) not in self.agents:
                    return "ok"  # no such object: nothing to call
                self.agents[int(w[1])].pos = self.pt(w[2:])
                return "ok"
            if k == "hold":
                self.held[int(w[1])] = sp.agent_positions
                return "ok len=%d" % len(self.held[int(w[1])])
            if k == "hread":
                return "ok rows=" + ";".join(",".join(to_units(c) for c in row) for row in self.held[int(w[1])])
            if k == "hraw":
                self.held[int(w[1])][int(w[2])] = self.pt(w[3:])
                return "ok"
            if k == "get":
                return "ok pos=" + ",".join(to_units(v) for v in self.agents[int(w[1])].position.copy())
            if k == "remove":
                self.agents[int(w[1])].remove()
                return "ok"
            if k == "agents":
                return "ok agents=" + ",".join(map(str, sorted(self.ids[a] for a in sp.agents)))
            if k == "radius":
                ags, ds = sp.get_agents_in_radius(self.pt(w[1:-1]), int(w[-1]) / U)
                return "ok res=" + self.fmt_pairs(self.pairs(ags, ds))
            if k == "knn":
                p = self.pt(w[1:-1])
                ags, ds = sp.get_k_nearest_agents(p, int(w[-1]))
                all_d2 = [self.d2(d) for d in sp.calculate_distances(self.pt(w[1:-1]))[0]]
                return "ok res=" + fmt_knn(knn_canon(all_d2, self.pairs(ags, ds))[1])
            if k == "nir":
                ags, ds = self.agents[int(w[1])].get_neighbors_in_radius(int(w[2]) / U)
                return "ok res=" + self.fmt_pairs(self.pairs(ags, ds))
            if k == "nn":
                me = self.agents[int(w[1])]
                kk = int(w[2])
                ags, ds = me.get_nearest_neighbors(kk)
                res = self.pairs(ags, ds)
                all_d2 = [self.d2(d) for d in sp.calculate_distances(me.position.copy())[0]]
                # the (k+1)-nearest answer the method filtered `me` out of
                zeros = sum(1 for d in all_d2 if d == 0)
                if (zeros > kk + 1 and len(res) in (kk, kk + 1) and all(d == 0 for _, d in res)
                        and len({a for a, _ in res}) == len(res) and int(w[1]) not in {a for a, _ in res}):
                    # more than k+1 agents coincide with `me`: numpy decides whether `me` was among the k+1 it picked, so the
                    # answer is k or k+1 distinct other agents at distance 0 (theorem C10_exp_nearest_neighbors_ties)
                    return "ok res=ambiguous"
                full = res + [(int(w[1]), 0)]
                tie, can = knn_canon(all_d2, full)
                return "ok res=" + fmt_knn([x for x in can if x[1] != int(w[1])])
            if k == "dists":
                xs, sub = self.split(w[1:])
                ds, ags = sp.calculate_distances(self.pt(xs), agents=sub)
                return "ok res=" + self.fmt_pairs(self.pairs(ags, ds), sort=sub is None)
            if k == "diffs":
                xs, sub = self.split(w[1:])
                vs = sp.calculate_difference_vector(self.pt(xs), agents=sub)
                ags = sub if sub is not None else sp.active_agents
                ps = [(self.ids[a], ";".join(to_units(c) for c in v)) for a, v in zip(ags, vs, strict=True)]
                return "ok res=" + ",".join(f"{a}:{v}" for a, v in (sorted(ps) if sub is None else ps))
            if k == "inb":
                return "ok %d" % bool(sp.in_bounds(self.pt(w[1:])))
            if k == "correct":
                return "ok pos=" + ",".join(to_units(v) for v in sp.torus_correct(self.pt(w[1:])))
        except Exception as e:  # noqa: BLE001
            return err_of(e, k)
        raise ValueError(w)


def run_impl(sc):
    w0 = sc.lines[0].split()
    assert w0[0] == "scenario"
    impl = LegacyImpl(w0[2:]) if w0[1] == "legacy" else ExpImpl(w0[2:])
    obs = ["ok"]
    for line in sc.lines[1:]:
        obs.append(impl.line(line.split()))
    return obs


# ----------------------------------------------------------------------------------------
# the property, written down independently (exact integer arithmetic): used by the oracle and
# by the generators to aim at interesting inputs


class Spec:
    """bounds, wrap rule, toroidal metric, last-assigned positions, membership"""

    def __init__(self, kind, torus, bounds):
        self.kind, self.torus, self.bounds = kind, bool(torus), bounds  # bounds: [(lo, hi)]
        self.pos = {}  # aid -> tuple of ints | None (in the space, position never assigned)
        self.order = []  # members in insertion order

    def size(self, i):
        return self.bounds[i][1] - self.bounds[i][0]

    def inside(self, p):
        if self.kind == "legacy":
            return all(lo <= x < hi for x, (lo, hi) in zip(p, self.bounds))
        return all(lo <= x <= hi for x, (lo, hi) in zip(p, self.bounds))

    def assign(self, p):
        """value stored by an assignment of p; None = the assignment must be rejected"""
        p = tuple(p)
        if self.inside(p):
            return p
        if not self.torus:
            return None
        return tuple(lo + (x - lo) % (hi - lo) for x, (lo, hi) in zip(p, self.bounds))

    def d2(self, p, q):
        """squared (toroidal) Euclidean distance of ANY two points: on a torus the least squared Euclidean distance from p to a
        periodic image of q (searched over every image that can be nearest)"""
        tot = 0
        for i, (a, b) in enumerate(zip(p, q)):
            d = abs(a - b)
            if self.torus:
                s = self.size(i)
                n = d // s + 1
                d = min(abs(a - b + k * s) for k in range(-n, n + 1))
            tot += d * d
        return tot

    def image_of(self, p, q):
        """p is a periodic image of q (the same point on a bounded space)"""
        if not self.torus:
            return tuple(p) == tuple(q)
        return all((a - b) % self.size(i) == 0 for i, (a, b) in enumerate(zip(p, q)))

    def members(self):
        return list(self.order)


def parse_header(line):
    w = line.split()
    if w[1] == "legacy":
        t, xmin, xmax, ymin, ymax = map(int, w[3:])
        return Spec("legacy", t, [(xmin, xmax), (ymin, ymax)]), None
    b = list(map(int, w[5:]))
    return Spec("exp", int(w[3]), [(b[2 * i], b[2 * i + 1]) for i in range(len(b) // 2)]), int(w[4])


def parse_pairs(s):
    return [(int(a), int(d)) for a, d in (x.split(":") for x in s.split(",") if x)]


def oracle(sc, obs):
    """clauses of C10 (and the continuous part of C18) violated by the implementation's observations"""
    sp, _cap = parse_header(sc.lines[0])
    nd = len(sp.bounds)
    bad = []
    prev = None  # previous (words, obs) for the adjacent dist/dist and dist/heading pairs
    for line, o in zip(sc.lines[1:], obs[1:]):
        w = line.split()
        k = w[0]
        if o.startswith("inexact") or "inexact" in o:
            bad.append(f"inexact: {line} -> {o} (a value outside the exact-arithmetic domain)")
            prev = (w, o)
            continue
        if sp.kind == "legacy":
            if k in ("place", "move"):
                a, p = int(w[1]), (int(w[2]), int(w[3]))
                v = sp.assign(p)
                member = a in sp.pos
                if k == "move" and not member:
                    pass  # moving an agent that is not in the space: outside the property's histories
                elif v is None:
                    if o == "ok":
                        bad.append(f"accept-invalid: {line} accepted on a bounded space")
                    elif o != "err OutOfBounds":
                        bad.append(f"reject-kind: {line} -> {o}")
                else:
                    if o != "ok":
                        bad.append(f"reject-valid: {line} -> {o}")
                    else:
                        if not member:
                            sp.order.append(a)
                        sp.pos[a] = v
            elif k == "remove":
                a = int(w[1])
                if a in sp.pos:
                    if o != "ok":
                        bad.append(f"reject-valid: {line} -> {o}")
                    else:
                        del sp.pos[a]
                        sp.order.remove(a)
                elif o == "ok":
                    bad.append(f"accept-invalid: {line} of an agent that is not in the space")
            elif k == "setpos":
                # agent.pos assigned behind the space's back: not a call of the property's histories.  The property knows no
                # position of that agent until the space assigns one again (and range queries are not judged meanwhile)
                if int(w[1]) in sp.pos:
                    sp.pos[int(w[1])] = None
            elif k == "pos":
                a = int(w[1])
                if sp.pos.get(a) is not None:
                    want = "ok pos=%d,%d" % sp.pos[a]
                    if o != want:
                        bad.append(f"pos-last-assigned: agent {a} reports {o}, last assigned {want}")
            elif k == "agents":
                want = "ok agents=" + ",".join(map(str, sorted(sp.pos)))
                if o != want:
                    bad.append(f"agents-set: space.agents {o}, placed and not removed {want}")
            elif k == "nbrs":
                pt, r, incl = (int(w[1]), int(w[2])), int(w[3]), int(w[4])
                if not o.startswith("ok nbrs="):
                    bad.append(f"query-raised: {line} -> {o}")
                elif all(v is not None for v in sp.pos.values()):
                    want = sorted(a for a, q in sp.pos.items() if sp.d2(q, pt) <= r * r and (incl or sp.d2(q, pt) > 0))
                    if o != "ok nbrs=" + ",".join(map(str, want)):
                        bad.append(f"radius-exact: {line} -> {o}, agents within the radius are {want}")
            elif k == "dist":
                p, q = (int(w[1]), int(w[2])), (int(w[3]), int(w[4]))
                if not o.startswith("ok d2="):
                    bad.append(f"query-raised: {line} -> {o}")
                else:
                    if o != f"ok d2={sp.d2(p, q)}":
                        bad.append(f"distance: {line} -> {o}, toroidal distance squared is {sp.d2(p, q)}")
                    if prev and prev[0][0] == "dist" and prev[0][1:] == w[3:5] + w[1:3] and prev[1] != o:
                        bad.append(f"dist-symmetric: {line} -> {o} but the swapped query gave {prev[1]}")
            elif k == "heading":
                if not o.startswith("ok h="):
                    bad.append(f"query-raised: {line} -> {o}")
                else:
                    hx, hy = map(int, o[5:].split(","))
                    p1, p2 = (int(w[1]), int(w[2])), (int(w[3]), int(w[4]))
                    if not sp.image_of((p1[0] + hx, p1[1] + hy), p2):
                        bad.append(f"heading-target: {line} -> {o}: following the heading from the first point does not arrive at (a periodic image of) the second")
                    if hx * hx + hy * hy != sp.d2(p1, p2):
                        bad.append(f"heading-length: {line} -> {o}, squared length {hx*hx+hy*hy} but the toroidal distance squared is {sp.d2(p1, p2)}")
                    if prev and prev[0][0] == "dist" and prev[0][1:] == w[1:] and prev[1].startswith("ok d2=") and hx * hx + hy * hy != int(prev[1][6:]):
                        bad.append(f"heading-length: {line} -> {o}, squared length {hx*hx+hy*hy} but distance squared {prev[1][6:]}")
        else:
            ncoord = {"set": len(w) - 2, "iadd": len(w) - 2, "raw": len(w) - 2, "radius": len(w) - 2, "knn": len(w) - 2,
                      "inb": len(w) - 1, "correct": len(w) - 1,
                      "dists": (w.index(":") if ":" in w else len(w)) - 1, "diffs": (w.index(":") if ":" in w else len(w)) - 1}.get(k)
            if ncoord is not None and ncoord != nd:
                # a vector that is not a point of the space (numpy broadcasts it or raises): the property does not speak about the
                # call; if it went through, the position it left behind is not known to the property until the next assignment
                if o == "ok" and k in ("set", "iadd", "raw"):
                    hit = sp.order[int(w[1])] if k == "raw" and int(w[1]) < len(sp.order) else int(w[1]) if k != "raw" else None
                    if hit in sp.pos:
                        sp.pos[hit] = None
                prev = (w, o)
                continue
            if k == "new":
                a = int(w[1])
                if o != "ok":
                    bad.append(f"reject-valid: {line} -> {o}")
                else:
                    sp.pos[a] = None
                    sp.order.append(a)
            elif k == "set":
                a, p = int(w[1]), tuple(map(int, w[2:]))
                if a in sp.pos:
                    v = sp.assign(p)
                    if v is None:
                        if o == "ok":
                            bad.append(f"accept-invalid: {line} accepted on a bounded space")
                        elif o != "err OutOfBounds":
                            bad.append(f"reject-kind: {line} -> {o}")
                    elif o != "ok":
                        bad.append(f"reject-valid: {line} -> {o}")
                    else:
                        sp.pos[a] = v
            elif k == "iadd":
                # `agent.position += v` assigns (last assigned value) + v
                a, dv = int(w[1]), tuple(map(int, w[2:]))
                if sp.pos.get(a) is not None:
                    v = sp.assign(tuple(x + d for x, d in zip(sp.pos[a], dv)))
                    if v is None:
                        if o == "ok":
                            bad.append(f"accept-invalid: {line} accepted on a bounded space")
                        elif o != "err OutOfBounds":
                            bad.append(f"reject-kind: {line} -> {o}")
                    elif o != "ok":
                        bad.append(f"reject-valid: {line} -> {o}")
                    else:
                        sp.pos[a] = v
            elif k in ("poke", "compat"):
                pass  # a write into what the getter returned / the ignored `pos` setter is not an assignment: judged by the next `get`
            elif k == "raw":
                # a write through the public view lands, unvalidated, in the row of the i-th agent of space.agents
                i, p = int(w[1]), tuple(map(int, w[2:]))
                if i < len(sp.order):
                    if o != "ok":
                        bad.append(f"reject-valid: {line} -> {o}")
                    else:
                        sp.pos[sp.order[i]] = p
            elif k == "hraw":
                # a write through a reference to agent_positions kept from earlier: whether it still reaches the space depends on
                # re-allocations, which the property does not speak about -- no position is known afterwards until assigned again
                if o == "ok":
                    for a in sp.pos:
                        sp.pos[a] = None
            elif k == "hread":
                # agent_positions, freshly taken, lists the positions of space.agents in order
                if prev and prev[0] == ["hold", w[1]] and all(v is not None for v in sp.pos.values()):
                    want = "ok rows=" + ";".join(",".join(map(str, sp.pos[a])) for a in sp.order)
                    if o != want:
                        bad.append(f"view-rows: agent_positions shows {o}, positions of space.agents in order are {want}")
            elif k == "remove":
                a = int(w[1])
                if a in sp.pos:
                    if o != "ok":
                        bad.append(f"reject-valid: {line} -> {o}")
                    else:
                        del sp.pos[a]
                        sp.order.remove(a)
            elif k == "get":
                a = int(w[1])
                if sp.pos.get(a) is not None:
                    want = "ok pos=" + ",".join(map(str, sp.pos[a]))
                    if o != want:
                        bad.append(f"pos-last-assigned: agent {a} reports {o}, last assigned {want}")
            elif k == "agents":
                want = "ok agents=" + ",".join(map(str, sorted(sp.pos)))
                if o != want:
                    bad.append(f"agents-set: space.agents {o}, created and not removed {want}")
            elif k in ("radius", "knn", "nir", "nn", "dists", "diffs"):
                assigned = all(v is not None for v in sp.pos.values())
                if k in ("nir", "nn"):
                    me = int(w[1])
                    if sp.pos.get(me) is None:
                        prev = (w, o)
                        continue
                    pt, arg = sp.pos[me], int(w[2])
                elif k in ("radius", "knn"):
                    pt, arg = tuple(map(int, w[1:1 + nd])), int(w[1 + nd])
                else:
                    pt, arg = tuple(map(int, w[1:1 + nd])), None
                n = len(sp.pos)
                legit = True
                if k == "knn":
                    legit = arg <= n
                elif k == "nn":
                    legit = arg + 1 <= n
                elif k == "nir":
                    legit = arg >= 0
                elif k in ("dists", "diffs") and ":" in w:
                    legit = all(int(a) in sp.pos for a in w[w.index(":") + 1:])
                if not o.startswith("ok res="):
                    if legit:
                        bad.append(f"query-raised: {line} -> {o} with {n} agents in the space")
                elif assigned and o != "ok res=ambiguous":
                    body = o[7:]
                    alld = {a: sp.d2(pt, q) for a, q in sp.pos.items()}
                    if k in ("radius", "nir"):
                        want = sorted((a, d) for a, d in alld.items() if arg >= 0 and d <= arg * arg and not (k == "nir" and a == me))
                        if parse_pairs(body) != want:
                            bad.append(f"radius-exact: {line} -> {o}, agents within the radius (with squared distances) are {want}")
                    elif k in ("knn", "nn"):
                        got = [(int(d), None if a == "*" else int(a)) for d, a in (x.split(":") for x in body.split(",") if x)]
                        cand = {a: d for a, d in alld.items() if not (k == "nn" and a == me)}
                        kk = arg
                        named = [a for _, a in got if a is not None]
                        if len(got) != kk or len(set(named)) != len(named):
                            bad.append(f"knn-count: {line} -> {o}: not {kk} distinct agents")
                        elif any(cand.get(a) != d for d, a in got if a is not None):
                            bad.append(f"knn-distance: {line} -> {o}: a returned distance is not the agent's distance {cand}")
                        elif sorted(d for d, _ in got) != sorted(cand.values())[:kk]:
                            bad.append(f"knn-nearest: {line} -> {o}: an agent left out is nearer; distances {sorted(cand.values())}")
                    elif k == "dists":
                        sub = [int(a) for a in w[w.index(":") + 1:]] if ":" in w else None
                        want = sorted(alld.items()) if sub is None else [(a, alld[a]) for a in sub]
                        if parse_pairs(body) != want:
                            bad.append(f"distance: {line} -> {o}, toroidal distances squared are {want}")
                    elif k == "diffs":
                        for x in body.split(","):
                            if not x:
                                continue
                            a, v = x.split(":")
                            v = [int(c) for c in v.split(";")]
                            if not sp.image_of(tuple(x + c for x, c in zip(pt, v)), sp.pos[int(a)]):
                                bad.append(f"heading-target: {line} -> difference vector {v} of agent {a} does not lead from the point to (a periodic image of) the agent at {sp.pos[int(a)]}")
                                break
                            if sum(c * c for c in v) != alld[int(a)]:
                                bad.append(f"heading-length: {line} -> difference vector {v} of agent {a} has squared length {sum(c*c for c in v)}, distance squared {alld[int(a)]}")
                                break
        prev = (w, o)
    return bad


# ----------------------------------------------------------------------------------------
# generators (every choice from the one PRNG; scenarios always terminate: straight-line ops)

ORIGINS = [0, 0, 0, -320, 96, -64, 37, -1000, 640]
SIZES = [64, 128, 320, 640, 640, 100, 333, 1000, 65, 1]
CAPS = [0, 0, 1, 1, 2, 3, 5, 50, 100]


def isqrt_near(R, d2):
    r = math.isqrt(d2)
    return max(0, r + R.choice([0, 0, 0, 1, -1]))


class Gen:
    def __init__(self, R, kind, reject_rich=False):
        self.R = R
        self.kind = kind
        self.rr = reject_rich
        self.nd = 2 if kind == "legacy" else R.choice([2, 2, 2, 3, 3, 1, 4, 5])
        self.torus = (R.random() < 0.15) if reject_rich else (R.random() < 0.5)
        self.bounds = []
        for _ in range(self.nd):
            lo = R.choice(ORIGINS)
            self.bounds.append((lo, lo + R.choice(SIZES)))
        self.sp = Spec(kind, self.torus, self.bounds)
        self.next_id = 1
        self.lines = []
        self.removed = []
        # references to agent_positions the user keeps.  They are used only where any growth policy gives the same answer: the
        # initial array (n_agents rows) must be re-allocated by the first add that finds it full and not before, and no array is
        # re-allocated without an add.  (How much the array grows is the model's `growBy`; it is not observed.)
        self.cap0 = 0  # rows of the initial array (set by scenario())
        self.realloc = False  # the initial array has been replaced
        self.nnew = 0  # adds so far
        self.held = {}  # slot -> (adds when taken, length, taken while the initial array was in use)

    # coordinates --------------------------------------------------------------------
    def coord(self, i, oob_p):
        R = self.R
        lo, hi = self.bounds[i]
        size = hi - lo
        k = R.random()
        if k < oob_p:
            return R.choice([lo - R.randrange(1, 2 * size + 2), hi + R.randrange(0, 2 * size + 2), hi, lo - 1, hi + 1, lo - size, hi + size])
        k = R.random()
        if k < 0.2:
            return R.choice([lo, hi - 1, lo + size // 2, hi if self.kind == "exp" else hi - 1])
        if k < 0.5 and size > 32:
            return lo + 32 * R.randrange(0, (size + 31) // 32)
        return lo + R.randrange(size)

    def point(self, oob_p=0.0):
        R = self.R
        if self.sp.order and R.random() < 0.25:
            q = self.sp.pos[R.choice(self.sp.order)]
            if q is not None:
                if R.random() < 0.5:
                    return tuple(q)  # coincident with an agent
                cand = tuple(x + R.choice([-64, -32, 0, 0, 32, 64]) for x in q)
                if self.sp.inside(cand):
                    return cand
        return tuple(self.coord(i, oob_p) for i in range(self.nd))

    def inside_point(self):
        for _ in range(20):
            p = self.point(0.0)
            if self.sp.inside(p):
                return p
        return tuple(lo for lo, _ in self.bounds)

    def query_point(self):
        """a query point: mostly a point of the space, but a quarter of them anywhere (up to two sizes outside the bounds): on a
        torus such a point stands for its periodic image (repair CS3), on a bounded space it is just a point"""
        return self.point(0.6) if self.R.random() < 0.25 else self.inside_point()

    def half_way(self, p):
        """a point of the space exactly half the size away from p on some axes (both periodic images equally near)"""
        q = list(p)
        for i, (lo, hi) in enumerate(self.bounds):
            size = hi - lo
            if size % 2 == 0 and self.R.random() < 0.7:
                q[i] = p[i] + size // 2 if self.sp.inside([p[i] + size // 2 if j == i else x for j, x in enumerate(p)]) else p[i] - size // 2
        q = tuple(q)
        return q if self.sp.inside(q) else tuple(p)

    def radius(self, pt):
        R = self.R
        k = R.random()
        if self.sp.order and k < 0.45:
            q = self.sp.pos[R.choice(self.sp.order)]
            if q is not None:
                return isqrt_near(R, self.sp.d2(pt, q))
        if k < 0.5:
            return R.choice([-64, -1])
        size = self.bounds[0][1] - self.bounds[0][0]
        return R.choice([0, 1, 32, 64, 100, 200, size // 2, size, 2 * size, R.randrange(0, size + 1)])

    def fmt(self, p):
        return " ".join(map(str, p))

    def emit(self, line):
        self.lines.append(line)

    def member(self):
        return self.R.choice(self.sp.order) if self.sp.order else None

    # legacy --------------------------------------------------------------------------
    def legacy_assign(self, op, a, p):
        v = self.sp.assign(p)
        self.emit(f"{op} {a} {self.fmt(p)}")
        if v is not None and (op == "place" or a in self.sp.pos):
            if a not in self.sp.pos:
                self.sp.order.append(a)
            self.sp.pos[a] = v

    def legacy_op(self):
        R, sp = self.R, self.sp
        oob_p = 0.3 if self.rr else 0.12
        k = R.random()
        if k < 0.18 or not sp.order:
            a = self.next_id
            self.next_id += 1
            self.legacy_assign("place", a, self.point(oob_p))
        elif k < 0.21:
            self.legacy_assign("place", self.member(), self.point(oob_p))
        elif k < 0.42:
            self.legacy_assign("move", self.member(), self.point(oob_p))
        elif k < 0.43:
            a = R.choice(self.removed) if self.removed else self.next_id + 7
            if a not in sp.pos:
                self.emit(f"move {a} {self.fmt(self.point(oob_p))}")
        elif k < 0.52:
            if R.random() < (0.5 if self.rr else 0.15):
                a = R.choice(self.removed) if self.removed and R.random() < 0.5 else self.next_id + 3
                if a not in sp.pos:
                    self.emit(f"remove {a}")
            else:
                a = self.member()
                self.emit(f"remove {a}")
                del sp.pos[a]
                sp.order.remove(a)
                self.removed.append(a)
        elif k < 0.60:
            a = self.member() if R.random() < 0.85 or not self.removed else R.choice(self.removed)
            self.emit(f"pos {a}")
        elif k < 0.66:
            self.emit("agents")
        elif k < 0.86:
            pt = self.query_point()
            r = self.radius(pt)
            incl = R.choice([1, 1, 0])
            self.emit(f"nbrs {self.fmt(pt)} {r} {incl}")
            if sp.order and R.random() < 0.4:
                # a query issued between a cached read and a move
                self.legacy_assign("move", self.member(), self.point(oob_p))
                self.emit(f"nbrs {self.fmt(pt)} {R.choice([r, self.radius(pt)])} {incl}")
        elif k < 0.96:
            p, q = self.inside_point(), self.inside_point()
            if self.torus and R.random() < 0.3:
                q = self.half_way(p)  # exactly half-way round: the tie of the heading rule
            elif R.random() < 0.25:
                p = self.point(0.5)  # anywhere: on a torus the distance / heading to the nearest periodic image
                if R.random() < 0.4:
                    q = self.point(0.5)
            self.emit(f"dist {self.fmt(p)} {self.fmt(q)}")
            self.emit(f"dist {self.fmt(q)} {self.fmt(p)}")
            self.emit(f"heading {self.fmt(q)} {self.fmt(p)}")
        else:
            self.emit(f"{R.choice(['oob', 'adj'])} {self.fmt(self.point(0.3))}")
        if sp.order and not self.rr and R.random() < 0.025:
            # the user assigns agent.pos directly; with a live cache get_neighbors keeps answering for the old position
            a = self.member() if R.random() < 0.85 or not self.removed else R.choice(self.removed)
            old = sp.pos.get(a)
            p = self.point(0.2)
            if R.random() < 0.6:
                self.emit(f"nbrs {self.fmt(self.inside_point())} {R.choice([64, 200, 1000])} 1")  # make sure the cache is live
            self.emit(f"setpos {a} {self.fmt(p)}")
            if a in sp.pos:
                sp.pos[a] = tuple(p)
            self.emit(f"pos {a}")
            for q in ([old, p] if old is not None else [p]):
                if self.sp.inside(q) or not self.torus:
                    self.emit(f"nbrs {self.fmt(q)} {R.choice([0, 1, 64])} 1")
        if self.rr and R.random() < 0.5:
            self.emit(R.choice(["agents", f"pos {self.member() or 1}", f"nbrs {self.fmt(self.inside_point())} 200 1"]))

    # experimental --------------------------------------------------------------------
    def exp_new(self):
        a = self.next_id
        self.next_id += 1
        self.emit(f"new {a}")
        self.nnew += 1
        if self.cap0 <= len(self.sp.order):
            self.realloc = True  # the initial array is full: this add re-allocates
        self.sp.pos[a] = None
        self.sp.order.append(a)
        p = self.point(0.15) if self.torus else self.inside_point()
        self.emit(f"set {a} {self.fmt(p)}")
        self.sp.pos[a] = self.sp.assign(p)

    def exp_op(self):
        R, sp = self.R, self.sp
        oob_p = 0.3 if self.rr else 0.12
        k = R.random()
        n = len(sp.order)
        if k < 0.2 or not sp.order:
            self.exp_new()
        elif k < 0.40:
            a, p = self.member(), self.point(oob_p)
            self.emit(f"set {a} {self.fmt(p)}")
            v = sp.assign(p)
            if v is not None:
                sp.pos[a] = v
        elif k < 0.455:
            # agent.position += v (the idiom of the boid example); often leaves the space
            a = self.member()
            if sp.pos[a] is None:
                return
            big = self.rr or R.random() < 0.25
            dv = []
            for i in range(self.nd):
                size = self.bounds[i][1] - self.bounds[i][0]
                dv.append(R.choice([0, 0, 1, -1, 32, -32, 64, -64, size, -size, size // 2, 2 * size + 1] if big
                                   else [0, 0, 0, 1, -1, 16, -16, 32, -32]))
            self.emit(f"iadd {a} {self.fmt(dv)}")
            v = sp.assign(tuple(x + d for x, d in zip(sp.pos[a], dv)))
            if v is not None:
                sp.pos[a] = v
            if R.random() < 0.5:
                self.emit(f"get {a}")
        elif k < 0.47:
            # a write into whatever `agent.position` returned, then a read
            a = self.member()
            j = R.randrange(self.nd) if R.random() < 0.9 else self.nd
            lo, hi = self.bounds[min(j, self.nd - 1)]
            self.emit(f"poke {a} {j} {R.choice([lo - 64, hi + 64, lo, hi, lo + (hi - lo) // 2, 12345])}")
            self.emit(f"get {a}")
            if R.random() < 0.3:
                self.emit(f"radius {self.fmt(self.inside_point())} {R.choice([64, 200, 1000])}")
        elif k < 0.49:
            # user writes that do not go through the position setter
            r = R.random()
            if r < 0.3:
                i = R.randrange(n) if R.random() < 0.9 else n
                p = self.inside_point() if R.random() < 0.75 else self.point(0.5)
                self.emit(f"raw {i} {self.fmt(p)}")
                if i < n:
                    sp.pos[sp.order[i]] = tuple(p)
                    self.emit(f"get {sp.order[i]}")
            elif r < 0.45:
                a = self.member() if R.random() < 0.8 or not self.removed else R.choice(self.removed)
                self.emit(f"compat {a} {self.fmt(self.point(0.3))}")
                self.emit(f"get {a}")
            elif not self.held or r < 0.65:
                # v = space.agent_positions, kept while the history goes on
                slot = R.randrange(3)
                self.emit(f"hold {slot}")
                self.held[slot] = (self.nnew, n, not self.realloc)
                if R.random() < 0.5:
                    self.emit(f"hread {slot}")
            else:
                self.held_use()
        elif k < 0.505 and self.removed:
            # life cycle: calls on an agent object after its remove()
            a = R.choice(self.removed)
            self.emit(R.choice([f"get {a}", f"set {a} {self.fmt(self.point(0.2))}", f"remove {a}", f"nir {a} 64", f"nn {a} 1",
                                f"iadd {a} {self.fmt([1] * self.nd)}", f"poke {a} 0 0",
                                f"dists {self.fmt(self.inside_point())} : {a}", f"diffs {self.fmt(self.inside_point())} : {a}"]))
            if R.random() < 0.5:
                self.emit(R.choice(["agents", f"radius {self.fmt(self.inside_point())} 200"]))
        elif k < 0.545:
            a = self.member()
            self.emit(f"remove {a}")
            del sp.pos[a]
            sp.order.remove(a)
            self.removed.append(a)
        elif k < 0.59:
            self.emit(f"get {self.member()}")
        elif k < 0.63:
            self.emit("agents")
        elif k < 0.72:
            pt = self.query_point()
            self.emit(f"radius {self.fmt(pt)} {self.radius(pt)}")
        elif k < 0.80:
            kk = R.choice([n, n, R.randrange(1, n + 1), R.randrange(1, n + 1), 1, 0, n + 1] if not self.rr else [n, 1])
            self.emit(f"knn {self.fmt(self.query_point())} {kk}")
        elif k < 0.85:
            a = self.member()
            self.emit(f"nir {a} {self.radius(sp.pos[a])}")
        elif k < 0.90:
            kk = R.choice([n - 1, n - 1, R.randrange(0, n), R.randrange(0, n), n] if not self.rr else [n - 1, 1])
            self.emit(f"nn {self.member()} {max(kk, 0)}")
        elif k < 0.95:
            pt = self.query_point()
            if self.torus and sp.order and R.random() < 0.3 and sp.pos[sp.order[-1]] is not None:
                pt = self.half_way(sp.pos[R.choice([a for a in sp.order if sp.pos[a] is not None])])
            sub = ""
            if R.random() < 0.4:
                sub = " : " + " ".join(str(R.choice(sp.order)) for _ in range(R.randrange(0, 4)))
            op = R.choice(["dists", "diffs"])
            self.emit(f"{op} {self.fmt(pt)}{sub}")
            if op == "dists":
                self.emit(f"diffs {self.fmt(pt)}{sub}")
        else:
            self.emit(f"{R.choice(['inb', 'correct'])} {self.fmt(self.point(0.3))}")
        if self.nd >= 2 and sp.order and R.random() < 0.02:
            self.wrong_length()
        if self.held and sp.order and R.random() < 0.15:
            self.held_use()  # a kept reference is used again later: after re-slicing, compaction, re-allocation
        if self.rr and R.random() < 0.5 and sp.order:
            self.emit(R.choice(["agents", f"get {self.member()}", f"radius {self.fmt(self.inside_point())} 200"]))

    def wrong_length(self):
        """a vector with the wrong number of coordinates: one element (numpy broadcasts it) or nd-1 / nd+1 (ValueError)"""
        R, sp = self.R, self.sp
        n = len(sp.order)
        klen = R.choice([1, 1, 1, self.nd - 1, self.nd + 1])
        full = list(self.point(0.15))
        v = [full[0]] if klen == 1 else full[:klen] if klen < self.nd else full + [full[0]]
        rep = tuple(v * self.nd) if klen == 1 else None  # what a one-element vector stands for
        op = R.choice(["set", "set", "iadd", "raw", "radius", "knn", "dists", "diffs", "inb", "correct"])
        a = self.member()
        if op == "set":
            self.emit(f"set {a} {self.fmt(v)}")
            if rep is not None and sp.assign(rep) is not None:
                sp.pos[a] = sp.assign(rep)
            self.emit(f"get {a}")
        elif op == "iadd":
            if sp.pos[a] is None:
                return
            d = [R.choice([0, 1, -1, 16, -16, 64])] * klen if klen == 1 else v
            self.emit(f"iadd {a} {self.fmt(d)}")
            if klen == 1:
                t = sp.assign(tuple(x + d[0] for x in sp.pos[a]))
                if t is not None:
                    sp.pos[a] = t
            self.emit(f"get {a}")
        elif op == "raw":
            i = R.randrange(n) if R.random() < 0.9 else n
            self.emit(f"raw {i} {self.fmt(v)}")
            if rep is not None and i < n:
                sp.pos[sp.order[i]] = rep
            if i < n:
                self.emit(f"get {sp.order[i]}")
        elif op == "radius":
            self.emit(f"radius {self.fmt(v)} {R.choice([64, 200, 1000])}")
        elif op == "knn":
            self.emit(f"knn {self.fmt(v)} {R.choice([1, n, 0])}")
        elif op in ("dists", "diffs"):
            sub = "" if R.random() < 0.6 else " : " + " ".join(str(R.choice(sp.order + self.removed[:1])) for _ in range(R.randrange(0, 3)))
            self.emit(f"{op} {self.fmt(v)}{sub}")
        else:
            self.emit(f"{op} {self.fmt(v)}")

    def held_use(self):
        """read or write through a reference to agent_positions taken earlier"""
        R, sp = self.R, self.sp
        n = len(sp.order)
        usable = [k for k, (at, _, initial) in sorted(self.held.items()) if initial or at == self.nnew]
        if not usable:
            return
        slot = R.choice(usable)
        if R.random() < 0.45:
            self.emit(f"hread {slot}")
            return
        at, hlen, initial = self.held[slot]
        live = at == self.nnew or not self.realloc  # still a view of the space's array
        i = R.randrange(hlen) if hlen and R.random() < 0.9 else hlen
        p = self.inside_point()
        self.emit(f"hraw {slot} {i} {self.fmt(p)}")
        if i < hlen and live and i < n:
            sp.pos[sp.order[i]] = tuple(p)  # same array, a row in use: the agent that has the row now is moved
        self.emit(R.choice([f"hread {slot}", f"get {self.member()}", f"hread {R.choice(usable)}"]))
        if R.random() < 0.5:
            self.emit(f"radius {self.fmt(self.inside_point())} {R.choice([64, 200, 1000])}")

    def scenario(self, nops=None):
        R = self.R
        if self.kind == "legacy":
            (x0, x1), (y0, y1) = self.bounds
            head = f"scenario legacy {R.choice('fffiia')} {int(self.torus)} {x0} {x1} {y0} {y1}"
            if R.random() < 0.3:
                self.emit(f"nbrs {self.fmt(self.inside_point())} {R.choice([0, 64, 1000])} 1")  # query on the empty space
        else:
            cap = self.cap0 = R.choice(CAPS)
            head = f"scenario exp {R.choice('aaal')} {int(self.torus)} {cap} " + " ".join(f"{lo} {hi}" for lo, hi in self.bounds)
            if R.random() < 0.3:
                pt = self.inside_point()
                self.emit(R.choice([f"radius {self.fmt(pt)} 64", f"dists {self.fmt(pt)}", f"diffs {self.fmt(pt)}", f"knn {self.fmt(pt)} 0", "agents"]))
        for _ in range(nops or R.randrange(4, 45)):
            if self.kind == "legacy":
                self.legacy_op()
            else:
                self.exp_op()
        return core.Scenario([head] + self.lines, {})


def gen_scenario(R, kind=None, reject_rich=False):
    kind = kind or R.choice(["legacy", "exp"])
    return Gen(R, kind, reject_rich).scenario()
