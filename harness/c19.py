"""C19 — copies and pickles of agent sets and cell spaces are faithful and detached  (partial: object identity is runtime).

Two-sided correspondence: the Lean side (`drv_copy`) keeps two independent instances of the cell-space model — the copy
is a value copy — and the implementation side copies the real space (with its agents and their model) with
`copy.deepcopy` or a pickle round trip; afterwards both sides receive further operations and every observation of
either side is compared with the model.  The oracle evaluates the property's own clauses on the implementation:
observational equality right after the copy, no shared objects (cells, agents, classes, layer arrays), and the frame
clause (an operation on one side never changes the other side's observation).  AgentSets are covered by `extra`.
"""
from __future__ import annotations

import copy
import functools
import pickle

from . import c19_occ as O
from . import c19_sets as S
from . import cells_common as C
from . import core

PROP = "C19"
DRIVER = "drv_copy"
DRIVERS = ["drv_copy", S.DRIVER, O.DRIVER]
LEAN_MODULES = ["MesaModel.Props.C19", "MesaModel.Props.C19Sets", "MesaModel.Props.C19Occ"]
THEOREMS = ["Mesa.Copy." + t for t in (
    "C19_cells_see_own_layers", "C19_copy_sees_own_layers", "C19_copy_faithful", "C19_copy_detached",
    "C19_spaces_never_share", "C19_original_untouched_by_copy", "C19_reject_unchanged")] + [
    "Mesa.CopySet." + t for t in (
        "C19_agentset_reachable_wf", "C19_agentset_copy_faithful", "C19_agentset_copy_without_owners_loses_members",
        "C19_agentset_frame", "C19_agentset_original_untouched_by_copy", "C19_agentset_copy_detached",
        "C19_agentset_copy_registry")] + [
    "Mesa.CopyOcc." + t for t in (
        "C19_space_reachable", "C19_space_mirror", "C19_space_capacity", "C19_space_closure", "C19_space_never_share",
        "C19_space_copy_faithful", "C19_space_copy_same_occupancy", "C19_space_copy_mentions_only_new_objects", "C19_space_copied_agents_point_into_copy", "C19_space_ghost_copy_points_outside",
        "C19_space_frame", "C19_space_original_untouched_by_copy", "C19_space_copy_detached")]
COUNTS = {"quick": 400, "thorough": 100000}
HEADER_LINES = 1
TRUSTED = [
    "Python's pickle / copy.deepcopy traversal and memo (each reachable object is reconstructed once) — exercised, not modelled",
    "the cell-space model of C06/C07 (lean/MesaModel/Model/CellSpace.lean, CellGeometry.lean) and its TRUSTED list",
    "numpy array copying",
    "AgentSet half (Model/CopySet.lean): CPython reference counting + gc as 'alive iff reachable' (the harness collects before every line and holds agents weakly); one public attribute per agent; sets are never dropped by the program",
    "the identity-level model (Model/Copy.lean) covers grids' dynamic cell class + property descriptors; Network / Voronoi cells have no descriptors",
    "occupancy half (Model/CopyOcc.lean): one Model per space, copied as the pair (space, model); connections are never edited by the program, so the rebuilt connections of a copy are the shifted ones of the original; the second capacity test of a re-entering `agent.cell = cell` is unreachable (capacity invariant); the generator object of a space (space.random = model.random = every cell.random) and the dynamic cell class of a grid share the identity of the pair space / model (cells refer to them through `rnd` / `klass`)",
]
ASSUMPTIONS = ["the space is copied together with the agents in it and their model (what deepcopy / pickle of a space does)",
               "extra layers hold small integers (dtype int); names are chosen among non-clashing identifiers plus the rejected ones",
               "occupancy half: the program places an agent only in cells of the space its model was built with (other cells: refused by the harness as by the model, `err Foreign`) and drops an agent after remove()"]
RULE = ("a random C06 history (grids of 1-3 axes incl. hex, networks, Voronoi; capacities) plus extra property layers, then "
        "copy deepcopy|pickle, then 4-14 further operations / queries addressed at random to the original or the copy "
        "(placing, moving, removing, new agents, layer writes through cells, fills, layer add/del, neighbourhood and connection "
        "queries, CellCollection queries incl. random picks, a second-generation copy in thorough); non-trivial = the copy holds at least one agent and at least one "
        "state-changing operation was applied to each side afterwards; distinct by sha1 of op lines.  30 % of the scenarios are "
        "AgentSet histories (harness/c19_sets.py): 1-2 models, agents, 1-2 sets, set / agent operations, one or two copies (of the "
        "original or of a copy), then operations on either family, every set read back after every operation.  20 % are occupancy "
        "histories at identity level (harness/c19_occ.py): 1-2 real spaces (Moore / von Neumann in 1-3 axes, hex, networks; capacities "
        "none / 0 / 1-3) with the connection relation computed by the generator, CellAgents placed, moved, re-entered, taken out, "
        "removed, refused (full, foreign cell, unknown operand), one or two copies (of a copy too), then operations on any side; every "
        "space is read back in full (cells, occupancy, pointers, connections, empty layer) after every operation")

LAYER_NAMES = ["v", "w", "heat"]
BAD_NAMES = ["empty", "capacity", "coordinate"]


def _const_cap(cap, area):
    return cap


class Side:
    """one cell space (original or copy) driven through cells_common.Impl + extra layers"""

    def __init__(self, impl):
        self.impl = impl

    def layer_line(self, w):
        sp, h = self.impl.space, self.impl.h
        if sp is None:
            return "err NoSpace"
        if h.kind != "grid":
            return "err Attr"
        k = w[0]
        try:
            if k == "add":
                sp.create_property_layer(w[1], default_value=int(w[2]), dtype=int)
                return "ok"
            if k == "del":
                sp.remove_property_layer(w[1])
                return "ok"
            if k == "fill":
                if w[1] not in sp._mesa_property_layers:
                    return "err Key"
                getattr(sp, w[1]).set_cells(int(w[2]))
                return "ok"
            cell = sp[h.key(w[2])]
            if w[1] not in sp._mesa_property_layers or w[1] not in type(cell).__dict__:
                # without a descriptor a write would silently create an instance attribute: reported as the
                # AttributeError a read gives
                if w[1] in sp._mesa_property_layers:
                    return "err Descriptor"  # layer exists but the cell's class lost its descriptor (never on a correct tree)
                return "err Attr"
            if k == "set":
                setattr(cell, w[1], int(w[3]))
                return "ok"
            if k == "get":
                a, b = int(getattr(cell, w[1])), int(getattr(sp, w[1]).data[cell.coordinate])
                return f"ok {a}" if a == b else f"ok {a} MISMATCH layer={b}"
        except ValueError:
            return "err Value"
        except KeyError:
            return "err Key"
        except AttributeError:
            return "err Attr"
        raise ValueError(w)

    def line(self, w):
        if w[0] == "layer":
            return self.layer_line(w[1:])
        return self.impl.line(w)

    def snapshot(self):
        """everything the property calls observable, for the frame / equality clauses"""
        impl = self.impl
        sp = impl.space
        if sp is None:
            return None
        cells = list(sp.all_cells)
        conns = tuple((impl.cname(c), tuple(sorted((str(k), impl.cname(v)) for k, v in c.connections.items()))) for c in cells)
        caps = tuple((impl.cname(c), c.capacity) for c in cells)
        layers = ()
        if impl.h.kind == "grid":
            layers = tuple((n, tuple(map(int, l.data.ravel().tolist()))) for n, l in sorted(sp._mesa_property_layers.items()))
        return (impl.dump(), conns, caps, layers)


def clone_impl(impl, how):
    # agents that hold collections of their space (a home range, the space's all_cells): the copy must give the copied agent
    # collections over the COPY's cells that see the copy's occupants (such a collection is restored while its cells are rebuilt)
    for a in impl.agents:
        cell = getattr(a, "cell", None)
        if cell is not None and not hasattr(a, "home"):
            try:
                a.home = cell.neighborhood if getattr(a, "_vidx", 0) % 2 == 0 else impl.space.all_cells
            except Exception:
                pass
    # per-cell values of an attribute that the cell class also defines (a user cell class with a class-level default that single
    # cells override): they are state of the cells and must come back in the copy (grids: the per-grid dynamic class carries the default)
    if impl.h.kind == "grid" and impl.space is not None:
        cells = list(impl.space.all_cells)
        if cells and not hasattr(type(cells[0]), "owner_mark"):
            type(cells[0]).owner_mark = None
        for k, c in enumerate(cells):
            if k % 3 == 0 and "owner_mark" not in c.__dict__:
                c.owner_mark = 100 + k
    bundle = (impl.model, impl.space, impl.agents, impl.rng)
    if how == "deepcopy":
        model, space, agents, rng = copy.deepcopy(bundle)
    else:
        model, space, agents, rng = pickle.loads(pickle.dumps(bundle))
    new = object.__new__(C.Impl)
    new.ds, new.h = impl.ds, impl.h
    new.model, new.space, new.agents, new.rng = model, space, agents, rng
    new.name = {id(c): C.fmt_name(k) for k, c in space._cells.items()}
    return new


def identity_problems(o, c):
    """objects the copy must not share with the original"""
    import numpy as np

    bad = []
    so, sc_ = o.impl.space, c.impl.space
    if so is sc_:
        bad.append("same space object")
    oc = {id(x) for x in so.all_cells}
    if any(id(x) in oc for x in sc_.all_cells):
        bad.append("a cell object is shared")
    oa = {id(a) for a in o.impl.agents}
    if any(id(a) in oa for a in c.impl.agents):
        bad.append("an agent object is shared")
    if c.impl.model is o.impl.model:
        bad.append("the model object is shared")
    live = set(c.impl.model.agents)
    for a in c.impl.agents:
        if a not in live:
            continue  # removed from its model: outside C06's mirror clause
        cell = a.cell if hasattr(a, "cell") else None
        if cell is not None and id(cell) not in c.impl.name:
            bad.append(f"copied agent {a._vidx} points to a cell that is not one of the copy's cells (coordinate {cell.coordinate})")
        elif cell is not None and a not in cell.agents:
            bad.append(f"copied agent {a._vidx} is not listed by the cell it reports")
    if o.impl.h.kind == "grid":
        by_coord = {x.coordinate: x for x in sc_.all_cells}
        for x in so.all_cells:
            if "owner_mark" in x.__dict__:
                y = by_coord.get(x.coordinate)
                got = y.__dict__.get("owner_mark", "missing") if y is not None else "no such cell"
                if got != x.__dict__["owner_mark"]:
                    bad.append(f"cell {x.coordinate}: the per-cell value {x.__dict__['owner_mark']} of an attribute its class also defines is {got} in the copy")
    for a in c.impl.agents:
        home = getattr(a, "home", None)
        if home is None or a not in live:
            continue
        try:
            cells = list(home.cells)
            if any(id(x) not in c.impl.name for x in cells):
                bad.append(f"a collection held by copied agent {a._vidx} contains a cell that is not one of the copy's cells")
            seen = sorted(x._vidx for x in home.agents)
            want = sorted(x._vidx for cl in cells for x in cl.agents)
            if seen != want:
                bad.append(f"a collection held by copied agent {a._vidx} shows agents {seen}, its cells hold {want}")
        except Exception as e:  # noqa: BLE001
            bad.append(f"a collection held by copied agent {a._vidx} is unusable ({type(e).__name__}: {e})")
    for cell in sc_.all_cells:
        for a in cell.agents:
            if a not in c.impl.agents:
                bad.append(f"cell {cell.coordinate} of the copy lists an agent that is not one of the copied agents")
    if o.impl.h.kind == "grid":
        ko, kc = {type(x) for x in so.all_cells}, {type(x) for x in sc_.all_cells}
        if len(kc) != 1:
            bad.append(f"the copy's cells have {len(kc)} different classes")
        if ko & kc:
            bad.append("original and copy share a cell class (descriptors would be shared)")
        for n, l in sc_._mesa_property_layers.items():
            lo = so._mesa_property_layers.get(n)
            if lo is not None and (l is lo or np.shares_memory(l.data, lo.data)):
                bad.append(f"layer {n} shares its array with the original")
    return bad


class Impl:
    def __init__(self, header_words):
        self.o = Side(C.Impl(header_words))
        if self.o.impl.h.kind == "vor" and self.o.impl.space is not None:
            # a picklable capacity function (the cells harness uses a lambda)
            import mesa.discrete_space as ds

            h = self.o.impl.h
            self.o.impl.space = ds.VoronoiGrid([[x / h.scale for x in p] for p in h.points], capacity=h.cap, random=self.o.impl.rng,
                                               capacity_function=functools.partial(_const_cap, h.cap))
            self.o.impl.name = {id(c): C.fmt_name(k) for k, c in self.o.impl.space._cells.items()}
        self.c = None
        self.d = None
        self.trace = []

    def sides(self):
        return {k: v for k, v in (("o", self.o), ("c", self.c), ("d", self.d)) if v is not None}

    def line(self, w):
        if w[0] == "copy2":
            src = {"o": self.o, "c": self.c}.get(w[2])
            if src is None:
                return "err NoCopy"
            if src.impl.space is None:
                return "err NoSpace"
            try:
                self.d = Side(clone_impl(src.impl, w[1]))
                problems = identity_problems(src, self.d)
                for name, other in (("o", self.o), ("c", self.c)):
                    if other is not None and other is not src:
                        problems += [f"(vs side {name}) {p}" for p in identity_problems(other, self.d)]
                self.trace.append(("copied", w[1] + " (second copy)", src.snapshot(), self.d.snapshot(), problems))
            except Exception as e:  # noqa: BLE001
                self.trace.append(("unusable", "copy2 " + w[1], f"{type(e).__name__}: {e}"))
                return "err Crash"
            return "ok"
        if w[0] == "copy":
            if self.o.impl.space is None:
                return "err NoSpace"
            try:
                self.c = Side(clone_impl(self.o.impl, w[1]))
                self.trace.append(("copied", w[1], self.o.snapshot(), self.c.snapshot(), identity_problems(self.o, self.c)))
            except Exception as e:  # noqa: BLE001  a copy that cannot be made or observed is a property failure
                self.trace.append(("unusable", w[1], f"{type(e).__name__}: {e}"))
                return "err Crash"
            return "ok"
        side = "o"
        if w[0] in ("o", "c", "d"):
            side, w = w[0], w[1:]
        me = {"o": self.o, "c": self.c, "d": self.d}[side]
        if me is None:
            return "err NoCopy"
        others = {k: v for k, v in self.sides().items() if k != side}
        try:
            before = {k: v.snapshot() for k, v in others.items()}
            layers_before = (sorted(me.impl.space._mesa_property_layers) if me.impl.space is not None and me.impl.h.kind == "grid"
                             else [])
            out = me.line(w)
            for k, v in others.items():
                after = v.snapshot()
                if after != before[k]:
                    self.trace.append(("leak", side, " ".join(w) + f" (seen on side {k})", before[k], after))
            if others:
                self.trace.append(("state", side, " ".join(w), out, me.snapshot()[0] if me.impl.space is not None else None,
                                   me.impl.h.kind, layers_before))
        except Exception as e:  # noqa: BLE001
            if self.c is None:
                raise  # before any copy exists this is the cells harness' business
            self.trace.append(("unusable", side + " " + " ".join(w), f"{type(e).__name__}: {e}"))
            return "err Crash"
        return out


def is_sets(sc):
    return sc.lines[0] == S.HEADER


def is_occ(sc):
    return sc.lines[0] == O.HEADER


def driver_for(sc):
    return S.DRIVER if is_sets(sc) else O.DRIVER if is_occ(sc) else DRIVER


def run_impl(sc):
    if is_sets(sc):
        return S.run_impl(sc)
    if is_occ(sc):
        return O.run_impl(sc)
    impl = Impl(sc.lines[0].split())
    obs = ["ok" if impl.o.impl.space is not None else "err Value"]
    for l in sc.lines[1:]:
        obs.append(impl.line(l.split()))
    sc.meta["trace"] = impl.trace
    return obs


def dump_inconsistencies(dump, hand_written_empty=False):
    """C06's clauses on one observation dump (the views of one space must agree with each other)"""
    _, d = C.parse_dump("x | " + dump)
    bad = []
    cell_of = {}
    for t in d.get("ag", []):
        a, _, c = t.partition(":")
        cell_of[a] = None if c == "-" else c
    occ = {}
    for t in d.get("occ", []):
        c, _, ags = t.partition(":")
        occ[c] = [x for x in ags.split(".") if x != ""]
    listed = {a for ags in occ.values() for a in ags}
    reg = set(d.get("reg", []))
    for a, c in cell_of.items():
        if a in reg and c is not None and a not in occ.get(c, []):
            bad.append(f"agent {a} reports cell {c}, which does not list it")
    for c, ags in occ.items():
        for a in ags:
            if a in reg and cell_of.get(a) != c:
                bad.append(f"cell {c} lists agent {a}, which reports {cell_of.get(a)}")
    if sorted(d.get("agents", []), key=str) != sorted(listed, key=str):
        bad.append(f"space.agents is {d.get('agents')} but the cells list {sorted(listed)}")
    if set(d.get("empty", [])) & set(occ):
        bad.append(f"cells {sorted(set(d.get('empty', [])) & set(occ))} are occupied and report is_empty")
    if set(d.get("empties", [])) != set(d.get("empty", [])):
        bad.append(f"space.empties {d.get('empties')} differs from the cells with is_empty {d.get('empty')}")
    if hand_written_empty:
        return bad
    if d.get("layer") != ["na"] and set(d.get("layer", [])) != set(d.get("empty", [])):
        bad.append(f"the 'empty' layer {d.get('layer')} differs from the empty cells {d.get('empty')}")
    if d.get("pempty") != ["na"] and d.get("pempty") != d.get("layer"):
        bad.append(f"cell.empty attributes {d.get('pempty')} differ from the 'empty' layer {d.get('layer')}")
    return bad


def oracle(sc, obs):
    if is_sets(sc):
        return S.oracle(sc, obs)
    if is_occ(sc):
        return O.oracle(sc, obs)
    bad = []
    # once the program has written the built-in `empty` layer by hand, that layer legitimately differs from emptiness
    hand_empty = any(" layer set empty " in " " + l + " " for l in sc.lines)
    for ev in sc.meta.get("trace") or []:
        if ev[0] == "copied":
            _, how, so, sc_, ident = ev
            if so != sc_:
                part = next((n for n, a, b in zip(("dump", "connections", "capacities", "layers"), so, sc_) if a != b), "?")
                bad.append(f"faithful: the {how} copy differs from the original in its {part}")
            for p in ident:
                bad.append(f"detached-identity: after {how}: {p}")
        elif ev[0] == "state":
            _, side, op, out, dump, kind = ev[:6]
            if kind == "grid" and op.split()[:2] in (["layer", "add"], ["layer", "del"], ["layer", "fill"]) and out == "err Attr":
                bad.append(f"copy-unusable: `{op}` on side {side} raised AttributeError on a grid (property layers must keep working on the original and on the copy)")
            if kind == "grid" and op.split()[:2] == ["layer", "del"] and out == "err Key" and op.split()[2] in ev[6]:
                bad.append(f"copy-unusable: `{op}` on side {side} raised KeyError although the layer exists on that side")
            if dump is not None:
                for p in dump_inconsistencies(dump, hand_written_empty=hand_empty):
                    bad.append(f"copy-inconsistent: after `{op}` on side {side}: {p}")
        elif ev[0] == "unusable":
            bad.append(f"copy-unusable: '{ev[1]}' raised {ev[2]} (a copy must behave like a freshly built space)")
        elif ev[0] == "leak":
            _, side, op, before, after = ev
            part = next((n for n, a, b in zip(("dump", "connections", "capacities", "layers"), before, after) if a != b), "?")
            bad.append(f"detached-frame: '{op}' on side {side} changed the {part} of the other side")
    for l, o in zip(sc.lines, obs):
        if "INCONSISTENT" in o:
            bad.append(f"copy-collection: '{l}': a cell collection of that side does not carry the side's generator / live agent lists ({o.split('INCONSISTENT:')[-1]})")
        if "MISMATCH" in o:
            bad.append(f"one-value: '{l}': the cell attribute and the layer array disagree ({o})")
        if o.startswith("err Descriptor"):
            bad.append(f"copy-descriptor: '{l}': the layer exists but the cell's class has no descriptor for it")
    return bad


def generate(rng, tier, count):
    R = rng
    for _ in range(count):
        if R.random() < 0.3:
            yield S.generate_one(R, tier)
            continue
        if R.random() < 0.28:   # ~20 % of all scenarios
            yield O.generate_one(R, tier)
            continue
        k = R.random()
        # 12 % Voronoi spaces on their own: their copy re-triangulates (and could re-derive what the constructor derives)
        header = C.gen_grid_header(R) if k < 0.7 else C.gen_vor_header(R) if k > 0.88 else None
        base = C.gen_c06(R, n_ops=R.randint(2, 10), header=header)
        lines = list(base.lines)
        h = C.Header(lines[0].split())
        names = C.cell_names(h)
        n_agents = sum(1 for l in lines if l.startswith("new "))

        def layer_op(prefix=""):
            j = R.random()
            nm = R.choice(LAYER_NAMES)
            if j < 0.25:
                return f"{prefix}layer add {R.choice(LAYER_NAMES + BAD_NAMES)} {R.randrange(5)}"
            if j < 0.5:
                return f"{prefix}layer set {nm} {R.choice(names)} {R.randrange(-3, 9)}"
            if j < 0.55:
                # the built-in emptiness layer written by hand (a reserved cell): a copy must carry the value over
                return f"{prefix}layer set empty {R.choice(names)} {R.randrange(0, 2)}"
            if j < 0.85:
                return f"{prefix}layer get {R.choice(LAYER_NAMES + ['empty'])} {R.choice(names)}"
            if j < 0.93:
                return f"{prefix}layer fill {nm} {R.randrange(9)}"
            return f"{prefix}layer del {nm}"

        if h.kind == "grid":
            for nm in R.sample(LAYER_NAMES, R.randint(0, 3)):
                lines.append(f"layer add {nm} {R.randrange(5)}")
            for _ in range(R.randint(0, 4)):
                lines.append(layer_op())
        if R.random() < (0.4 if h.kind == "grid" else 0.7):
            # capacities written by hand after construction (`cell.capacity = k`): the copy must carry them, not the constructor's
            for _ in range(R.randint(1, 2)):
                lines.append(C.gen_setcap(R, h, names))
        lines.append("copy " + R.choice(["deepcopy", "pickle"]))

        def cell_op(prefix):
            nonlocal n_agents
            j = R.random()
            a = R.randrange(max(1, n_agents + 1))
            if j < 0.3:
                return f"{prefix}set {a} {R.choice(names + ['-'])}"
            if j < 0.4:
                return f"{prefix}moveto {a} {R.choice(names)}"
            if j < 0.55:
                key = (",".join(str(R.choice([-1, 0, 1])) for _ in h.dims) if h.kind == "grid" else str(R.randrange(h.n)))
                return f"{prefix}moverel {a} {key}"
            if j < 0.65:
                return f"{prefix}remove {a}"
            if j < 0.75:
                return f"{prefix}new {R.choice(['cell', 'cell', 'fixed'])}"
            if j < 0.78:
                return prefix + C.gen_setcap(R, h, names)  # each side's capacities are its own
            if j < 0.82:
                return f"{prefix}nbhd {R.choice(names)} {R.randint(1, 2)} {R.randint(0, 1)}"
            if j < 0.87:
                return f"{prefix}conns {R.choice(names)}"
            if j < 0.92:
                return f"{prefix}nbagents {R.choice(names)} {R.randint(1, 2)} {R.randint(0, 1)}"
            # the CellCollection API on that side (all_cells / empties / neighbourhoods, selections, random picks): the
            # collections of a copy must hold the copy's live agent lists and the copy's generator
            return prefix + C.gen_coll(R, h, names).rstrip()

        # agent indices are per side after the copy (both sides start with the same agents)
        count_side = {"o": n_agents, "c": n_agents}
        for _ in range(R.randint(4, 14)):
            side = R.choice(["o", "c"])
            n_agents = count_side[side]
            if h.kind == "grid" and R.random() < 0.35:
                l = layer_op(side + " ")
            else:
                l = cell_op(side + " ")
                if " new " in " " + l + " ":
                    count_side[side] += 1
            lines.append(l)
        if R.random() < 0.35:
            # a second copy alive at the same time (of the original or of the first copy), then ops on all three
            lines.append(f"copy2 {R.choice(['deepcopy', 'pickle'])} {R.choice(['o', 'c'])}")
            count_side["d"] = max(count_side.values())
            for _ in range(R.randint(3, 9)):
                side = R.choice(["o", "c", "d", "d"])
                n_agents = count_side[side]
                if h.kind == "grid" and R.random() < 0.4:
                    l = layer_op(side + " ")
                else:
                    l = cell_op(side + " ")
                    if " new " in " " + l + " ":
                        count_side[side] += 1
                lines.append(l)
        yield core.Scenario(lines, {})


def nontrivial(sc, obs):
    if is_sets(sc):
        return S.nontrivial(sc, obs)
    if is_occ(sc):
        return O.nontrivial(sc, obs)
    i = next((k for k, l in enumerate(sc.lines) if l.startswith("copy ")), None)
    if i is None:
        return False
    has_agent = any("occ=" in o and "occ= |" not in o for o in obs[:i] if "|" in o)
    sides = {l.split()[0] for l, o in zip(sc.lines[i + 1:], obs[i + 1:]) if o.startswith("ok") and l.split()[1] in
             ("set", "moveto", "moverel", "remove", "new", "layer", "setcap")}
    return has_agent and {"o", "c"} <= sides


def tags(sc, obs):
    if is_sets(sc):
        yield from S.tags(sc, obs)
        return
    if is_occ(sc):
        yield from O.tags(sc, obs)
        return
    w = sc.lines[0].split()
    yield "space:" + (w[1] + ":" + w[2] if w[1] == "grid" else w[1])
    for l, o in zip(sc.lines, obs):
        ws = l.split()
        if ws[0] == "copy":
            yield "copy:" + ws[1]
        if ws[0] == "copy2":
            yield "copy2:" + ws[1] + ":of-" + ws[2]
        if ws[0] in ("o", "c", "d"):
            yield (f"side-{ws[0]}:{ws[1]}" + (":" + ws[2] if ws[1] == "layer" else "") + (":" + ws[3] if ws[1] == "coll" and len(ws) > 3 else "")
                   + (":" + o.split()[1] if o.startswith("err") else ""))


def extra(ctx):
    """AgentSet: deepcopy / pickle give the same members in the same order, an equal but separate generator, and
    detached sets (mutating one side never changes the other)."""
    import random

    core.import_mesa()
    from mesa import Agent, Model
    from mesa.agent import AgentSet

    R = random.Random(f"C19-agentset/{ctx.seed}")
    n = 60 if ctx.tier == "quick" else 1500
    bad = 0
    for i in range(n):
        m = Model(seed=R.randrange(10**6))
        ags = list(Agent.create_agents(m, R.randint(0, 7)))
        for a in ags:
            a.w = R.randrange(5)
        R.shuffle(ags)
        s = AgentSet(ags[: R.randint(0, len(ags))], random=m.random)
        how = R.choice(["deepcopy", "pickle"])
        keep = list(s)
        (s2, keep2) = copy.deepcopy((s, keep)) if how == "deepcopy" else pickle.loads(pickle.dumps((s, keep)))
        problems = []
        if [a.unique_id for a in s2] != [a.unique_id for a in s] or [a.w for a in s2] != [a.w for a in s]:
            problems.append("members / order / attributes differ")
        if any(a is b for a in s for b in s2):
            problems.append("an agent object is shared")
        if s2.random is s.random:
            problems.append("the generator object is shared")
        elif s2.random.getstate() != s.random.getstate():
            problems.append("the copied generator has a different state")
        before = [a.unique_id for a in s]
        if len(s2):
            s2.shuffle(inplace=True)
            s2.discard(keep2[0])
            keep2[-1].w = 99
        if [a.unique_id for a in s] != before or any(a.w == 99 for a in s):
            problems.append("mutating the copy changed the original")
        before2 = [a.unique_id for a in s2]
        if len(s):
            s.discard(keep[-1])
            s.sort(lambda a: -a.unique_id, inplace=True)
        if [a.unique_id for a in s2] != before2:
            problems.append("mutating the original changed the copy")
        if problems:
            bad += 1
            ctx.violation("agentset", {"kind": "impl-counterexample", "oracle_clause": [f"agentset-{how}: {p}" for p in problems],
                                        "members": before, "how": how})
            break
    ctx.cov["agentset_copies_checked"] = i + 1

    # a larger grid whose neighbourhoods were all used (they are cached on the cells): copying must not depend on
    # the size of the space (defect S23: one level of recursion per cell)
    from mesa.discrete_space import CellAgent, OrthogonalMooreGrid, OrthogonalVonNeumannGrid

    for klass, dims in ((OrthogonalMooreGrid, (40, 40)), (OrthogonalVonNeumannGrid, (12, 12, 12))):
        m = Model(seed=1)
        g = klass(dims, torus=True, random=m.random)
        ag = CellAgent(m)
        ag.cell = g[tuple(3 for _ in dims)]
        for c in g.all_cells:
            c.neighborhood  # noqa: B018
        for how in ("deepcopy", "pickle"):
            try:
                g2 = copy.deepcopy(g) if how == "deepcopy" else pickle.loads(pickle.dumps(g))
                ok = (len(list(g2.all_cells)) == len(list(g.all_cells)) and next(iter(g2.agents)).cell is g2[tuple(3 for _ in dims)]
                      and sorted(c.coordinate for c in g2[tuple(0 for _ in dims)].neighborhood)
                      == sorted(c.coordinate for c in g[tuple(0 for _ in dims)].neighborhood))
                err = None if ok else "the copy differs from the original"
            except Exception as e:  # noqa: BLE001  RecursionError is S23; any other failure to copy is a violation as well
                err = type(e).__name__
            if err:
                ctx.violation("large-grid", {"kind": "impl-counterexample", "oracle_clause": [f"copy-unusable: {how} of a {dims} {klass.__name__} whose cells' neighborhoods were used: {err}"],
                                              "dims": dims, "how": how})
                return
    ctx.cov["large_grid_copies_checked"] = 4
