"""C20 — visualisation data shows each agent once, where it is, as portrayed; the model-parameter check
accepts exactly the parameter sets the constructor can be called with by keyword."""
import os
import re

from . import core, viz_common as V

PROP = "C20"
DRIVER = "drv_viz"
LEAN_MODULES = ["MesaModel.Props.C20"]
THEOREMS = [
    "Mesa.Viz.C20_space_agents_exactly_once",
    "Mesa.Viz.C20_collect_one_entry_per_agent",
    "Mesa.Viz.C20_entry_is_portrayal_or_default",
    "Mesa.Viz.C20_V3_inplace_pop_refuted",
    "Mesa.Viz.C20_inplace_agrees_on_unshared_dicts",
    "Mesa.Viz.C20_scatter_partition",
    "Mesa.Viz.C20_marker_values",
    "Mesa.Viz.C20_scatter_optional_args",
    "Mesa.Viz.C20_draw_one_marker_per_agent",
    "Mesa.Viz.C20_draw_ok_one_marker_per_agent",
    "Mesa.Viz.C20_V7_some_agents_optional_drawn",
    "Mesa.Viz.C20_empty_space_draws_nothing",
    "Mesa.Viz.C20_default_size_defined",
    "Mesa.Viz.C20_draw_kwargs",
    "Mesa.Viz.C20_hex_marker_at_hexagon_centre",
    "Mesa.Viz.C20_distinct_locations_distinct_positions",
    "Mesa.Viz.C20_markers_inside_the_limits",
    "Mesa.Viz.C20_network_markers_at_layout_positions",
    "Mesa.Viz.C20_plot_one_line_per_requested_measure",
    "Mesa.Viz.C20_plot_lines_labelled_and_coloured",
    "Mesa.Viz.C20_plot_backend_and_empty_layout",
    "Mesa.Viz.C20_altair_one_row_per_agent",
    "Mesa.Viz.C20_altair_row_values",
    "Mesa.Viz.C20_altair_chart_encoding",
    "Mesa.Viz.C20_altair_portrayal_encoded_partial",
    "Mesa.Viz.C20_A1_first_row_encoding_refuted",
    "Mesa.Viz.C20_layer_image_orientation",
    "Mesa.Viz.C20_layer_hex_orientation",
    "Mesa.Viz.C20_V8_ravel_refuted",
    "Mesa.Viz.C20_layer_level_bounds",
    "Mesa.Viz.C20_layer_level_monotone",
    "Mesa.Viz.C20_layer_level_determines_value",
    "Mesa.Viz.C20_layer_auto_range",
    "Mesa.Viz.C20_layer_cells_show_their_values",
    "Mesa.Viz.C20_layers_drawn_are_the_requested_ones",
    "Mesa.Viz.C20_layers_refused",
    "Mesa.Viz.C20_draw_space_with_layers",
    "Mesa.Viz.C20_layer_color_modes_agree_in_range",
    "Mesa.Viz.C20_check_accepts_iff_binds_by_keyword",
    "Mesa.Viz.C20_check_with_controller_keywords",
    "Mesa.Viz.C20_split_lossless_disjoint",
    "Mesa.Viz.C20_creator_checks_all_params",
    "Mesa.Viz.C20_creator_params_lossless",
    "Mesa.Viz.C20_user_inputs_one_per_adjustable_param",
    "Mesa.Viz.C20_creator_accepts_iff_model_can_be_created",
    "Mesa.Viz.C20_input_change_keeps_the_parameter_set",
    "Mesa.Viz.C20_ctrl_step_button",
    "Mesa.Viz.C20_ctrl_steps_never_go_back",
    "Mesa.Viz.C20_ctrl_every_reset_gets_the_whole_parameter_set",
    "Mesa.Viz.C20_ctrl_reset_uses_latest_inputs",
    "Mesa.Viz.C20_ctrl_play_runs_to_the_models_stop",
    "Mesa.Viz.C20_ctrl_pause",
    "Mesa.Viz.C20_ctrl_running_flag_is_the_models",
    "Mesa.Viz.C20_ctrl_reset_flag_ignores_a_stopped_model",
]
COUNTS = {"quick": 1600, "thorough": 60000}
TRUSTED = [
    "matplotlib: Axes.scatter stores the x/y/s/c/marker/zorder/alpha/edgecolors/linewidths it is given in one PathCollection (read back through get_offsets/get_sizes/get_facecolors/get_edgecolors/get_linewidths/get_zorder/get_paths); slot i of a keyword array belongs to marker i (the model's `Group.drawn`); a marker whose alpha / edge colour / line width is the filled-in default (own colour's alpha, face colour, rcParams patch.linewidth) reads back like one drawn without the keyword; colour-name conversion, marker rendering, imshow(origin='lower') putting array row r at height r",
    "matplotlib, property layers: imshow(origin='lower') keeps the array, vmin / vmax / alpha / cmap it is given (read back through get_array, norm, get_alpha, get_cmap); a colormap maps level k/span to a colour of its own (the level behind a hexagon's colour is searched among the multiples of 1/span); Colorbar widens a range without extent by nonsingular(expander=0.1) (undone when read back) and does what it likes with an inverted range (not compared); the colour of a name (to_rgba)",
    "Altair: Chart.to_dict() reports the rows given to alt.Data(values=...), the encoding channels (x / y type, colour, size, tooltip fields) and the mark properties unchanged; what Vega-Lite renders from them (a nominal colour scale maps colour names to scheme colours) is not modelled",
    "solara/reacton: solara.render runs the component function, its children and then its effects once (used for SpaceMatplotlib, SpaceAltair, ModelCreator; the Axes / Chart are taken from the post_process hook; the inputs UserInputs creates are recorded at solara's boundary — the calls of solara.SliderInt / SliderFloat / Select / Checkbox / InputText —, an input is changed by calling its on_value); a reactive value set outside a render keeps the value",
    "solara, the controls: SolaraViz is rendered by solara.render with solara.Sidebar / solara.AppBar replaced by solara.Column (outside an AppLayout their children are not rendered); buttons, sliders, the checkbox and the inputs are operated through the on_click / on_value recorded at solara's boundary, a disabled button is not clicked; threads are not run: the play loop is the function handed to solara.lab.use_task, called in the harness' thread with time.sleep (of mesa.visualization.solara_viz) as the point where the scripted user acts; that solara starts that function when playing / running change, cancels it on unmount, and what the visualisation thread does (use_threads) is not modelled; reacton's reconciliation by position (why toggling the threads checkbox remounts the controller) is observed, not modelled beyond its effect",
    "measure plots: Axes.plot keeps the y data, label and colour it is given (read back through ax.lines); a line plotted without a colour gets the next colour of the cycle; pandas df.loc[:, m] raises KeyError(m) for a measure that was not collected",
    "networkx spring_layout(seed=0) is deterministic; under the default layout the model keeps a node's label for its layout position (under a caller-supplied layout — `drawnet` — positions are the layout's own and the lookup by label is in the model); the edges (nx.draw_networkx_edges) are not modelled and not drawn there (draw_grid=False)",
    "numpy boolean masking / np.unique / set() over the marker and z-order arrays (the model keeps the distinct values; the order of the scatter calls is not compared)",
    "positions are exact integers (hex grids in units of sqrt(3)/2 and 1/2); IEEE rounding of the hex transform is checked with tolerance 1e-6, not modelled",
    "CPython keyword binding: the oracle calls the generated __init__ for real; `bindsByKeyword` in Props/C20.lean is that rule written out",
    "space.agents enumerates cell by cell in the space's own cell order and inside a cell in arrival order (properties C06/C08/C10 own that; here it is the model's `spaceAgents`, compared on every scenario)",
]
ASSUMPTIONS = [
    "portrayal values are colour names, RGB / RGBA tuples (also mixed, V14), marker symbols, ints; alpha as a float; numbers to be colour-mapped are outside the generator",
    "2-D spaces",
]
RULE = ("3% plot scenarios: a model with a real DataCollector over 1-3 measures with 0-5 collected rows, PlotMatplotlib (through make_plot_component and solara.render, Axes taken from the post_process hook) for string / dict / list / tuple / other requests incl. measures not collected and repeated ones, the backend dispatch; 12% ctrl scenarios: the real SolaraViz on a model class that is running while steps < its stop argument (also at step 0: stop=0 stops in the constructor) — 60% taking **kw (simulator=None, **kw), 40% with a generated signature: takers (positional-or-keyword / keyword-only, with / without default) for most names of model_params, sometimes one missing or one more, with / without **kw, with / without a simulator parameter (required or not), simulator rarely among model_params — under a ModelController or a SimulatorController with an ABMSimulator (its reset passes simulator= as well: the check against that call, a TypeError of Reset is a failed clause), model_params of 0-4 entries (fixed ints / dicts, int / float Slider objects, option dicts of the five input types, rarely an unsupported type), render interval 1-5, threads on / off, then 3-12 user actions: Step, play / pause, Reset, render-interval and threads changes, input changes (also of names without an input), and play loops of 0-4 scripted ticks during whose sleeps the user does nothing / pauses / resets / moves the render slider / changes an input and during whose steps (15%) clicks pause; observed after every action: model.steps, model.running, the buttons (label, disabled), the render interval, the update counter, the keyword arguments the current model was created with; 40% space scenarios: one of 12 space classes (4 mesa.space grids, 3 discrete_space grids, 2 networks with 1-6 nodes, shuffled / "
        "non-contiguous node labels and possibly no edges, Voronoi with 1-6 centroids, 2 continuous spaces; half of the mesa.space ContinuousSpaces with an origin x_min, y_min in -3..3), sizes 1-5 (4% of the mesa.space grids / ContinuousSpace: width or height 0; 3% of the networks: no node — spaces without room, which draw_space / Altair refuse), 0-6 agents with several per cell, "
        "agents never placed, a pool of 0-4 portrayal dict *objects* shared between agents (keys color/size/marker/zorder, colours as names and as RGB(A) tuples — none / all / mixed —, the optional "
        "alpha/edgecolors/linewidths under an all/none/some policy, unsupported keys), interleaved place/move/remove/dict-rewrite/"
        "re-portray ops and observations collect_agent_data / draw_space (Agg; also with plotting keywords alpha / edgecolors / linewidths; on networks also with a caller-supplied layout algorithm — a table node -> position over most / all / more than the nodes, distinct or coinciding positions, rarely empty — and keywords for it) / Altair _draw_grid (rows, encoded channels, x/y type, tooltip fields, default "
        "mark size) / the solara components SpaceMatplotlib and SpaceAltair with the portrayal and with their default portrayals / heap dump / the axis limits draw_space asks for / the default marker size (all agents drawn with an empty portrayal) / property layers "
        "(1-3 named layers, requests of 1-4 entries in any order incl. names the space has no layer for; colour or colormap or neither; "
        "alpha absent / 25 / 50 / 100 %; range automatic, one-sided, explicit incl. without extent, cutting the data and inverted; colour bar "
        "absent / on / off; constant layers; float and int layers; drawn repeatedly; on non-grid classes), including observations of the space without agents; "
        "45% parameter scenarios: 1-3 generated __init__ signatures (instance parameter named self/this, positional-only, missing; "
        "positional-only, positional-or-keyword, *args, keyword-only, **kwargs under any name, defaults) each with 2-6 key sets "
        "(required names mostly present, extras, the instance's name, positional-only names, `simulator`) through _check_model_params (a quarter of them told that simulator= is passed anyway), "
        "ModelCreator (solara.render) and split_model_params, and through ModelCreator on full parameter dicts (fixed ints and dicts, int / float "
        "Slider objects, option dicts of the five supported and of unsupported types, with / without value and label) followed by changes of "
        "inputs (model_parameters read back after each); plus, on every run, the exhaustive enumeration of all signature shapes "
        "with <= 3 parameters after the instance parameter x all key subsets (376 signatures, 6.1k checks); non-trivial = an observation of >= 2 agents or a check against >= 3 "
        "parameters or a controller history that stepped the model and reset it; distinct = distinct op-line sequences (sha1)")


def _load_known():
    """core.load_known reads the merged known_findings.txt; the fragment known_findings.d/C20.txt is the
    source of that file, so read it as well (the merged file is regenerated only at assembly time)"""
    res = _orig_load_known()
    have = {(k["status"], k["property"], k["id"]) for k in res}
    path = os.path.join(core.VERIF, "known_findings.d", "C20.txt")
    if os.path.exists(path):
        for line in open(path):
            m = re.match(r"(open|fixed): property=(C\d+) (\S+) (.*)$", line.strip())
            if not m:
                continue
            status, prop, a, rest = m.groups()
            if status == "open" and (status, prop, a) not in have:
                res.append({"status": "open", "property": prop, "id": a, "what": rest})
            elif status == "fixed":
                fid, _, what = rest.partition(" ")
                if (status, prop, fid) not in have:
                    res.append({"status": "fixed", "property": prop, "commit": a, "id": fid, "what": what})
    return res


if getattr(core.load_known, "__name__", "") != "_load_known":
    _orig_load_known = core.load_known
    core.load_known = _load_known


def generate(rng, tier, count):
    for _ in range(count):
        yield V.gen_scenario(rng, tier)


def builtin_corpus():
    """small-scope exhaustive part, run on every check: all signature shapes with <= 3 parameters after the
    instance parameter x all key subsets"""
    return V.enum_signatures(3)


run_impl = V.run_impl
oracle = V.oracle

KNOWN = {
    # open finding A1: Altair's `_draw_grid` reads the colour / size channel off the first agent's row.  Identified by its
    # call site and shape: a chart of rows of which some, not all, carry the key (the oracle clause names exactly that)
    "A1": {
        "scenario": [
            "scenario space multi 2 2",
            "dict 0 color=red size=5",
            "place 1 0 0",
            "place 2 1 1",
            "portray 2 0",
            "altair",
        ],
        "matches": lambda sc, clause: clause.split(":")[0] == "altair-encoding-first-row",
    },
}


def nontrivial(sc, obs):
    for l, o in zip(sc.lines, obs):
        w = l.split()
        if w[0] in ("collect", "collectd") and re.match(r"ok n=([2-9]|\d\d)", o):
            return True
        if w[0] in ("draw", "drawc", "drawc0", "drawk", "drawsp") and sum(int(n) for n in re.findall(r" n=(\d+)", o)) >= 2:
            return True
        if w[0] in ("altair", "altairc", "altairc0") and o.count(" | ") >= 2:
            return True
    if sc.lines[0] == "scenario params":
        return any(l.startswith("sig ") and len(l.split()) >= 4 for l in sc.lines)
    if sc.lines[0] == "scenario plot":
        return any(o.count(" | ") >= 2 for o in obs)
    if sc.lines[0].startswith("scenario ctrl"):
        # the model was stepped and a reset created another one
        return any(re.match(r"ok gen=[1-9]", o) for o in obs) and any(re.search(r" steps=[1-9]", o) for o in obs)
    return False


def tags(sc, obs):
    w0 = sc.lines[0].split()
    yield "kind:" + w0[1]
    if w0[1] == "space":
        yield "family:" + w0[2]
        placed = 0
        for l, o in zip(sc.lines[1:], obs[1:]):
            w = l.split()
            yield "op:" + w[0]
            if w[0] == "place" and o == "ok":
                placed += 1
            if w[0] == "remove" and o == "ok":
                placed -= 1
            if w[0] in ("collect", "collectd", "draw", "drawc", "drawc0", "drawk", "altair", "altairc", "altairc0"):
                if placed == 0:
                    yield "branch:observe-empty-space"
                if o.startswith("err"):
                    yield "result:" + o
            if w[0] == "frame":
                yield "frame:" + (o if not o.startswith("ok x") else "degenerate-limits" if re.search(r"=(\S+)\.\.\1( |$)", o) else "ok")
            if w[0] == "drawnet":
                yield "drawnet:" + (" ".join(o.split()[:2]) if o.startswith("err") else "same-position-twice" if len(set(t.split(":", 1)[1] for t in w[1:])) < len(w) - 1
                                    else "ok")
                nodes = {t.split(":")[0] for t in w[1:]}
                if any(n not in w0[5:] for n in nodes):
                    yield "drawnet:layout-knows-a-node-the-graph-lacks"
                if any(n not in nodes for n in w0[5:]) and o.startswith("ok"):
                    yield "drawnet:layout-lacks-an-empty-node"
            if w[0] == "drawk":
                yield "drawk:" + ("refused" if o.startswith("err Value conflict") else "dropped" if w0[2] in ("cs", "xcs", "vor") else "applied")
            if w[0] in ("draw", "drawc", "drawc0", "drawk") and o.count(" | ") >= 2:
                yield "branch:several-scatter-groups"
            if w[0] in ("collect", "collectd") and "None" in o and o.startswith("ok"):
                yield "branch:optional-key-for-some-agents"
            if w[0] in ("collect", "collectd") and "ign=-" not in o and o.startswith("ok"):
                yield "branch:ignored-fields-warning"
            if w[0] == "drawlayer":
                yield "layer:" + w[1] + ":" + (o.split()[3] if o.startswith("ok |") else o)
            if w[0] == "drawsp":
                yield "drawsp:" + (o if o.startswith("err") else "empty-request" if len(w) == 1 else "agents+layers")
            if w[0] == "drawlayers":
                yield "layers:" + (o if o.startswith("err") else f"{o.count(' | ')}-of-{len(w) - 1}")
                for t in w[1:]:
                    f = t.split(":")
                    yield "layer-mode:" + f[1].split("=")[0]
                    yield "layer-range:" + ("auto" if f[3] == f[4] == "-" else "one-sided" if "-" in (f[3], f[4]) else
                                            "no-extent" if f[3] == f[4] else "inverted" if int(f[4]) < int(f[3]) else "explicit")
                    yield "layer-colorbar:" + f[5]
        ps = [l.split() for l in sc.lines if l.startswith("portray ")]
        refs = [p[2] for p in ps if p[2] != "-"]
        if len(refs) != len(set(refs)):
            yield "branch:shared-portrayal-dict"
    elif w0[1] == "plot":
        for l, o in zip(sc.lines[1:], obs[1:]):
            w = l.split()
            yield "op:plot-" + w[0]
            if w[0] == "plot":
                yield "plot:" + w[1] + ":" + (" ".join(o.split()[:2]) if o.startswith("err") else f"{o.count(' | ')}-lines")
                if len(w[2:]) != len(set(t.split(":")[0] for t in w[2:])):
                    yield "plot:a-measure-twice"
            if w[0] == "backend":
                yield "plot-backend:" + o
            if w[0] == "data" and w[1:] and w[1].endswith("=-"):
                yield "plot:empty-table"
    elif w0[1] == "ctrl":
        yield "ctrl:" + w0[2]
        prev = None
        changed = False
        for l, o in zip(sc.lines[1:], obs[1:]):
            w = l.split()
            yield "op:ctrl-" + w[0]
            f = dict(t.split("=", 1) for t in o.split()[1:] if "=" in t) if o.startswith("ok ") else None
            if w[0] == "viz":
                yield "ctrl-viz:" + ("ok" if f else " ".join(o.split()[:2]))
                yield "ctrl-viz-threads:" + w[2]
                for t in w[4:]:
                    g = t.split(":")[1].split("/")
                    yield "ctrl-param:" + (g[0] if g[0] != "spec" else g[1] if g[1] in V.INPUT_TYPES else "unsupported-type")
            elif f is None:
                yield f"ctrl-{w[0]}:" + o
            elif w[0] in ("change",):
                changed = True
            elif w[0] == "threads" and prev and (prev["playing"], prev["running"]) != (f["playing"], f["running"]):
                yield "ctrl-branch:threads-toggle-remounts-controller"
            elif w[0] == "step":
                yield "ctrl-step:" + ("model-stops" if prev and prev["mrunning"] == "1" and f["mrunning"] == "0" else "ok")
            elif w[0] == "loop" and prev:
                for t in w[1:]:
                    sl, _, j = t.partition("@")
                    yield "ctrl-loop-ev:" + sl.split("=")[0].split(":")[0] + ("@" if j else "")
                    if sl.startswith("set:"):
                        changed = True
                if not (prev["playing"] == "1" and prev["running"] == "1"):
                    yield "ctrl-loop:not-started"
                else:
                    ticks = int(f["updates"]) - int(prev["updates"])
                    yield ("ctrl-loop-end:" + ("model-stopped" if f["running"] == "0" and f["playing"] == "1" else
                                               "paused" if f["playing"] == "0" else "other"))
                    if f["gen"] != prev["gen"]:
                        yield "ctrl-loop:reset-during-play"
                    d = int(f["steps"]) - int(prev["steps"])
                    if f["gen"] == prev["gen"] and any("@" in t for t in w[1:]) and d % max(1, int(prev["render"])) != 0:
                        yield "ctrl-branch:tick-cut-short-by-pause-during-step"
                    if f["gen"] == prev["gen"] and f["mrunning"] == "0" and prev["mrunning"] == "1" and \
                            "stop:" in f["kwargs"] and int(f["steps"]) > int(re.search(r"stop:(\d+)", f["kwargs"]).group(1)):
                        yield "ctrl-branch:tick-overruns-the-models-stop"
                    yield "ctrl-loop-ticks:" + (str(ticks) if ticks < 4 else "4+")
            if w[0] in ("reset", "loop") and f and prev and f["gen"] != prev["gen"]:
                yield "ctrl-reset:" + ("after-input-change" if changed else "initial-params")
                if f["kwargs"] == "-":
                    yield "ctrl-reset:no-params"
            if f:
                prev = f
    else:
        for l, o in zip(sc.lines[1:], obs[1:]):
            w = l.split()
            yield "op:" + w[0]
            if w[0] in ("check", "creator", "inputs", "change"):
                yield ("" if w[0] in ("check", "creator") else w[0] + "-") + "result:" + " ".join(o.split()[:2 if o.startswith("err") else 1])
            if w[0] == "inputs":
                for t in w[1:]:
                    f = t.split(":")[1].split("/")
                    yield "input:" + (f[0] if f[0] != "spec" else f[1] if f[1] in V.INPUT_TYPES else "unsupported-type")
            if w[0] == "sig":
                for p in w[1:]:
                    yield "param-kind:" + p.split(":")[1]
                if any(p.split(":")[1] == "vk" and p.split(":")[0] != "kwargs" for p in w[1:]):
                    yield "branch:var-keyword-not-named-kwargs"
                if w[1:] and w[1].split(":")[0] != "self":
                    yield "branch:instance-not-named-self"


if __name__ == "__main__":
    import sys
    core.main(sys.modules[__name__])
